import OnlVerif.Kernel.Step
import OnlVerif.Kernel.TimeCell
import OnlVerif.Tcp.CC
/-!
# The TCP sender as processes *on the kernel model `K`*

`OnlVerif/Tcp/CC.lean` describes `onl.packet.tcp_generator.TCPPacketGenerator` as a labelled transition system over its
atomic bursts (`wake`, `handoff`, `ack`, `fire seq`, `tick t`); its admissibility rules *assume* what the kernel guarantees
(a resumption of `run` and the hand-off of a wake-up token happen before the clock moves; a retransmission timer fires
exactly at its expiry unless it was stopped; `restart` from the timer's own callback re-arms it).  This file writes the same
class as a program of the kernel model (`OnlVerif/Kernel`): the generator `TCPPacketGenerator.run`, the methods `put`,
`timeout_callback`, `resend_packet`, one `Timer` *process* per segment (`onl/utils/timer.py`: `Timer.__init__`, `run`,
`stop`, `restart`, the encoding of `OnlVerif/Util/TimerOnK.lean`) and a *network script* process that plays the path
(`for gap, ack in script: yield env.timeout(gap); sender.put(ack)`) are `Burst` programs; the wake-up `Store`
`cwnd_avaialbe` is a `Store` resource of `K`; nothing is assumed about scheduling - `K`'s `step` decides what runs when.
`OnlVerif/Props/C16K.lean` proves that every run of this program is an admissible run of the LTS (refinement).

```python
def run(self, env):                                                  def put(self, ack):
    while env.now < self.flow.finish_time:                               assert ack.flow_id >= 10000; ackno = ack.ack
        if self.flow.size and self.next_seq >= self.flow.size:           if ackno < self.last_ack: return
            return                                                       if ackno == self.last_ack:
        while self.next_seq >= self.send_buffer:                             self.dupack += 1
            packet_size = min(self.mss, self.flow.size - self.next_seq)  else:
            self.send_buffer += packet_size                                  if self.dupack > 0:
        if self.next_seq + self.mss <= min(self.send_buffer,                     if self.dupack >= 3: self.congestion_control.dupack_over()
                self.last_ack + self.congestion_control.cwnd):                   self.dupack = 0
            packet = Packet(time=env.now, size=self.mss,                 if self.dupack == 3:
                            packet_id=self.next_seq, ...)                    self.congestion_control.consecutive_dupacks_received()
            self.sent_packets[packet.packet_id] = packet                     self.resend_packet(ackno); return
            self.out.put(packet)                                         elif self.dupack > 3:
            self.next_seq += packet.size                                     self.congestion_control.more_dupacks_received()
            self.timers[packet.packet_id] = Timer(env,                       if self.last_ack + self.congestion_control.cwnd >= ackno:
                timeout=self.rto,                                                self.resend_packet(ackno)
                timeout_callback=self.timeout_callback,                      return
                args=packet.packet_id)                                   if self.dupack == 0:
        else:                                                                sample_rtt = self.env.now - ack.time
            yield self.cwnd_avaialbe.get()                                   … rtt_estimate, est_deviation, rto …
                                                                             self.last_ack = ackno
def timeout_callback(self, packet_id):                                       self.congestion_control.ack_received(sample_rtt, self.env.now)
    self.congestion_control.timer_expired()                                  for seq in [s for s in self.timers if s < ackno or s == ack.packet_id]:
    self.resend_packet(packet_id)                                                self.timers[seq].stop()
    self.rto *= 2                                                                del self.timers[seq]
    self.timers[packet_id].restart(self.rto)                                     del self.sent_packets[seq]
                                                                             self.cwnd_avaialbe.put(True)
def resend_packet(self, seqno):
    if seqno not in self.sent_packets: return
    resent_pkt = self.sent_packets[seqno]; resent_pkt.time = self.env.now; self.out.put(resent_pkt)
```

Encoding (modelling devices, all of them):

* a finite flow: `flow.size = size` (a parameter; the theorems take `size = n·mss`), `flow.finish_time = ∞`, `start_time`,
  `arrival_dist`, `size_dist` unset, `out` attached (what the LTS assumes too);
* the attributes live in the shared cells of `K` (`Call.load/store`): cell 0 = `next_seq`, 1 = `send_buffer`,
  2 = `last_ack`, 3 = `dupack` (integers), 4 = `rtt_estimate`, 5 = `est_deviation`, 6 = `rto`, 7 … 22 = the sixteen
  attributes of the congestion-control object in the order of the generated schema `CCState` (scalars through the codec
  `TimeCell`: `Val` has no scalar constructor; the two booleans of `TCPCubic` as 0/1);
* a congestion-control *method call* (`timer_expired`, `dupack_over`, `consecutive_dupacks_received`,
  `more_dupacks_received`, `ack_received`) reads the object from its cells, applies the **generated** method
  (`OnlVerif/Generated/TcpCC.lean`, through the class dispatch `CC.*` of `Tcp/CC.lean`) and writes the object back; the
  estimator block of `put` and the back-off `self.rto *= 2` are the generated `put_estimator` / `timeout_backoff` in the
  same way; the send guard is the generated `run_send_guard`; a division by zero that the generated `.safe` flags is a
  raised `ZeroDivisionError`;
* the dicts `sent_packets` and `timers` are keyed by sequence numbers.  `sent_packets[seq]` is cell `32 + 8·seq`: it holds
  `packet.time` of the segment, and is *unset* (`None`) when the key is absent (`del` unsets it).  `timers[seq]` is the
  presence flag in cell `33 + 8·seq` (1 / unset) and the attributes of the `Timer` object in cells `34 + 8·seq` (`stopped`),
  `35 + 8·seq` (`expire_time`), `36 + 8·seq` (`timeout`), `37 + 8·seq` (`start_time`), `38 + 8·seq` (`proc`): the object
  outlives its dict entry, as in Python, because its process still sleeps;
* `for seq in [s for s in self.timers if …]` visits the candidate keys `0, mss, 2·mss, … < next_seq` in increasing order and
  tests the presence flag (that every key ever inserted is such a number, inserted in this order, is part of the proved
  invariant; the filter is evaluated per key - each key's test and effect touch only that key's cells);
* every `Timer` is its own `K` process running `Timer.run`; `stop` and `restart` are the methods of `TimerOnK` on the cells
  of that timer; `restart` calls `K`'s `interrupt` and returns on the kernel's refusal ("self": the caller is the timer's
  own process, which is the case for the call in `timeout_callback`), spawns a new process otherwise - nothing is resolved
  statically;
* `self.out.put(packet)` is the observation `log "tx" (int seq)`, recorded with `env.now` in `KState.trace`;
* `K` has no call that reads `env.now`: every generator that sleeps on a timeout carries the instant of its next resumption
  in its local state (`now + delay`, the kernel's own expression).  `run` resumes from `cwnd_avaialbe.get()` either in
  the instant of the call (a token was there) or in the instant of the `put` that serves it; `put` records that instant in
  the *ghost* cell 23 (the code has no such attribute), so `env.now` after the `get` is
  `max(instant of the get call, instant of the last cwnd_avaialbe.put)`.  That these are `env.now` whenever a generator runs
  is part of the proved invariant; the observations record the kernel's own clock;
* the two `while` loops of `run` run without a `yield`: the inner one (`send_buffer` refill) is unrolled `next_seq + 2`
  times, the outer one `size + 2` times, and the model raises `Hang` beyond (a Python hang: with `mss ≥ 1` neither bound can
  be reached - proved; with `mss = 0` the Python loop does not terminate either);
* the network script is `for gap, ack in script: yield env.timeout(gap); sender.put(ack)` with arbitrary ACK numbers,
  packet ids and stamps (`AckIn`).
-/

/-- local states of the generator functions (where each one is suspended, and the instant it resumes at) -/
inductive SnSt (τ : Type) where
  /-- the network script: resumes at `now` (not started / after the sleep before `put(pending)`), then the deliveries still
  to come -/
  | scr (now : τ) (pending : Option (AckIn τ)) (rest : List (τ × AckIn τ))
  /-- `TCPPacketGenerator.run` created at `now`, not started -/
  | runStart (now : τ)
  /-- `run` suspended in `yield self.cwnd_avaialbe.get()`, called at `now` -/
  | runGet (now : τ)
  /-- `Timer.run` of segment `seq` created at `now`, not started -/
  | tmStart (seq : Nat) (now : τ)
  /-- `Timer.run` of segment `seq` suspended in `yield self.env.timeout(…)`, due at `wake` -/
  | tmSleep (seq : Nat) (wake : τ)

namespace SenderOnK
variable {τ : Type} [NumX τ] [TimeCell τ]

/-- the constants of a sender: the class of its congestion-control object, `self.mss`, `flow.size` -/
structure Cfg where
  kind : CCKind
  mss : Nat
  size : Nat

def tokStore : Nat := 0
def cNext : Nat := 0
def cBuf : Nat := 1
def cLack : Nat := 2
def cDup : Nat := 3
def cRtt : Nat := 4
def cDev : Nat := 5
def cRto : Nat := 6
/-- the `i`-th attribute of the congestion-control object (`i < 16`, in the order of `CCState`) -/
def cCC (i : Nat) : Nat := 7 + i
/-- `congestion_control.cwnd` -/
def cCwnd : Nat := 8
/-- (ghost) the instant of the last `self.cwnd_avaialbe.put(True)` -/
def cPutAt : Nat := 23
/-- `sent_packets[seq].time` (unset: no such key) -/
def cSent (seq : Nat) : Nat := 32 + 8 * seq
/-- `seq in self.timers` -/
def cTmIn (seq : Nat) : Nat := 33 + 8 * seq
def cTmStopped (seq : Nat) : Nat := 34 + 8 * seq
def cTmExpire (seq : Nat) : Nat := 35 + 8 * seq
def cTmTimeout (seq : Nat) : Nat := 36 + 8 * seq
def cTmStart (seq : Nat) : Nat := 37 + 8 * seq
def cTmProc (seq : Nat) : Nat := 38 + 8 * seq

def typeErr : Exc := ⟨"TypeError", []⟩
def assertErr : Exc := ⟨"AssertionError", []⟩
def keyErr : Exc := ⟨"KeyError", []⟩
def valErr : Exc := ⟨"ValueError", []⟩
def zeroDivErr : Exc := ⟨"ZeroDivisionError", []⟩
/-- a loop without a `yield` would be repeated for ever -/
def hangErr : Exc := ⟨"Hang", []⟩

abbrev B (τ : Type) := Burst τ (SnSt τ)

/-- what a program does with a reply it cannot use (never happens in the runs of this program) -/
def bad : Reply → B τ
  | .err x => .raise x
  | _ => .raise typeErr

/-! ## reading and writing attributes -/

/-- read a natural-number attribute -/
def loadNat (k : Nat) (cont : Nat → B τ) : B τ :=
  .call (.load k) fun rp => match rp with
    | .val (.int n) => cont n.toNat
    | rp => bad rp

/-- read a scalar attribute -/
def loadTime (k : Nat) (cont : τ → B τ) : B τ :=
  .call (.load k) fun rp => match rp with
    | .val v => (match TimeCell.dec v with
      | some x => cont x
      | none => .raise typeErr)
    | rp => bad rp

/-- read a scalar that may be unset (`None`) -/
def loadOptTime (k : Nat) (cont : Option τ → B τ) : B τ :=
  .call (.load k) fun rp => match rp with
    | .val .none => cont none
    | .val v => (match TimeCell.dec v with
      | some x => cont (some x)
      | none => .raise typeErr)
    | rp => bad rp

/-- read a 0/1 attribute that may be unset (unset = false) -/
def loadFlag (k : Nat) (cont : Bool → B τ) : B τ :=
  .call (.load k) fun rp => match rp with
    | .val .none => cont false
    | .val (.int n) => cont (n != 0)
    | rp => bad rp

/-- read a process attribute -/
def loadProc (k : Nat) (cont : EvId → B τ) : B τ :=
  .call (.load k) fun rp => match rp with
    | .val (.ev p) => cont p
    | rp => bad rp

def storeVal (k : Nat) (v : Val) (cont : B τ) : B τ := .call (.store k v) fun _ => cont
def storeNat (k : Nat) (n : Nat) (cont : B τ) : B τ := storeVal k (.int n) cont
def storeTime (k : Nat) (x : τ) (cont : B τ) : B τ := storeVal k (TimeCell.enc x) cont
def storeFlag (k : Nat) (b : Bool) (cont : B τ) : B τ := storeVal k (.int (if b then 1 else 0)) cont

/-- read the congestion-control object -/
def loadCC (cont : CCState τ → B τ) : B τ :=
  loadTime (cCC 0) fun mss => loadTime (cCC 1) fun cwnd => loadTime (cCC 2) fun ssthresh =>
  loadTime (cCC 3) fun wlm => loadTime (cCC 4) fun es => loadTime (cCC 5) fun op => loadTime (cCC 6) fun dm =>
  loadTime (cCC 7) fun wt => loadTime (cCC 8) fun k => loadTime (cCC 9) fun ac =>
  loadFlag (cCC 10) fun tf => loadFlag (cCC 11) fun fc =>
  loadTime (cCC 12) fun beta => loadTime (cCC 13) fun c => loadTime (cCC 14) fun cc => loadTime (cCC 15) fun cnt =>
  cont { mss := mss, cwnd := cwnd, ssthresh := ssthresh, W_last_max := wlm, epoch_start := es, origin_point := op,
         d_min := dm, W_tcp := wt, K := k, ack_cnt := ac, tcp_friendliness := tf, fast_convergence := fc, beta := beta,
         C := c, cwnd_cnt := cc, cnt := cnt }

/-- write the congestion-control object -/
def storeCC (c : CCState τ) (cont : B τ) : B τ :=
  storeTime (cCC 0) c.mss <| storeTime (cCC 1) c.cwnd <| storeTime (cCC 2) c.ssthresh <|
  storeTime (cCC 3) c.W_last_max <| storeTime (cCC 4) c.epoch_start <| storeTime (cCC 5) c.origin_point <|
  storeTime (cCC 6) c.d_min <| storeTime (cCC 7) c.W_tcp <| storeTime (cCC 8) c.K <| storeTime (cCC 9) c.ack_cnt <|
  storeFlag (cCC 10) c.tcp_friendliness <| storeFlag (cCC 11) c.fast_convergence <|
  storeTime (cCC 12) c.beta <| storeTime (cCC 13) c.C <| storeTime (cCC 14) c.cwnd_cnt <| storeTime (cCC 15) c.cnt cont

/-- a method call on the congestion-control object: the generated method `f` applied to the object in the cells -/
def ccCall (f : CCState τ → CCState τ) (cont : B τ) : B τ := loadCC fun c => storeCC (f c) cont

/-- read the estimator attributes `rtt_estimate, est_deviation, rto` -/
def loadEst (cont : RttEst τ → B τ) : B τ :=
  loadTime cRtt fun r => loadTime cDev fun d => loadTime cRto fun o =>
  cont { rtt_estimate := r, est_deviation := d, rto := o }

def storeEst (e : RttEst τ) (cont : B τ) : B τ :=
  storeTime cRtt e.rtt_estimate <| storeTime cDev e.est_deviation <| storeTime cRto e.rto cont

/-- a generated block of assignments to the estimator attributes -/
def estCall (f : RttEst τ → RttEst τ) (cont : B τ) : B τ := loadEst fun e => storeEst (f e) cont

/-! ## `Timer` (one object per segment; the encoding of `TimerOnK`) -/

/-- `Timer.stop()` of the timer of `seq` at instant `now` -/
def tmStop (now : τ) (seq : Nat) (cont : B τ) : B τ :=
  storeNat (cTmStopped seq) 1 <|                                -- self.stopped = True
  storeTime (cTmExpire seq) now cont                            -- self.expire_time = self.env.now

/-- `Timer.restart(tau)` of the timer of `seq` at instant `now` -/
def tmRestart (now : τ) (seq : Nat) (tau : τ) (cont : B τ) : B τ :=
  storeTime (cTmStart seq) now <|                               -- self.start_time = self.env.now
  storeTime (cTmTimeout seq) tau <|                             -- self.timeout = timeout
  storeTime (cTmExpire seq) (now + tau) <|                      -- self.expire_time = self.start_time + timeout
  loadProc (cTmProc seq) fun p =>
  .call (.interrupt p (.str "restart timer")) fun rp => match rp with
    | .unit =>                                                  -- alive, not the caller: self.proc.interrupt(…)
      .call (.spawn (.tmStart seq now)) fun rp => match rp with -- self.proc = self.env.process(self.run(self.env))
        | .ev p' => storeVal (cTmProc seq) (.ev p') cont
        | rp => bad rp
    | .err _ => cont                        -- `active_process is self.proc` or `not self.proc.is_alive`: nothing more
    | rp => bad rp

/-- `Timer(env, timeout=tmo, timeout_callback=self.timeout_callback, args=seq)` at instant `now` -/
def mkTimer (now : τ) (seq : Nat) (tmo : τ) (cont : B τ) : B τ :=
  if tmo ≤ Num.zero then .raise valErr else                     -- if timeout <= 0: raise ValueError
  storeTime (cTmTimeout seq) tmo <|                             -- self.timeout = timeout
  storeTime (cTmStart seq) now <|                               -- self.start_time = self.env.now
  storeTime (cTmExpire seq) (now + tmo) <|                      -- self.expire_time = self.start_time + timeout
  storeNat (cTmStopped seq) 0 <|                                -- self.stopped = False
  .call (.spawn (.tmStart seq now)) fun rp => match rp with     -- self.proc = env.process(self.run(env))
    | .ev p => storeVal (cTmProc seq) (.ev p) cont
    | rp => bad rp

/-- `while env.now < self.expire_time: yield self.env.timeout(self.expire_time - env.now)` at instant `now` -/
def tmLoop (seq : Nat) (now : τ) : B τ :=
  loadTime (cTmExpire seq) fun e =>
  if now < e then
    .call (.timeout (e - now) .none) fun rp => match rp with
      | .ev t => .yield t (.tmSleep seq (now + (e - now)))
      | rp => bad rp
  else .ret .none

/-! ## `resend_packet`, `timeout_callback` -/

/-- `resend_packet(seqno)` at instant `now` -/
def sndResend (now : τ) (seq : Nat) (cont : B τ) : B τ :=
  loadOptTime (cSent seq) fun st => match st with
    | none => cont                                              -- if seqno not in self.sent_packets: return
    | some _ =>
      storeTime (cSent seq) now <|                              -- resent_pkt.time = self.env.now
      .call (.log "tx" (.int seq)) fun _ => cont                -- self.out.put(resent_pkt)

/-- `timeout_callback(packet_id)` at instant `now` -/
def sndTimeout (cfg : Cfg) (now : τ) (seq : Nat) (cont : B τ) : B τ :=
  ccCall (CC.timerExpired cfg.kind) <|                          -- self.congestion_control.timer_expired()
  sndResend now seq <|                                          -- self.resend_packet(packet_id)
  estCall TCPPacketGenerator.timeout_backoff <|                 -- self.rto *= 2
  loadFlag (cTmIn seq) fun present =>                           -- self.timers[packet_id]
  if present then loadTime cRto fun rto => tmRestart now seq rto cont        -- .restart(self.rto)
  else .raise keyErr

/-- `Timer.run` of segment `seq` after the sleep, at instant `now` (`auto_restart` is `False`) -/
def tmWake (cfg : Cfg) (seq : Nat) (now : τ) : B τ :=
  loadNat (cTmStopped seq) fun st =>
  if st = 0 then sndTimeout cfg now seq (tmLoop seq now)        -- if not self.stopped: self.timeout_callback(*self.args)
  else tmLoop seq now

/-! ## `put(ack)` -/

/-- duplicate-ACK counting; `cont` gets the new `self.dupack` -/
def sndCountDup (ackno lack dup : Nat) (cont : Nat → B τ) : B τ :=
  if ackno = lack then storeNat cDup (dup + 1) (cont (dup + 1))                -- self.dupack += 1
  else if dup > 0 then
    (if dup ≥ 3 then ccCall CongestionControl.dupack_over (storeNat cDup 0 (cont 0))   -- dupack_over(); self.dupack = 0
     else storeNat cDup 0 (cont 0))
  else cont dup

/-- `for seq in [s for s in self.timers if s < ackno or s == ack.packet_id]: stop; del; del` over the `n` candidate keys
`seq, seq + mss, …` -/
def sndCancel (mss : Nat) (now : τ) (ackno pid : Nat) : Nat → Nat → B τ → B τ
  | 0, _, cont => cont
  | n + 1, seq, cont =>
    loadFlag (cTmIn seq) fun present =>
    if present && (decide (seq < ackno) || seq == pid) then
      tmStop now seq <|                                         -- self.timers[seq].stop()
      storeVal (cTmIn seq) .none <|                             -- del self.timers[seq]
      loadOptTime (cSent seq) fun st => match st with           -- del self.sent_packets[seq]
        | none => .raise keyErr
        | some _ => storeVal (cSent seq) .none <| sndCancel mss now ackno pid n (seq + mss) cont
    else sndCancel mss now ackno pid n (seq + mss) cont

/-- the `if self.dupack == 0:` block -/
def sndNewAck (cfg : Cfg) (now : τ) (a : AckIn τ) (cont : B τ) : B τ :=
  estCall (fun e => TCPPacketGenerator.put_estimator e now a.ptime) <|          -- sample_rtt … self.rto = …
  storeNat cLack a.ackno <|                                                     -- self.last_ack = ackno
  loadCC fun c =>
  if CC.ackReceivedSafe cfg.kind c (TCPPacketGenerator.put_sample_rtt now a.ptime) now then
    storeCC (CC.ackReceived cfg.kind c (TCPPacketGenerator.put_sample_rtt now a.ptime) now) <|   -- cc.ack_received(sample_rtt, now)
    loadNat cNext fun nx =>
    sndCancel cfg.mss now a.ackno a.pid (nx / cfg.mss) 0 <|
    storeTime cPutAt now <|                                                     --   (ghost: the instant of this put)
    .call (.sput tokStore 1) fun rp => match rp with                            -- self.cwnd_avaialbe.put(True)
      | .ev _ => cont
      | rp => bad rp
  else .raise zeroDivErr

/-- `TCPPacketGenerator.put(ack)` at instant `now`, followed by `cont` -/
def sndPut (cfg : Cfg) (now : τ) (a : AckIn τ) (cont : B τ) : B τ :=
  if a.fid < 10000 then .raise assertErr else                                   -- assert ack.flow_id >= 10000
  loadNat cLack fun lack =>
  if a.ackno < lack then cont else                                              -- if ackno < self.last_ack: return
  loadNat cDup fun dup =>
  sndCountDup a.ackno lack dup fun dup' =>
  if dup' = 3 then
    ccCall CongestionControl.consecutive_dupacks_received <|                    -- consecutive_dupacks_received()
    sndResend now a.ackno cont                                                  -- self.resend_packet(ackno); return
  else if dup' > 3 then
    ccCall CongestionControl.more_dupacks_received <|                           -- more_dupacks_received()
    loadTime cCwnd fun cwnd =>
    if (Num.ofNat a.ackno : τ) ≤ Num.ofNat lack + cwnd then sndResend now a.ackno cont    -- if last_ack + cwnd >= ackno: resend
    else cont
  else if dup' = 0 then sndNewAck cfg now a cont
  else cont

/-! ## `run` -/

/-- the amount by which the application refills the send buffer -/
def pktSize (cfg : Cfg) (nx : Nat) : Nat := if cfg.size != 0 then min cfg.mss (cfg.size - nx) else cfg.mss

/-- `while self.next_seq >= self.send_buffer: self.send_buffer += packet_size`; `cont` gets the new `send_buffer` -/
def sndRefill (cfg : Cfg) (nx : Nat) : Nat → Nat → (Nat → B τ) → B τ
  | 0, _, _ => .raise hangErr
  | n + 1, sb, cont =>
    if nx ≥ sb then storeNat cBuf (sb + pktSize cfg nx) (sndRefill cfg nx n (sb + pktSize cfg nx) cont)
    else cont sb

/-- `yield self.cwnd_avaialbe.get()` at instant `now` -/
def sndWait (now : τ) : B τ :=
  .call (.sget tokStore 0) fun rp => match rp with
    | .ev g => .yield g (.runGet now)
    | rp => bad rp

/-- the `while env.now < self.flow.finish_time:` loop of `run` at instant `now` -/
def sndRun (cfg : Cfg) (now : τ) : Nat → B τ
  | 0 => .raise hangErr
  | n + 1 =>
    loadNat cNext fun nx =>
    if cfg.size != 0 && decide (nx ≥ cfg.size) then .ret .none      -- if self.flow.size and self.next_seq >= self.flow.size: return
    else
      loadNat cBuf fun sb0 =>
      sndRefill cfg nx (nx + 2) sb0 fun sb =>
      loadNat cLack fun lack => loadTime cCwnd fun cwnd =>
      if TCPPacketGenerator.run_send_guard (Num.ofNat nx : τ) (Num.ofNat cfg.mss) (Num.ofNat sb) (Num.ofNat lack) cwnd then
        storeTime (cSent nx) now <|                             -- self.sent_packets[packet.packet_id] = packet  (time=env.now)
        .call (.log "tx" (.int nx)) fun _ =>                    -- self.out.put(packet)
        storeNat cNext (nx + cfg.mss) <|                        -- self.next_seq += packet.size
        loadTime cRto fun rto =>
        mkTimer now nx rto <|                                   -- Timer(env, timeout=self.rto, …, args=packet.packet_id)
        storeNat (cTmIn nx) 1 <|                                -- self.timers[packet.packet_id] = …
        sndRun cfg now n
      else sndWait now                                          -- yield self.cwnd_avaialbe.get()

/-! ## the network script -/

/-- the script loop from its head at instant `now` -/
def scrLoop (now : τ) : List (τ × AckIn τ) → B τ
  | [] => .ret .none
  | (gap, a) :: rest => .call (.timeout gap .none) fun rp => match rp with
      | .ev e => .yield e (.scr (now + gap) (some a) rest)
      | rp => bad rp

/-- the generator functions as one `K` program -/
def body (cfg : Cfg) : SnSt τ → Resume → B τ
  | .scr now pending rest, _ =>
    match pending with
    | none => scrLoop now rest
    | some a => sndPut cfg now a (scrLoop now rest)
  | .runStart now, _ => sndRun cfg now (cfg.size + 2)
  | .runGet t0, _ => loadTime cPutAt fun tp => sndRun cfg (Num.pymax t0 tp) (cfg.size + 2)
  | .tmStart _ _, .exc x => .raise x            -- an `Interrupt` thrown into a generator that has not started kills it
  | .tmStart seq now, _ => tmLoop seq now
  | .tmSleep _ _, .exc x => if x.ty = "Interrupt" then .ret .none else .raise x      -- except Interrupt: pass
  | .tmSleep seq now, _ => tmWake cfg seq now

/-- event ids of the two processes that exist from the start -/
def runProc : EvId := 0
def scrProc : EvId := 2

def storeRes : ResRec := { kind := .store, capacity := none }

def flagVal (b : Bool) : Val := .int (if b then 1 else 0)

/-- the cells of a congestion-control object -/
def ccCells (c : CCState τ) : List (Nat × Val) :=
  [(cCC 0, TimeCell.enc c.mss), (cCC 1, TimeCell.enc c.cwnd), (cCC 2, TimeCell.enc c.ssthresh),
   (cCC 3, TimeCell.enc c.W_last_max), (cCC 4, TimeCell.enc c.epoch_start), (cCC 5, TimeCell.enc c.origin_point),
   (cCC 6, TimeCell.enc c.d_min), (cCC 7, TimeCell.enc c.W_tcp), (cCC 8, TimeCell.enc c.K), (cCC 9, TimeCell.enc c.ack_cnt),
   (cCC 10, flagVal c.tcp_friendliness), (cCC 11, flagVal c.fast_convergence), (cCC 12, TimeCell.enc c.beta),
   (cCC 13, TimeCell.enc c.C), (cCC 14, TimeCell.enc c.cwnd_cnt), (cCC 15, TimeCell.enc c.cnt)]

/-- the estimator a fresh generator starts with: `est_deviation = 0`, `rto` by the generated `init_rto` -/
def est0 (rtt : τ) : RttEst τ :=
  TCPPacketGenerator.init_rto { rtt_estimate := rtt, est_deviation := Num.ofNat 0, rto := Num.ofNat 0 }

/-- a fresh environment at instant 0 after `TCPPacketGenerator(env, flow, cc, rtt_estimate=rtt)` (the attributes, the
wake-up store, `self.action = env.process(self.run(env))`) and `env.process(script(...))` -/
def initState (cc : CCState τ) (rtt : τ) (script : List (τ × AckIn τ)) : KState τ (SnSt τ) :=
  [Call.spawn (SnSt.runStart Num.zero), Call.spawn (SnSt.scr Num.zero none script)].foldl (fun s c => (doCall s 0 c).1)
    { now := Num.zero, resources := #[storeRes],
      shared := [(cNext, .int 0), (cBuf, .int 0), (cLack, .int 0), (cDup, .int 0),
                 (cRtt, TimeCell.enc (est0 rtt).rtt_estimate), (cDev, TimeCell.enc (est0 rtt).est_deviation),
                 (cRto, TimeCell.enc (est0 rtt).rto)] ++ ccCells cc ++ [(cPutAt, TimeCell.enc (Num.zero : τ))] }

/-! ## observations -/

/-- a `tx` observation: `(seq, env.now)` -/
def txOf1 : Obs τ → Option (Nat × τ)
  | .log _ w (.int seq) now => if w = "tx" then some (seq.toNat, now) else none
  | _ => none

/-- the packets handed to `out.put`, in order -/
def txsOf (tr : Array (Obs τ)) : List (Nat × τ) := tr.toList.filterMap txOf1

/-- what the LTS says about a transmission, in the form of a `tx` observation -/
def txPair (x : Tx τ) : Nat × τ := (x.seq, x.stamp)

/-! ## the abstraction function -/

/-- value of an attribute cell -/
def cellVal (s : KState τ (SnSt τ)) (k : Nat) : Val := ((s.shared.find? (·.1 == k)).map (·.2)).getD Val.none

def cellNat (s : KState τ (SnSt τ)) (k : Nat) : Nat :=
  match cellVal s k with
  | .int n => n.toNat
  | _ => 0

def cellTime (s : KState τ (SnSt τ)) (k : Nat) : τ := (TimeCell.dec (cellVal s k)).getD Num.zero

def cellFlag (s : KState τ (SnSt τ)) (k : Nat) : Bool :=
  match cellVal s k with
  | .int n => n != 0
  | _ => false

def cellOptTime (s : KState τ (SnSt τ)) (k : Nat) : Option τ :=
  match cellVal s k with
  | .none => none
  | v => TimeCell.dec v

/-- the congestion-control object in the cells -/
def absCC (s : KState τ (SnSt τ)) : CCState τ :=
  { mss := cellTime s (cCC 0), cwnd := cellTime s (cCC 1), ssthresh := cellTime s (cCC 2), W_last_max := cellTime s (cCC 3),
    epoch_start := cellTime s (cCC 4), origin_point := cellTime s (cCC 5), d_min := cellTime s (cCC 6),
    W_tcp := cellTime s (cCC 7), K := cellTime s (cCC 8), ack_cnt := cellTime s (cCC 9),
    tcp_friendliness := cellFlag s (cCC 10), fast_convergence := cellFlag s (cCC 11), beta := cellTime s (cCC 12),
    C := cellTime s (cCC 13), cwnd_cnt := cellTime s (cCC 14), cnt := cellTime s (cCC 15) }

/-- the instant at which the process `p` of a timer resumes next (`none`: it has ended) -/
def tmResumeAt (s : KState τ (SnSt τ)) (p : EvId) : Option τ :=
  if (s.ev p).out.isSome then none else
  match s.proc? p with
  | some { st := .tmSleep _ w, .. } => some w
  | some { st := .tmStart _ t, .. } => some t
  | _ => none

/-- the LTS record of the timer of `seq`: its expiry is the attribute `expire_time`; it wakes where the sleeping loop of
its process ends (`Sender.wakeAt` from the instant of its next resumption); it is live while its process has not ended -/
def absTimerRec (s : KState τ (SnSt τ)) (seq : Nat) : TimerRec τ :=
  let e := cellTime s (cTmExpire seq)
  let p := match cellVal s (cTmProc seq) with | .ev p => p | _ => 0
  match tmResumeAt s p with
  | some t => { expiry := e, wake := Sender.wakeAt 8 t e, live := true }
  | none => { expiry := e, wake := e, live := false }

/-- the candidate keys `0, mss, …` below `next` -/
def segKeys (mss next : Nat) : List Nat := (List.range (next / mss)).map (· * mss)

/-- where the `run` process is -/
def absProc (s : KState τ (SnSt τ)) : Proc :=
  if (s.ev runProc).out.isSome then .finished else
  match s.proc? runProc with
  | some { st := .runGet _, target := some g } => if (s.ev g).out.isSome then .runnable else .blocked
  | _ => .runnable

/-- **abstraction function**: the state of the sender LTS a kernel state of this program stands for, read off the
attribute cells, the wake-up store, the process records and the event table -/
def absSender (cfg : Cfg) (s : KState τ (SnSt τ)) : Sender τ :=
  let next := cellNat s cNext
  { kind := cfg.kind
    cc := absCC s
    est := { rtt_estimate := cellTime s cRtt, est_deviation := cellTime s cDev, rto := cellTime s cRto }
    mss := cfg.mss
    size := some cfg.size
    next_seq := next
    send_buffer := cellNat s cBuf
    last_ack := cellNat s cLack
    dupack := cellNat s cDup
    timers := (segKeys cfg.mss next).filterMap fun seq => if cellFlag s (cTmIn seq) then some (seq, absTimerRec s seq) else none
    sent := (segKeys cfg.mss next).filterMap fun seq => (cellOptTime s (cSent seq)).map fun t => (seq, t)
    tokens := (s.res tokStore).items.length
    proc := absProc s
    now := s.now }

/-- the state after the step budget ran out or `run()` returned (no exception) -/
def lastState (r : RunResult τ (SnSt τ)) : Option (KState τ (SnSt τ)) :=
  match r with
  | .returned _ s => some s
  | .outOfFuel s => some s
  | .raised _ _ => none

/-! ## running the LTS, label inference and an executable refinement check (used by the `example`s of `Props/C16K.lean`)

`Props/C16K.lean` proves that every kernel step is an action sequence the LTS accepts between the abstractions of the two
states.  The functions below *compute* such a sequence from the kernel state (as `harness/tcpsim.py` does from taps and
public attributes of the real sender) and replay it through the LTS, so that concrete runs can be checked by evaluation. -/

/-- run an action sequence through the sender LTS, collecting the transmissions -/
def runLts : Sender τ → List (Act τ) → Res τ
  | s, [] => .ok s []
  | s, a :: as =>
    match s.step a with
    | .ok s' o =>
      (match runLts s' as with
       | .ok s'' o' => .ok s'' (o ++ o')
       | r => r)
    | r => r

/-- the fuel of the LTS action `wake` that matches the unrolling of `run` in this program -/
def wakeFuel (cfg : Cfg) : Nat := cfg.size + 2

/-- the LTS action of the callback `cb` of the event that the next kernel step processes -/
def actOfCb (cfg : Cfg) (s : KState τ (SnSt τ)) : Cb → List (Act τ)
  | .resume p =>
    match s.proc? p with
    | some { st := .runStart _, .. } => [.wake (wakeFuel cfg)]
    | some { st := .runGet _, .. } => [.wake (wakeFuel cfg)]
    | some { st := .tmSleep seq _, .. } => if cellNat s (cTmStopped seq) = 0 then [.fire seq] else []
    | some { st := .scr _ (some a) _, .. } => [.ack a]
    | _ => []
  | .trigGet _ => if absProc s = .blocked ∧ (s.res tokStore).items.length > 0 then [.handoff] else []
  | _ => []

/-- the LTS actions of the next kernel step: the clock moves to the instant of the entry that is popped, then the burst
of the event's callback -/
def inferActs (cfg : Cfg) (s : KState τ (SnSt τ)) : List (Act τ) :=
  match popMin s.agenda with
  | none => []
  | some (q, _) =>
    (if s.now < q.time then [Act.tick q.time] else []) ++
    (match (s.ev q.ev).cbs with
     | some cbs => cbs.flatMap (actOfCb cfg s)
     | none => [])

def sameCC (a b : CCState τ) : Bool :=
  Num.eqb a.mss b.mss && Num.eqb a.cwnd b.cwnd && Num.eqb a.ssthresh b.ssthresh && Num.eqb a.W_last_max b.W_last_max &&
  Num.eqb a.epoch_start b.epoch_start && Num.eqb a.origin_point b.origin_point && Num.eqb a.d_min b.d_min &&
  Num.eqb a.W_tcp b.W_tcp && Num.eqb a.K b.K && Num.eqb a.ack_cnt b.ack_cnt && (a.tcp_friendliness == b.tcp_friendliness) &&
  (a.fast_convergence == b.fast_convergence) && Num.eqb a.beta b.beta && Num.eqb a.C b.C && Num.eqb a.cwnd_cnt b.cwnd_cnt &&
  Num.eqb a.cnt b.cnt

def sameList {β : Type} (f : β → β → Bool) : List β → List β → Bool
  | [], [] => true
  | x :: xs, y :: ys => f x y && sameList f xs ys
  | _, _ => false

def sameTimer (a b : Nat × TimerRec τ) : Bool :=
  a.1 == b.1 && Num.eqb a.2.expiry b.2.expiry && Num.eqb a.2.wake b.2.wake && (a.2.live == b.2.live)

/-- equality of LTS states, field by field -/
def sameSender (a b : Sender τ) : Bool :=
  decide (a.kind = b.kind) && sameCC a.cc b.cc && Num.eqb a.est.rtt_estimate b.est.rtt_estimate &&
  Num.eqb a.est.est_deviation b.est.est_deviation && Num.eqb a.est.rto b.est.rto && a.mss == b.mss && a.size == b.size &&
  a.next_seq == b.next_seq && a.send_buffer == b.send_buffer && a.last_ack == b.last_ack && a.dupack == b.dupack &&
  sameList sameTimer a.timers b.timers && sameList (fun x y => x.1 == y.1 && Num.eqb x.2 y.2) a.sent b.sent &&
  a.tokens == b.tokens && decide (a.proc = b.proc) && Num.eqb a.now b.now

/-- run the kernel model for at most `n` steps from `s`; before every step infer its LTS actions, replay them through the LTS
from `absSender` of the state before and compare the result with `absSender` of the state after, and the transmissions the
LTS outputs with the `tx` observations the step appended.  `some k`: the agenda ran empty after `k` steps and every step was
accepted and commuted; `none`: a step crashed, was rejected, did not commute, or the budget ran out -/
def refineCheck (cfg : Cfg) : Nat → KState τ (SnSt τ) → Nat → Option Nat
  | 0, _, _ => none
  | n + 1, s, k =>
    match step (body cfg) 1 s with
    | .ok s' =>
      match runLts (absSender cfg s) (inferActs cfg s) with
      | .ok m outs =>
        if sameSender m (absSender cfg s') &&
            sameList (fun x y => x.1 == y.1 && Num.eqb x.2 y.2) (outs.map txPair) ((txsOf s'.trace).drop (txsOf s.trace).length)
        then refineCheck cfg n s' (k + 1) else none
      | _ => none
    | .empty => some k
    | _ => none

end SenderOnK
