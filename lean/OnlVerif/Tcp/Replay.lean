import OnlVerif.Tcp.Sink
import OnlVerif.Tcp.CC
/-!
# Replaying TCP cases through the models (line protocol, `Float` scalars)

`driver tcpsink`:
```
CASE <id>
P <seq> <size>            -- a segment arrives at the sink
END
```
answer per `P`: `A <ack> B <start>:<end>,…` (or `A X IndexError`).

`driver tcpsender`:
```
CASE <id>
INIT <reno|cubic> <mss> <size|none> <now>
CC <mss> <cwnd> <ssthresh> <W_last_max> <epoch_start> <origin_point> <d_min> <W_tcp> <K> <ack_cnt> <tf 0|1> <fc 0|1> <beta> <C> <cwnd_cnt> <cnt>
EST <rtt_estimate> <est_deviation> <rto>
W <now>                               -- the `run` process was resumed
H <now>                               -- the kernel handed a wake-up token to the waiting `get()`
A <now> <flow_id> <ackno> <packet_id> <ack.time>
F <now> <seq>                         -- the retransmission timer of `seq` fired
T <now>                               -- the clock reached `now` (quiescence check)
END
```
Scalars are decimal IEEE-754 bit patterns.  Before an event stamped `t ≠ now` the model performs `tick t`.
Answer per event: `R <tag> ok tx=[n|r:<seq>@<stamp>,…]` followed by the snapshot line `S …`, or
`R <tag> X <exception>` / `R <tag> REJECT <why>`, after which the rest of the case is skipped.
-/

namespace TcpReplay

def fmtRanges (b : List TcpSink.Range) : String :=
  ",".intercalate (b.map fun r => s!"{r.1}:{r.2}")

def fmtTx (outs : List (Tx Float)) : String :=
  "[" ++ ",".intercalate (outs.map fun o =>
    (match o.kind with | .new => "n" | .resend => "r") ++ s!":{o.seq}/{o.size}@{o.stamp.bitsStr}") ++ "]"

def fmtProc : Proc → String
  | .runnable => "R" | .blocked => "B" | .finished => "F"

def b2s (b : Bool) : String := if b then "1" else "0"

def fmtSnap (s : Sender Float) : String :=
  let c := s.cc
  let e := s.est
  s!"S cwnd={c.cwnd.bitsStr} ssthresh={c.ssthresh.bitsStr} rto={e.rto.bitsStr} srtt={e.rtt_estimate.bitsStr} " ++
  s!"dev={e.est_deviation.bitsStr} nseq={s.next_seq} buf={s.send_buffer} lack={s.last_ack} dup={s.dupack} " ++
  "timers=[" ++ ",".intercalate (s.timers.map fun kv => s!"{kv.1}@{kv.2.expiry.bitsStr}") ++ "] " ++
  "sent=[" ++ ",".intercalate (s.sent.map fun kv => s!"{kv.1}@{kv.2.bitsStr}") ++ "] " ++
  s!"tok={s.tokens} proc={fmtProc s.proc} " ++
  s!"cubic=[{c.mss.bitsStr} {c.W_last_max.bitsStr} {c.epoch_start.bitsStr} {c.origin_point.bitsStr} {c.d_min.bitsStr} " ++
  s!"{c.W_tcp.bitsStr} {c.K.bitsStr} {c.ack_cnt.bitsStr} {b2s c.tcp_friendliness} {b2s c.fast_convergence} " ++
  s!"{c.beta.bitsStr} {c.C.bitsStr} {c.cwnd_cnt.bitsStr} {c.cnt.bitsStr}]"

structure SCase where
  id : String := ""
  kind : CCKind := .reno
  mss : Nat := 512
  size : Option Nat := none
  now : Float := 0
  st : Option (Sender Float) := none
  cc : Option (CCState Float) := none
  dead : Bool := false

def wakeFuel : Nat := 1000000

def fb (s : String) : Float := Float.ofBitsStr s

def parseCC (ws : List String) : Option (CCState Float) :=
  match ws with
  | [mss, cwnd, ssthresh, wl, es, op, dm, wt, k, ac, tf, fc, beta, c, cc, cnt] =>
    some { mss := fb mss, cwnd := fb cwnd, ssthresh := fb ssthresh, W_last_max := fb wl, epoch_start := fb es,
           origin_point := fb op, d_min := fb dm, W_tcp := fb wt, K := fb k, ack_cnt := fb ac,
           tcp_friendliness := tf == "1", fast_convergence := fc == "1", beta := fb beta, C := fb c,
           cwnd_cnt := fb cc, cnt := fb cnt }
  | _ => none

/-- advance the model clock to `t` if needed -/
def advance (s : Sender Float) (t : Float) : Res Float :=
  if Num.eqb t s.now then .ok s [] else s.step (.tick t)

/-- run one event; prints the answer; returns the new case state -/
def event (c : SCase) (tag : String) (t : Float) (act : Option (Act Float)) : IO SCase := do
  if c.dead then return c
  match c.st with
  | none => IO.println s!"R {tag} REJECT noInit"; return { c with dead := true }
  | some s =>
    match advance s t with
    | .reject why => IO.println s!"R {tag} REJECT tick-{why.name}"; return { c with dead := true }
    | .error e => IO.println s!"R {tag} X {e.name}"; return { c with dead := true }
    | .ok s _ =>
      match act with
      | none =>
        IO.println s!"R {tag} ok tx=[]"; IO.println (fmtSnap s); return { c with st := some s }
      | some a =>
        match s.step a with
        | .reject why => IO.println s!"R {tag} REJECT {why.name}"; return { c with dead := true }
        | .error e => IO.println s!"R {tag} X {e.name}"; return { c with dead := true }
        | .ok s' outs =>
          IO.println s!"R {tag} ok tx={fmtTx outs}"; IO.println (fmtSnap s'); return { c with st := some s' }

partial def senderLoop (h : IO.FS.Stream) (c : SCase) : IO Unit := do
  let line ← h.getLine
  if line.isEmpty then return
  let ws := (line.trimAscii.toString.splitOn " ").filter (· ≠ "")
  match ws with
  | ["CASE", id] => IO.println s!"CASE {id}"; senderLoop h { id }
  | ["INIT", kind, mss, size, now] =>
    senderLoop h { c with kind := if kind == "cubic" then .cubic else .reno, mss := mss.toNat!,
                          size := if size == "none" then none else some size.toNat!, now := fb now }
  | "CC" :: rest =>
    match parseCC rest with
    | some cc => senderLoop h { c with cc := some cc }
    | none => IO.println s!"BADLINE {line}"; senderLoop h c
  | ["EST", srtt, dev, rto] =>
    match c.cc with
    | some cc =>
      let s0 : Sender Float := Sender.init c.kind cc (fb srtt) c.mss c.size c.now
      -- the harness reports the real object's initial estimator; `init` recomputes the RTO with the generated rule
      let s0 := { s0 with est := { s0.est with est_deviation := fb dev } }
      IO.println s!"R I ok tx=[]"; IO.println (fmtSnap s0)
      let _ := rto
      senderLoop h { c with st := some s0 }
    | none => IO.println s!"BADLINE {line}"; senderLoop h c
  | ["W", t] => senderLoop h (← event c "W" (fb t) (some (.wake wakeFuel)))
  | ["H", t] => senderLoop h (← event c "H" (fb t) (some .handoff))
  | ["A", t, fid, ackno, pid, pt] =>
    senderLoop h (← event c "A" (fb t) (some (.ack { fid := fid.toNat!, ackno := ackno.toNat!, pid := pid.toNat!, ptime := fb pt })))
  | ["F", t, seq] => senderLoop h (← event c "F" (fb t) (some (.fire seq.toNat!)))
  | ["T", t] => senderLoop h (← event c "T" (fb t) none)
  | ["END"] => IO.println "ENDCASE"; senderLoop h {}
  | [] => senderLoop h c
  | _ => IO.println s!"BADLINE {line}"; senderLoop h c

partial def sinkLoop (h : IO.FS.Stream) (buf : List TcpSink.Range) : IO Unit := do
  let line ← h.getLine
  if line.isEmpty then return
  let ws := (line.trimAscii.toString.splitOn " ").filter (· ≠ "")
  match ws with
  | ["CASE", id] => IO.println s!"CASE {id}"; sinkLoop h []
  | ["P", seq, size] =>
    let r := TcpSink.put buf seq.toNat! size.toNat!
    let a := match r.2 with | .ok n => toString n | .error _ => "X IndexError"
    IO.println s!"A {a} B {fmtRanges r.1}"
    sinkLoop h r.1
  | ["END"] => IO.println "ENDCASE"; sinkLoop h []
  | [] => sinkLoop h buf
  | _ => IO.println s!"BADLINE {line}"; sinkLoop h buf

end TcpReplay

/-- `driver tcpsink` / `driver tcpsender` -/
partial def tcpLoop (h : IO.FS.Stream) (mode : String := "tcpsender") : IO Unit :=
  if mode == "tcpsink" then TcpReplay.sinkLoop h [] else TcpReplay.senderLoop h {}
