/-!
# TCPSink: the receive buffer and the cumulative ACK (`onl/packet/tcp_sink.py`)

A byte range is `(start, end)` for the half-open interval `[start, end)`; the receive buffer is the Python
list `recv_buffer` of such ranges.  Sequence numbers and sizes are natural numbers.  This file imports nothing.

```python
def packet_arrived(self, packet):
    self.recv_buffer.append([packet.packet_id, packet.packet_id + packet.size])
    self.recv_buffer.sort()
    merge_stats = []
    for start, end in self.recv_buffer:
        if merge_stats and start <= merge_stats[-1][1]:
            merge_stats[-1][1] = max(merge_stats[-1][1], end)
        else:
            merge_stats.append([start, end])
    self.recv_buffer = merge_stats
```
-/

namespace TcpSink

abbrev Range := Nat × Nat

/-- Python's order on two-element lists `[start, end]` (lexicographic), as a Boolean `a ≤ b` -/
def leR (a b : Range) : Bool := a.1 < b.1 || (a.1 == b.1 && a.2 ≤ b.2)

/-- insertion into a list sorted by `leR` -/
def insertR (r : Range) : List Range → List Range
  | [] => [r]
  | x :: xs => if leR r x then r :: x :: xs else x :: insertR r xs

/-- `list.sort()`: the sorted permutation (unique for a total order on values, so the algorithm does not matter) -/
def sortR (l : List Range) : List Range := l.foldr insertR []

/-- the merge loop with `cur = merge_stats[-1]`; ranges before `cur` are final and are emitted -/
def mergeFrom (cur : Range) : List Range → List Range
  | [] => [cur]
  | r :: rest =>
    if r.1 ≤ cur.2 then mergeFrom (cur.1, max cur.2 r.2) rest
    else cur :: mergeFrom r rest

/-- the whole `for` loop over the sorted buffer -/
def mergeAll : List Range → List Range
  | [] => []
  | r :: rest => mergeFrom r rest

/-- `TCPSink.packet_arrived` for a packet with `packet_id = seq` and `size` -/
def packetArrived (buf : List Range) (seq size : Nat) : List Range :=
  mergeAll (sortR (buf ++ [(seq, seq + size)]))

inductive SinkErr where
  | indexError      -- `self.recv_buffer[0]` on an empty buffer
  deriving Repr, DecidableEq

/-- the ACK number computed by `TCPSink.put` after `packet_arrived`:
`recv_buffer[0][1] if recv_buffer[0][0] == 0 else 0` -/
def ackOf : List Range → Except SinkErr Nat
  | [] => .error .indexError
  | r :: _ => .ok (if r.1 == 0 then r.2 else 0)

/-- `TCPSink.put`: new buffer and the `ack` field of the acknowledgement it hands to `out` -/
def put (buf : List Range) (seq size : Nat) : List Range × Except SinkErr Nat :=
  let buf' := packetArrived buf seq size
  (buf', ackOf buf')

/-- the buffers after each arrival of a sequence of `(seq, size)` arrivals -/
def buffers (buf : List Range) : List (Nat × Nat) → List (List Range)
  | [] => []
  | (seq, size) :: rest => (put buf seq size).1 :: buffers (put buf seq size).1 rest

/-- the ACKs returned for each arrival of a sequence of `(seq, size)` arrivals -/
def acks (buf : List Range) : List (Nat × Nat) → List (Except SinkErr Nat)
  | [] => []
  | (seq, size) :: rest => (put buf seq size).2 :: acks (put buf seq size).1 rest

end TcpSink
