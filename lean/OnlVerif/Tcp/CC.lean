import OnlVerif.Generated.TcpCC
/-!
# The TCP sender (`onl/packet/tcp_generator.py`): congestion control dispatch and `TCPPacketGenerator` as an LTS

The congestion-control methods (`CongestionControl.*`, `TCPReno.ack_received`, `TCPCubic.*`), the RTT estimator
block of `put`, the RTO back-off of `timeout_callback` and the send guard of `run` are **generated** from the
source (`OnlVerif/Generated/TcpCC.lean`); this file adds, by hand, what is not in the translator's subset:

* the dispatch on the class of the congestion-control object (`CCKind`);
* `TCPPacketGenerator.put` (the early return on an overtaken ACK, duplicate-ACK counting, which timers are stopped, fast
  retransmit, wake-up token),
  `timeout_callback`, `resend_packet`, and one iteration of the sending loop of `run` (`sendStep`);
* the per-segment retransmission timers as a finite map `seq ↦ (expiry, wake)` with the semantics that C19 proves
  for `Timer`: a timer fires at its expiry unless stopped (= removed) first; `restart(τ)` from its own callback
  re-arms it at `now + τ`;
* the sender LTS `step : Sender α → Act α → Res α` with the atomic bursts `wake` (the `run` process is resumed and
  sends while the guard holds, until its next `yield`), `handoff` (the kernel hands a wake-up token to the waiting
  `get`), `ack`, `fire seq`, `tick t`.

A Python exception is `Res.error`; an action the kernel would never offer in that state is `Res.reject`.
Scalars are `α` (`Float` in the driver, `ℚ` in the theorems); sequence numbers, counters and sizes are `Nat`.
Assumed and stated in the evidence: `flow.finish_time = ∞`, `flow.start_time`, `arrival_dist`, `size_dist` unset,
`out` attached.
-/

inductive CCKind where
  | reno | cubic
  deriving Repr, DecidableEq, Inhabited

/-- Python exceptions that the modelled code can raise -/
inductive PyErr where
  | assertion        -- `assert ack.flow_id >= 10000`
  | keyError         -- `self.timers[k]`, `del self.sent_packets[k]` on a missing key
  | valueError       -- `Timer(timeout <= 0)`
  | partialOp        -- `ZeroDivisionError`, or a power outside exact arithmetic (a generated `.safe` is false)
  deriving Repr, DecidableEq, Inhabited

namespace PyErr
def name : PyErr → String
  | assertion => "AssertionError" | keyError => "KeyError" | valueError => "ValueError" | partialOp => "PartialOp"
end PyErr

/-! ## dispatch on the congestion-control class -/
namespace CC
variable {α : Type} [NumX α]

/-- `cc.ack_received(rtt, now)` -/
def ackReceived : CCKind → CCState α → α → α → CCState α
  | .reno, s, rtt, now => TCPReno.ack_received s rtt now
  | .cubic, s, rtt, now => TCPCubic.ack_received s rtt now

def ackReceivedSafe : CCKind → CCState α → α → α → Bool
  | .reno, s, rtt, now => TCPReno.ack_received.safe s rtt now
  | .cubic, s, rtt, now => TCPCubic.ack_received.safe s rtt now

/-- `cc.timer_expired()` (overridden by `TCPCubic`) -/
def timerExpired : CCKind → CCState α → CCState α
  | .reno, s => CongestionControl.timer_expired s
  | .cubic, s => TCPCubic.timer_expired s

end CC

/-! ## insertion-ordered finite maps with `Nat` keys (Python `dict`) -/
namespace AL
variable {β : Type}

def get? (k : Nat) : List (Nat × β) → Option β
  | [] => none
  | (k', v) :: rest => if k' = k then some v else get? k rest

/-- `d[k] = v`: replace in place, else append -/
def set (k : Nat) (v : β) : List (Nat × β) → List (Nat × β)
  | [] => [(k, v)]
  | (k', v') :: rest => if k' = k then (k, v) :: rest else (k', v') :: set k v rest

/-- `del d[k]` (on a present key) -/
def del (k : Nat) : List (Nat × β) → List (Nat × β)
  | [] => []
  | (k', v') :: rest => if k' = k then rest else (k', v') :: del k rest

def keys (l : List (Nat × β)) : List Nat := l.map (·.1)

end AL

/-! ## state -/

/-- a pending `Timer`: `expiry = expire_time`; `wake` is the instant at which the timer process leaves its sleeping
loop and runs the callback (`Sender.wakeAt`; equal to `expiry` in exact arithmetic) -/
structure TimerRec (α : Type) where
  expiry : α
  wake : α
  /-- `false` iff the sleeping loop was never entered (`expire_time ≤ now` when armed - in floating point, a timeout
  below the resolution of the clock): such a timer never fires.  Always `true` in exact arithmetic for `τ > 0`. -/
  live : Bool

/-- the `run` process -/
inductive Proc where
  | runnable     -- a resumption is scheduled at the current instant (start, or a wake-up token was handed over)
  | blocked      -- waiting in `yield self.cwnd_avaialbe.get()` on an empty store
  | finished     -- `run` returned
  deriving Repr, DecidableEq, Inhabited

inductive TxKind where
  | new | resend
  deriving Repr, DecidableEq

/-- a packet handed to `out.put` -/
structure Tx (α : Type) where
  seq : Nat
  size : Nat
  stamp : α
  kind : TxKind

structure Sender (α : Type) where
  kind : CCKind
  cc : CCState α
  est : RttEst α
  /-- `TCPPacketGenerator.mss` (the generator's own constant, 512; distinct from `cc.mss`) -/
  mss : Nat
  /-- `flow.size` (`none`: unbounded) -/
  size : Option Nat
  next_seq : Nat
  send_buffer : Nat
  last_ack : Nat
  dupack : Nat
  /-- `self.timers` -/
  timers : List (Nat × TimerRec α)
  /-- `self.sent_packets`: `packet.time` of each in-flight segment -/
  sent : List (Nat × α)
  /-- `len(self.cwnd_avaialbe.items)` -/
  tokens : Nat
  proc : Proc
  now : α

inductive Reject where
  | notRunnable | noTimer | notDue | clockBack | wakePending | handoffPending | noHandoff | timerOverdue | fromFuture | fuel
  deriving Repr, DecidableEq

namespace Reject
def name : Reject → String
  | notRunnable => "notRunnable" | noTimer => "noTimer" | notDue => "notDue" | clockBack => "clockBack"
  | wakePending => "wakePending" | handoffPending => "handoffPending" | noHandoff => "noHandoff" | timerOverdue => "timerOverdue" | fromFuture => "fromFuture" | fuel => "fuel"
end Reject

inductive Res (α : Type) where
  | ok (s : Sender α) (outs : List (Tx α))
  | reject (why : Reject)
  | error (e : PyErr)

/-- an acknowledgement as `put` sees it: `ack.flow_id, ack.ack, ack.packet_id, ack.time` -/
structure AckIn (α : Type) where
  fid : Nat
  ackno : Nat
  pid : Nat
  ptime : α

inductive Act (α : Type) where
  | wake (fuel : Nat)
  | handoff
  | ack (a : AckIn α)
  | fire (seq : Nat)
  | tick (t : α)

namespace Sender
variable {α : Type} [NumX α]

/-- a freshly constructed generator (`__init__`) around a congestion-control object; the initial RTO is the
generated `init_rto` -/
def init (kind : CCKind) (cc : CCState α) (rtt_estimate : α) (mss : Nat) (size : Option Nat) (now : α) : Sender α :=
  { kind, cc, mss, size, now,
    est := TCPPacketGenerator.init_rto { rtt_estimate, est_deviation := Num.ofNat 0, rto := Num.ofNat 0 },
    next_seq := 0, send_buffer := 0, last_ack := 0, dupack := 0, timers := [], sent := [], tokens := 0,
    proc := .runnable }

/-! ### the sending loop of `run` -/

/-- `if self.flow.size and self.next_seq >= self.flow.size: return` -/
def flowDone (s : Sender α) : Bool :=
  match s.size with
  | some sz => sz != 0 && s.next_seq ≥ sz
  | none => false

/-- the amount by which the application refills the send buffer -/
def pktSize (s : Sender α) : Nat :=
  match s.size with
  | some sz => if sz != 0 then min s.mss (sz - s.next_seq) else s.mss
  | none => s.mss

/-- `while self.next_seq >= self.send_buffer: self.send_buffer += packet_size`.  The body runs at most once:
`next_seq ≤ send_buffer` is an invariant (`TcpSender.inv_step`) and `packet_size > 0` here. -/
def refill (s : Sender α) : Sender α :=
  if s.next_seq ≥ s.send_buffer then { s with send_buffer := s.send_buffer + s.pktSize } else s

/-- the generated send guard at the sender's current numbers -/
def guard (s : Sender α) : Bool :=
  TCPPacketGenerator.run_send_guard (Num.ofNat s.next_seq : α) (Num.ofNat s.mss) (Num.ofNat s.send_buffer)
    (Num.ofNat s.last_ack) s.cc.cwnd

/-- `Timer.run`: `while env.now < self.expire_time: yield env.timeout(self.expire_time - env.now)`.  Started at
instant `t` the process sleeps until `t + (e - t)`; in floating point that can fall short of `e`, in which case it
sleeps again (silently).  `wakeAt n t e` is the instant at which the loop is left and the callback runs; in exact
arithmetic it is `e` (lemma `TcpSender.wakeAt_eq`). -/
def wakeAt : Nat → α → α → α
  | 0, t, _ => t
  | n + 1, t, e => if t < e then wakeAt n (t + (e - t)) e else t

/-- arming a timer at `now` for `τ` (constructor, or `restart(τ)` from the timer's own callback) -/
def arm (now τ : α) : TimerRec α :=
  { expiry := now + τ, wake := wakeAt 8 now (now + τ), live := decide (now < now + τ) }

/-- the body of the sending `if`: record the packet, hand it to `out`, advance `next_seq`, start its `Timer`
(`ValueError` for a non-positive RTO) -/
def emit (s : Sender α) : Except PyErr (Sender α × Tx α) :=
  let tx : Tx α := { seq := s.next_seq, size := s.mss, stamp := s.now, kind := .new }
  if s.est.rto ≤ Num.zero then .error .valueError
  else .ok ({ s with sent := AL.set s.next_seq s.now s.sent,
                      next_seq := s.next_seq + s.mss,
                      timers := AL.set s.next_seq (arm s.now s.est.rto) s.timers }, tx)

/-- `yield self.cwnd_avaialbe.get()`: with a token in the store the process is resumed again in this instant -/
def getToken (s : Sender α) : Sender α :=
  if s.tokens > 0 then { s with tokens := s.tokens - 1, proc := .runnable } else { s with proc := .blocked }

inductive Iter (α : Type) where
  | sent (s : Sender α) (tx : Tx α)
  | yielded (s : Sender α)
  | done (s : Sender α)
  | error (e : PyErr)

/-- one iteration of `while env.now < self.flow.finish_time:` -/
def sendStep (s : Sender α) : Iter α :=
  if s.flowDone then .done { s with proc := .finished }
  else
    let s := s.refill
    if s.guard then
      match s.emit with
      | .ok (s', tx) => .sent s' tx
      | .error e => .error e
    else .yielded s.getToken

/-- a resumption of `run`: iterate until the process yields or returns -/
def runLoop : Nat → Sender α → List (Tx α) → Res α
  | 0, _, _ => .reject .fuel
  | n + 1, s, outs =>
    match s.sendStep with
    | .sent s' tx => runLoop n s' (outs ++ [tx])
    | .yielded s' => .ok s' outs
    | .done s' => .ok s' outs
    | .error e => .error e

def wakeStep (s : Sender α) (fuel : Nat) : Res α :=
  if s.proc = .runnable then runLoop fuel s [] else .reject .notRunnable

/-! ### `resend_packet` -/

/-- `resend_packet(seqno)`: nothing if no such segment is outstanding, else restamp and hand to `out` -/
def resend (s : Sender α) (seq : Nat) : Sender α × List (Tx α) :=
  match AL.get? seq s.sent with
  | none => (s, [])
  | some _ => ({ s with sent := AL.set seq s.now s.sent }, [{ seq, size := s.mss, stamp := s.now, kind := .resend }])

/-! ### `put(ack)` -/

/-- a run of duplicate ACKs ends: `if self.dupack >= 3: dupack_over()` (leaving fast recovery deflates the window;
after only one or two duplicates nothing is deflated), then `self.dupack = 0` -/
def leaveDups (s : Sender α) : Sender α :=
  if s.dupack ≥ 3 then { s with cc := CongestionControl.dupack_over s.cc, dupack := 0 } else { s with dupack := 0 }

/-- duplicate-ACK counting: `dupack += 1` on a repeated ACK number, else end a run of duplicates -/
def countDup (s : Sender α) (ackno : Nat) : Sender α :=
  if ackno = s.last_ack then { s with dupack := s.dupack + 1 }
  else if s.dupack > 0 then s.leaveDups
  else s

/-- the third duplicate: `consecutive_dupacks_received(); resend_packet(ackno)` -/
def thirdDup (s : Sender α) (ackno : Nat) : Sender α × List (Tx α) :=
  resend { s with cc := CongestionControl.consecutive_dupacks_received s.cc } ackno

/-- further duplicates: `more_dupacks_received()`, resend when `last_ack + cwnd >= ackno` -/
def moreDup (s : Sender α) (ackno : Nat) : Sender α × List (Tx α) :=
  let s := { s with cc := CongestionControl.more_dupacks_received s.cc }
  if (Num.ofNat ackno : α) ≤ Num.ofNat s.last_ack + s.cc.cwnd then resend s ackno else (s, [])

/-- `self.timers[seq].stop(); del self.timers[seq]; del self.sent_packets[seq]` -/
def dropSeg (s : Sender α) (seq : Nat) : Except PyErr (Sender α) :=
  match AL.get? seq s.timers with
  | none => .error .keyError
  | some _ =>
    match AL.get? seq s.sent with
    | none => .error .keyError
    | some _ => .ok { s with timers := AL.del seq s.timers, sent := AL.del seq s.sent }

def dropSegs (s : Sender α) : List Nat → Except PyErr (Sender α)
  | [] => .ok s
  | q :: rest =>
    match dropSeg s q with
    | .ok s' => dropSegs s' rest
    | .error e => .error e

/-- `[s for s in self.timers if s < ackno or s == ack.packet_id]` -/
def covered (s : Sender α) (ackno pid : Nat) : List Nat :=
  (AL.keys s.timers).filter fun q => q < ackno || q == pid

/-- `self.cwnd_avaialbe.put(True)`: the item enters the store at once; a blocked `get` is served when the kernel
processes the put event (`handoffStep`) -/
def giveToken (s : Sender α) : Sender α := { s with tokens := s.tokens + 1 }

/-- the estimator update and `self.last_ack = ackno` -/
def noteAck (s : Sender α) (a : AckIn α) : Sender α :=
  { s with est := TCPPacketGenerator.put_estimator s.est s.now a.ptime, last_ack := a.ackno }

/-- the end of the new-ACK block: stop and forget the covered timers, then `self.cwnd_avaialbe.put(True)` -/
def finishAck (s : Sender α) (a : AckIn α) : Res α :=
  match dropSegs s (s.covered a.ackno a.pid) with
  | .ok s' => .ok s'.giveToken []
  | .error e => .error e

/-- `self.congestion_control.ack_received(sample_rtt, self.env.now)` -/
def growWindow (s : Sender α) (sample : α) : Sender α :=
  { s with cc := CC.ackReceived s.kind s.cc sample s.now }

/-- the `if self.dupack == 0:` block -/
def newAck (s : Sender α) (a : AckIn α) : Res α :=
  let sample := TCPPacketGenerator.put_sample_rtt s.now a.ptime
  if CC.ackReceivedSafe s.kind s.cc sample s.now then
    finishAck ((s.noteAck a).growWindow sample) a
  else .error .partialOp

/-- `put` after its three guards (the `assert`, the model's own refusal of an ACK stamped in the future, the early return
on an overtaken ACK): duplicate-ACK counting, fast retransmit / recovery, the new-ACK block -/
def ackCore (s : Sender α) (a : AckIn α) : Res α :=
  let s := s.countDup a.ackno
  if s.dupack = 3 then
    let r := s.thirdDup a.ackno
    .ok r.1 r.2
  else if s.dupack > 3 then
    let r := s.moreDup a.ackno
    .ok r.1 r.2
  else if s.dupack = 0 then s.newAck a
  else .ok s []

/-- `put(ack)`.  `if ackno < self.last_ack: return`: an acknowledgement that was overtaken on the return path by a later
cumulative one acknowledges nothing new and is not a duplicate either - the state is left as it is and nothing is sent
(the test is the generated `TCPPacketGenerator.put_stale_guard`, `C17.stale_guard_generated_eq_model`) -/
def ackStep (s : Sender α) (a : AckIn α) : Res α :=
  if a.fid < 10000 then .error .assertion
  else if s.now < a.ptime then .reject .fromFuture
  else if a.ackno < s.last_ack then .ok s []
  else s.ackCore a

/-! ### `timeout_callback(packet_id)` -/

def fireStep (s : Sender α) (seq : Nat) : Res α :=
  match AL.get? seq s.timers with
  | none => .reject .noTimer
  | some tr =>
    if !tr.live || !(Num.eqb tr.wake s.now) || decide (s.now < tr.expiry) then .reject .notDue
    else
      let s := { s with cc := CC.timerExpired s.kind s.cc }
      let r := s.resend seq
      let s := { r.1 with est := TCPPacketGenerator.timeout_backoff r.1.est }
      -- `self.timers[packet_id].restart(self.rto)`
      match AL.get? seq s.timers with
      | none => .error .keyError
      | some _ => .ok { s with timers := AL.set seq (arm s.now s.est.rto) s.timers } r.2

/-! ### the wake-up store -/

/-- the kernel processes a `StorePut` event while `run` waits in `get()`: the token goes to the waiting `get`,
whose event is scheduled in this instant -/
def handoffStep (s : Sender α) : Res α :=
  if s.proc = .blocked ∧ s.tokens > 0 then .ok { s with tokens := s.tokens - 1, proc := .runnable } []
  else .reject .noHandoff

/-! ### the clock -/

/-- is some timer due to wake strictly before `t`? -/
def overdue (s : Sender α) (t : α) : Bool := s.timers.any fun kv => kv.2.live && decide (kv.2.wake < t)

def tickStep (s : Sender α) (t : α) : Res α :=
  if t < s.now then .reject .clockBack
  else if s.proc = .runnable then .reject .wakePending
  else if s.proc = .blocked ∧ s.tokens > 0 then .reject .handoffPending
  else if s.overdue t then .reject .timerOverdue
  else .ok { s with now := t } []

def step (s : Sender α) : Act α → Res α
  | .wake fuel => s.wakeStep fuel
  | .handoff => s.handoffStep
  | .ack a => s.ackStep a
  | .fire seq => s.fireStep seq
  | .tick t => s.tickStep t

end Sender
