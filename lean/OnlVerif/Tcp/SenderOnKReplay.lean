import OnlVerif.Tcp.SenderOnK
/-!
# Running the TCP-sender-on-kernel program (driver mode `sndk`)

```
CASE <id> <reno|cubic> <mss> <size> <rtt_estimate bits> <until bits> <step budget>
CC <mss> <cwnd> <ssthresh> <W_last_max> <epoch_start> <origin_point> <d_min> <W_tcp> <K> <ack_cnt> <tf 0|1> <fc 0|1> <beta> <C> <cwnd_cnt> <cnt>
ack <gap bits> <flow_id> <ackno> <packet_id> <ack.time bits>      -- the network script, in order
END
```
The driver runs `SenderOnK.body` on the kernel model at `Float` time with `run(until=<until>)` (`runUntilTime`) and prints how
the run ended, the `tx` observations of the trace (`tx <seq> <env.now bits>`), the attribute cells, the keys of `timers` /
`sent_packets` with `expire_time` / `packet.time`, the number of wake-up tokens, where `run` is, and the final clock.  The
harness runs the real `TCPPacketGenerator` with a real script process on the real kernel and compares line for line.
-/

namespace SenderOnK

def nkb (s : String) : Float := Float.ofBitsStr s

def b2s (b : Bool) : String := if b then "1" else "0"

def showProc : Proc → String
  | .runnable => "R" | .blocked => "B" | .finished => "F"

def showRun (cfg : Cfg) (r : RunResult Float (SnSt Float)) : List String :=
  let (tag, s) := match r with
    | .returned _ s => ("RET", s)
    | .raised x s => (s!"RAISED {x.ty}", s)
    | .outOfFuel s => ("FUEL", s)
  let a := absSender cfg s
  let c := a.cc
  [tag] ++ (txsOf s.trace).map (fun x => s!"tx {x.1} {x.2.bitsStr}") ++
    [s!"attrs nseq={a.next_seq} buf={a.send_buffer} lack={a.last_ack} dup={a.dupack} srtt={a.est.rtt_estimate.bitsStr} " ++
       s!"dev={a.est.est_deviation.bitsStr} rto={a.est.rto.bitsStr}",
     s!"cc {c.mss.bitsStr} {c.cwnd.bitsStr} {c.ssthresh.bitsStr} {c.W_last_max.bitsStr} {c.epoch_start.bitsStr} " ++
       s!"{c.origin_point.bitsStr} {c.d_min.bitsStr} {c.W_tcp.bitsStr} {c.K.bitsStr} {c.ack_cnt.bitsStr} {b2s c.tcp_friendliness} " ++
       s!"{b2s c.fast_convergence} {c.beta.bitsStr} {c.C.bitsStr} {c.cwnd_cnt.bitsStr} {c.cnt.bitsStr}",
     "timers " ++ ",".intercalate (a.timers.map fun kv => s!"{kv.1}@{kv.2.expiry.bitsStr}"),
     "sent " ++ ",".intercalate (a.sent.map fun kv => s!"{kv.1}@{kv.2.bitsStr}"),
     s!"tok={a.tokens} proc={showProc a.proc}",
     s!"now {s.now.bitsStr}"]

def parseCC (ws : List String) : Option (CCState Float) :=
  match ws with
  | [mss, cwnd, ssthresh, wl, es, op, dm, wt, k, ac, tf, fc, beta, c, cc, cnt] =>
    some { mss := nkb mss, cwnd := nkb cwnd, ssthresh := nkb ssthresh, W_last_max := nkb wl, epoch_start := nkb es,
           origin_point := nkb op, d_min := nkb dm, W_tcp := nkb wt, K := nkb k, ack_cnt := nkb ac,
           tcp_friendliness := tf == "1", fast_convergence := fc == "1", beta := nkb beta, C := nkb c,
           cwnd_cnt := nkb cc, cnt := nkb cnt }
  | _ => none

structure Work where
  cc : Option (CCState Float) := none
  script : List (Float × AckIn Float) := []

partial def readWork (h : IO.FS.Stream) (w : Work) : IO Work := do
  let line ← h.getLine
  if line.isEmpty then return w
  let ws := (line.trimAscii.toString.splitOn " ").filter (· ≠ "")
  match ws with
  | ["END"] => return w
  | "CC" :: rest => readWork h { w with cc := parseCC rest }
  | ["ack", gap, fid, ackno, pid, st] =>
    readWork h { w with script := w.script ++ [(nkb gap, { fid := fid.toNat!, ackno := ackno.toNat!, pid := pid.toNat!, ptime := nkb st })] }
  | _ => readWork h w

end SenderOnK

partial def sndkLoop (h : IO.FS.Stream) : IO Unit := do
  let line ← h.getLine
  if line.isEmpty then return
  let ws := (line.trimAscii.toString.splitOn " ").filter (· ≠ "")
  match ws with
  | ["CASE", id, kind, mss, size, rtt, untl, budget] =>
    IO.println s!"CASE {id}"
    let w ← SenderOnK.readWork h {}
    match w.cc with
    | some cc =>
      let cfg : SenderOnK.Cfg := { kind := if kind == "cubic" then .cubic else .reno, mss := mss.toNat!, size := size.toNat! }
      let r := runUntilTime (SenderOnK.body cfg) 1 budget.toNat! (SenderOnK.nkb untl) (SenderOnK.initState cc (SenderOnK.nkb rtt) w.script)
      for l in SenderOnK.showRun cfg r do IO.println l
    | none => IO.println "BADCASE no CC line"
    IO.println "ENDCASE"
    sndkLoop h
  | [] => sndkLoop h
  | _ => IO.println s!"BADLINE {line.trimAscii.toString}"; sndkLoop h
