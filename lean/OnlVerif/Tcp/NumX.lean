import OnlVerif.Basic.Num
/-!
# Scalar operations beyond `Num` that the TCP congestion-control code uses

`x ** n` with a literal natural exponent (`(t - K) ** 3` in CUBIC) is `NumX.powNat`: at `Float` it is the
C library `pow` — which is what CPython's `float.__pow__` calls, so results agree bit for bit (re-confirmed
by the C17 replay) — and at `Rat` it is the exact power.

`x ** y` with any other exponent (`(…) ** (1.0 / 3)`, CUBIC's cube root) is `NumX.rpow`.  It is *not* an
operation of exact rational arithmetic: the `Rat` instance is a placeholder, and every generated
`….safe` function is `false` on a path that evaluates it, so no theorem and no replayed run ever relies
on its value (`C17.cubic_growth` proves the only occurrence unreachable).
-/

class NumX (α : Type) extends Num α where
  powNat : α → Nat → α
  rpow : α → α → α

/-- exact power by repeated multiplication -/
def Rat.powNat' (x : Rat) : Nat → Rat
  | 0 => 1
  | n + 1 => Rat.powNat' x n * x

instance : NumX Rat where
  powNat := Rat.powNat'
  rpow := fun _ _ => 0

instance : NumX Float where
  powNat := fun x n => Float.pow x (Float.ofNat n)
  rpow := Float.pow

namespace Num
variable {α : Type} [Num α]
/-- Python `x != 0` on scalars, through `<` only -/
def nonzero (a : α) : Bool := !(Num.eqb a Num.zero)
end Num
