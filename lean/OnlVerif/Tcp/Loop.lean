import OnlVerif.Tcp.Sink
import OnlVerif.Tcp.CC
/-!
# The closed loop: sender ∥ data path ∥ sink ∥ ACK path

A small composition used for the *partial* progress results of C16 (it is not replayed by the driver; the
closed-loop correspondence compares the sender and the sink separately).  Each path is a FIFO list of packets in
flight; a path may lose any packet in flight (`dropData i`, `dropAck i` - "drops by transmission index" without
the bookkeeping of indices) and delivers its head (`deliver`, `ackArrive`).  Delays are the interleaving with the
sender's `tick`.  `issued` is a ghost list of the sequence numbers sent as new segments so far.  `ackArriveAt i` is the
arrival of *any* ACK in flight (a return path that reorders).
-/

structure Loop (α : Type) where
  snd : Sender α
  sink : List TcpSink.Range
  data : List (Tx α)
  acks : List (AckIn α)
  issued : List Nat

inductive LAct (α : Type) where
  /-- the sender's own bursts: `wake`, `handoff`, `fire`, `tick` (ACK arrivals come from the ACK path) -/
  | own (a : Act α)
  /-- the head of the data path reaches the sink, which answers with an ACK -/
  | deliver
  /-- the head of the ACK path reaches the sender -/
  | ackArrive
  | dropData (i : Nat)
  | dropAck (i : Nat)

namespace Loop
variable {α : Type} [NumX α]

/-- the acknowledgement `TCPSink.put` builds for `packet` (`flow_id + 10000`, echo of id and time stamp) -/
def ackFor (tx : Tx α) (ackno : Nat) : AckIn α := { fid := 10000, ackno := ackno, pid := tx.seq, ptime := tx.stamp }

def newSeqs (outs : List (Tx α)) : List Nat := (outs.filter fun tx => tx.kind == .new).map (·.seq)

def isAck : Act α → Bool
  | .ack _ => true
  | _ => false

def step (l : Loop α) : LAct α → Option (Loop α)
  | .own a =>
    if isAck a then none
    else match l.snd.step a with
      | .ok s' outs => some { l with snd := s', data := l.data ++ outs, issued := l.issued ++ newSeqs outs }
      | _ => none
  | .deliver =>
    match l.data with
    | [] => none
    | tx :: rest =>
      match TcpSink.put l.sink tx.seq tx.size with
      | (buf, .ok n) => some { l with sink := buf, data := rest, acks := l.acks ++ [ackFor tx n] }
      | (_, .error _) => none
  | .ackArrive =>
    match l.acks with
    | [] => none
    | a :: rest =>
      match l.snd.step (.ack a) with
      | .ok s' outs => some { l with snd := s', acks := rest, data := l.data ++ outs }
      | _ => none
  | .dropData i => if i < l.data.length then some { l with data := l.data.eraseIdx i } else none
  | .dropAck i => if i < l.acks.length then some { l with acks := l.acks.eraseIdx i } else none

/-- a return path that does **not** keep order: *any* ACK in flight (the `i`-th) reaches the sender next.  `ackArrive` is
`ackArriveAt 0`.  Used for the safety results about reordering return paths (`Lemmas/TcpReorder.lean`,
`C16.reordering_return_path_safe`); the liveness development stays on the FIFO actions of `step`. -/
def ackArriveAt (l : Loop α) (i : Nat) : Option (Loop α) :=
  match l.acks[i]? with
  | none => none
  | some a =>
    match l.snd.step (.ack a) with
    | .ok s' outs => some { l with snd := s', acks := l.acks.eraseIdx i, data := l.data ++ outs }
    | _ => none

/-- sender freshly constructed, nothing in flight, nothing received -/
def init (s : Sender α) : Loop α := { snd := s, sink := [], data := [], acks := [], issued := [] }

end Loop
