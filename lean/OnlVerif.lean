-- models (import-free; linked into the driver)
import OnlVerif.Basic.Num
import OnlVerif.Kernel.Agenda
import OnlVerif.Kernel.Types
import OnlVerif.Kernel.Ops
import OnlVerif.Kernel.Step
import OnlVerif.Kernel.Script
import OnlVerif.Kernel.Replay
import OnlVerif.Net.Fifo
import OnlVerif.Net.Port
import OnlVerif.Net.FifoReplay
import OnlVerif.Net.GenSink
import OnlVerif.Net.GenSinkReplay
-- property theorems (import Mathlib modules one by one)
import OnlVerif.Props.C01
import OnlVerif.Props.C02
import OnlVerif.Props.C03
import OnlVerif.Props.C04
import OnlVerif.Props.C05
import OnlVerif.Props.C06
import OnlVerif.Props.C07
import OnlVerif.Props.C08
import OnlVerif.Props.C09
