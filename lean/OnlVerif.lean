import OnlVerif.Basic.Num
import OnlVerif.Kernel.Agenda
import OnlVerif.Kernel.Types
import OnlVerif.Kernel.Ops
import OnlVerif.Kernel.Step
import OnlVerif.Kernel.Script
import OnlVerif.Kernel.Replay
