#!/venv/bin/python
"""tools/keepseed.py <Cnn> <m1|m2> [extra props…]: confirm a sub-agent's change with seedcheck and archive it under seeded/"""
import json, os, shutil, subprocess, sys
pid, m = sys.argv[1], sys.argv[2]
extra = sys.argv[3:]
src = f'/tmp/mut/out/{pid}/{m}' if os.path.isdir(f'/tmp/mut/out/{pid}/{m}') else f'/tmp/mut/{pid}/out/{m}'
r = subprocess.run(['/verif/tools/seedcheck.py', src, pid] + extra, capture_output=True, text=True)
res = json.loads(r.stdout)
ok = res['demo_on_original'] == 0 and res['patch_applies'] and res['demo_on_mutant'] != 0 and res['tests'].startswith('119 passed')
dst = f'/verif/seeded/{pid}-{m}'
print(json.dumps(res, indent=1))
if not ok:
    print('NOT KEPT: the change does not satisfy the acceptance conditions'); sys.exit(1)
os.makedirs(dst, exist_ok=True)
for f in ('patch.diff', 'demo.py'):
    shutil.copy(os.path.join(src, f), dst)
meta = json.load(open(os.path.join(src, 'meta.json')))
meta['breaks'] = pid
meta['confirmed'] = {'demo_exit_on_original': res['demo_on_original'], 'demo_exit_on_mutant': res['demo_on_mutant'],
                     'demo_message': res['demo_msg'], 'test_suite_with_change': res['tests'],
                     'what_i_ran': 'tools/seedcheck.py: scratch copy of /repo, demo before/after git apply, full pytest, ./check with ONL_REPO=<copy>'}
meta['checks'] = {k[6:]: v for k, v in res.items() if k.startswith('check_')}
first = f'/tmp/mut/results/{pid}-{m}.json'
if os.path.exists(first):
    # verdict of the checks as they were when the change was first tried (before any strengthening it prompted)
    fr = json.load(open(first))
    meta['first_run'] = {k[6:]: {'exit': v['exit'], 'lines': v['lines'][:1]} for k, v in fr.items() if k.startswith('check_')}
json.dump(meta, open(os.path.join(dst, 'meta.json'), 'w'), indent=1)
print('KEPT', dst, {k: v['exit'] for k, v in meta['checks'].items()})
