#!/venv/bin/python
"""tools/reseed.py [<seed id> ...]: re-run the claimed checks against every archived seeded change (seeded/<id>/) in scratch
copies of /repo and refresh meta.json's `checks` / `confirmed` blocks.  Runs the seeds in parallel.  Exit 1 if a seed is
no longer reported by the check of the property it breaks."""
import json, os, subprocess, sys
from concurrent.futures import ThreadPoolExecutor
ids = sys.argv[1:] or sorted(os.listdir('/verif/seeded'))

def one(i):
    d = f'/verif/seeded/{i}'
    meta = json.load(open(d + '/meta.json'))
    props = list(meta.get('checks', {}).keys()) or [meta['breaks']]
    if meta['breaks'] not in props:
        props.insert(0, meta['breaks'])
    r = subprocess.run(['/verif/tools/seedcheck.py', d] + props, capture_output=True, text=True)
    res = json.loads(r.stdout)
    meta['confirmed'].update({'demo_exit_on_original': res['demo_on_original'], 'demo_exit_on_mutant': res['demo_on_mutant'],
                              'test_suite_with_change': res['tests']})
    meta['checks'] = {k[6:]: v for k, v in res.items() if k.startswith('check_')}
    json.dump(meta, open(d + '/meta.json', 'w'), indent=1)
    own = meta['checks'][meta['breaks']]
    conc = sum(1 for l in own['lines'] if l.startswith('VIOLATION') and 'no-failing-input-found' not in l)
    return i, own['exit'], conc, {k: v['exit'] for k, v in meta['checks'].items()}

bad = 0
with ThreadPoolExecutor(max_workers=int(os.environ.get('RESEED_JOBS', '4'))) as ex:
    for i, rc, conc, allc in ex.map(one, ids):
        print(f'{i}: own-check exit={rc} concrete-replays={conc} all={allc}', flush=True)
        bad += rc != 1
sys.exit(1 if bad else 0)
