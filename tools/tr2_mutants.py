#!/venv/bin/python
"""Source mutants for the bridge theorems of C13 / C19 / C20 (`py2lean/more.py`, `Generated/Sp13 | Timer19 | Rt20`).

    tools/tr2_mutants.py --write            (re)write tools/mutations/tr2-*.patch from the table below (diffs against $ONL_REPO)
    tools/tr2_mutants.py [C20 C19 C13]      apply each patch to a scratch copy of the library, run `./check Cnn --tier quick`
                                            against it and say who reported it: the bridge (the translator refused the source or
                                            a bridge theorem / the proof chain no longer builds), the replay (model and
                                            implementation disagree), a direct oracle (a failing input was found)

The last run of every property is against the unmodified library, so that `lean/OnlVerif/Generated/*.lean` is left as translated
from the true source.  Every mutant must be reported (exit 1 otherwise).
"""
import difflib, json, os, shutil, subprocess, sys, tempfile

HERE = os.path.dirname(os.path.dirname(os.path.abspath(__file__)))
REPO = os.environ.get('ONL_REPO', '/repo')
MUT = os.path.join(HERE, 'tools', 'mutations')
RT, TIMER, SP = 'onl/sim/rt.py', 'onl/utils/timer.py', 'onl/scheduler/sp.py'

# (property, name, file, old, new, what)
M = [
    ('C20', 'strict-ge', RT, 'monotonic() - real_time > self.factor', 'monotonic() - real_time >= self.factor',
     'strict test `>` -> `>=`'),
    ('C20', 'one-reading', RT,
     '        if self.strict and monotonic() - real_time > self.factor:\n            # Events scheduled for time *t* may take just up to *t+1*\n'
     '            # for their computation, before an error is raised.\n            delta = monotonic() - real_time\n',
     '        lag = monotonic() - real_time\n        if self.strict and lag > self.factor:\n            delta = lag\n',
     'one clock reading (taken also in non-strict mode) instead of two'),
    ('C20', 'sleep-lt', RT, '            if delta <= 0:\n', '            if delta < 0:\n', 'sleep loop left at `delta < 0` instead of `<= 0`'),
    ('C20', 'due-no-origin', RT, 'self.real_start + (evt_time - self.env_start) * self.factor', 'self.real_start + evt_time * self.factor',
     'due instant ignores `env_start`'),
    ('C20', 'init-env-start-0', RT, '        self.env_start = initial_time\n', '        self.env_start = 0\n', '`__init__`: `env_start = 0`'),
    ('C20', 'strict-ignored', RT, 'if self.strict and monotonic() - real_time > self.factor:', 'if monotonic() - real_time > self.factor:',
     'the too-slow error is raised in non-strict mode too'),
    ('C20', 'sleep-half', RT, '            sleep(delta)\n', '            sleep(delta * 0.5)\n', 'sleeps half the remaining time per iteration'),
    ('C20', 'sync-noop', RT, '        self.real_start = monotonic()\n\n    def step', '        self.env_start = self.env_start\n\n    def step',
     '`sync()` no longer re-bases `real_start`'),
    ('C19', 'args-falsy', TIMER, '        if args is None:\n', '        if not args:\n', '`if not args` for `if args is None` (a scalar 0 becomes [])'),
    ('C19', 'tuple-wrapped', TIMER, 'elif not isinstance(args, (list, tuple)):', 'elif not isinstance(args, list):', 'a tuple of arguments is wrapped like a scalar'),
    ('C19', 'refuse-lt', TIMER, '        if timeout <= 0:\n', '        if timeout < 0:\n', '`timeout <= 0` refusal -> `< 0`'),
    ('C19', 'stop-early-return', TIMER, '    def stop(self):\n        self.stopped = True\n',
     '    def stop(self):\n        if self.stopped:\n            return\n        self.stopped = True\n', 'early return in `stop` when already stopped'),
    ('C19', 'sleep-from-start', TIMER, 'yield self.env.timeout(self.expire_time - env.now)', 'yield self.env.timeout(self.expire_time - self.start_time)',
     'the timeout argument is `expire_time - start_time`'),
    ('C19', 'rebase-from-expiry', TIMER, '                        self.expire_time = env.now + self.timeout\n',
     '                        self.expire_time = self.expire_time + self.timeout\n', 'auto-restart re-bases from the old expiry instead of `env.now`'),
    ('C19', 'restart-no-own-return', TIMER,
     '        if self.env.active_process is self.proc:\n            # called from the timer\'s own callback: run() is executing and\n'
     '            # re-reads expire_time when the callback returns\n            return\n', '', '`restart` without the own-callback early return'),
    ('C19', 'respawn-always', TIMER,
     '            self.proc.interrupt("restart timer")\n            self.proc = self.env.process(self.run(self.env))\n',
     '            self.proc.interrupt("restart timer")\n        self.proc = self.env.process(self.run(self.env))\n',
     '`restart` starts a new process also when the old one is dead'),
    ('C13', 'reverse-false', SP, 'key=lambda item: item[1], reverse=True)', 'key=lambda item: item[1], reverse=False)', '`reverse=False`: least urgent first'),
    ('C13', 'key-flow-id', SP, 'key=lambda item: item[1], reverse=True)', 'key=lambda item: item[0], reverse=True)', 'the table is ordered by flow id'),
    ('C13', 'prio-ge-0', SP, '                if prio > 0:\n', '                if prio >= 0:\n', '`prio > 0` -> `prio >= 0`'),
    ('C13', 'no-break', SP, '                    # Rescan from the highest priority: a more urgent packet\n                    # may be waiting by now.\n                    break\n', '',
     'no `break`: one packet per class per pass instead of a rescan from the top'),
    ('C13', 'no-empty-test', SP, '                    if store.size() == 0:\n                        continue\n', '',
     'the emptiness test is gone: the server waits on the most urgent store'),
    ('C13', 'wait-le-1', SP, '            if self.total_packets == 0:\n', '            if self.total_packets <= 1:\n', 'end of pass: waits although one packet is queued'),
]


def patch_path(m):
    return os.path.join(MUT, f'tr2-{m[0]}-{m[1]}.patch')


def write():
    for m in M:
        src = open(os.path.join(REPO, m[2])).read()
        if src.count(m[3]) != 1:
            sys.exit(f'{m[0]} {m[1]}: the text to replace occurs {src.count(m[3])} times in {m[2]}')
        new = src.replace(m[3], m[4])
        d = ''.join(difflib.unified_diff(src.splitlines(True), new.splitlines(True), 'a/' + m[2], 'b/' + m[2]))
        with open(patch_path(m), 'w') as f:
            f.write(d)
    print(f'{len(M)} patches written to {MUT}')


def check(prop, repo, tag):
    edir = tempfile.mkdtemp(prefix='tr2ev.')
    env = dict(os.environ, ONL_REPO=repo, VERIF_EVIDENCE_DIR=edir, VERIF_REPLAY_DIR='replays/mutants')
    env.pop('PYTHONPATH', None)
    r = subprocess.run([os.path.join(HERE, 'check'), prop, '--tier', 'quick'], cwd=HERE, env=env, capture_output=True, text=True)
    ev = {}
    try:
        ev = json.load(open(os.path.join(edir, f'{prop}.json')))
    except Exception:
        pass
    shutil.rmtree(edir, ignore_errors=True)
    cov = ev.get('coverage', {})
    first = (r.stdout.strip().splitlines() or ['<no output>'])[0]
    return {'rc': r.returncode, 'line': first, 'proof_problems': cov.get('proof_problems', []),
            'disagreements': cov.get('correspondence_disagreements', 0), 'oracle_failures': cov.get('oracle_failures', 0),
            'stderr': r.stderr[-400:]}


def run(props):
    rows, bad = [], 0
    for prop in props:
        for m in [m for m in M if m[0] == prop]:
            d = tempfile.mkdtemp(prefix='tr2repo.')
            subprocess.run(['cp', '-r', REPO + '/.', d], check=True)
            p = subprocess.run(['patch', '-s', '-p1', '--fuzz=3', '-i', patch_path(m)], cwd=d, capture_output=True, text=True)
            if p.returncode != 0:
                sys.exit(f'{patch_path(m)} does not apply: {p.stdout}{p.stderr}')
            res = check(prop, d, m[1])
            shutil.rmtree(d, ignore_errors=True)
            pp = res['proof_problems']
            how = []
            if any('translator/preparation failed' in x for x in pp):
                how.append('bridge (translator refuses: ' + next(x for x in pp if 'translator' in x)[40:200].replace('\n', ' ') + ')')
            if any('lake build failed' in x for x in pp):
                errs = [l for x in pp if 'lake build failed' in x for l in x.splitlines() if 'error' in l]
                how.append('bridge (no longer builds: ' + (errs[0][:110] if errs else '?') + ')')
            if res['disagreements']:
                how.append(f'replay ({res["disagreements"]} disagreements)')
            if res['oracle_failures']:
                how.append(f'oracle ({res["oracle_failures"]} failing inputs)')
            reported = res['rc'] == 1 and 'VIOLATION' in res['line']
            bad += 0 if reported else 1
            rows.append((prop, m[1], m[5], 'reported' if reported else 'NOT REPORTED', '; '.join(how) or res['line'] + res['stderr']))
            print(' | '.join(rows[-1]), flush=True)
        res = check(prop, REPO, 'clean')
        print(f'{prop} on the unmodified library: {res["line"]}', flush=True)
        if res['rc'] != 0:
            bad += 1
    print('\n| property | mutant | change | bridge | replay | oracle |\n|---|---|---|---|---|---|')
    for prop, name, what, rep, how in rows:
        print(f'| {prop} | `tr2-{prop}-{name}` | {what} | {"yes" if "bridge" in how else "-"} | {"yes" if "replay" in how else "-"} | '
              f'{"yes" if "oracle" in how else "-"} |')
    sys.exit(1 if bad else 0)


if __name__ == '__main__':
    args = sys.argv[1:]
    if '--write' in args:
        write()
    else:
        run([a for a in args if a.startswith('C')] or ['C20', 'C19', 'C13'])
