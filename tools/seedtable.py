#!/usr/bin/env python3
"""tools/seedtable.py: rewrite the table of seeded changes in DESIGN.md (between the SEEDTABLE markers) from seeded/*/meta.json"""
import json, os, re
V = os.path.dirname(os.path.dirname(os.path.abspath(__file__)))
rows = ['| seed | files touched | clause it breaks | reported by (exit 1) | when first tried |', '|---|---|---|---|---|']
for d in sorted(os.listdir(f'{V}/seeded')):
    m = json.load(open(f'{V}/seeded/{d}/meta.json'))
    det = []
    for k, v in m.get('checks', {}).items():
        conc = sum(1 for l in v['lines'] if l.startswith('VIOLATION') and 'no-failing-input-found' not in l)
        if v['exit'] == 1:
            det.append(f"{k}{' (failing input)' if conc else ' (obligation only)'}")
    what = (m.get('clause_broken') or '').replace('\n', ' ').replace('|', '/')
    if len(what) > 170:
        what = what[:170].rsplit(' ', 1)[0] + ' …'
    fr = m.get('first_run', {}).get(m['breaks'])
    first = ''
    if fr is not None:
        if fr['exit'] != 1:
            first = 'missed → check strengthened'
        elif any('no-failing-input-found' in l for l in fr['lines']):
            first = 'obligation only → oracle strengthened'
        else:
            first = 'failing input'
    rows.append(f"| `{d}` | {', '.join(x.replace('onl/', '') for x in (m.get('files_touched') or []))} | {what} | {', '.join(det) or '**not detected**'} | {first} |")
txt = open(f'{V}/DESIGN.md').read()
new = re.sub(r'(<!-- SEEDTABLE:BEGIN -->\n).*?(<!-- SEEDTABLE:END -->)', lambda mm: mm.group(1) + '\n'.join(rows) + '\n' + mm.group(2), txt, flags=re.S)
open(f'{V}/DESIGN.md', 'w').write(new)
print(len(rows) - 2, 'seeds')
