#!/venv/bin/python
"""Static audit of the ownership table (`py2lean/scope.py`, `py2lean/SCOPE.md`):

* every generated file has an entry in `scope.OWNERS`, and every entry is a target of `translate.all_targets()` / `route`;
* the import closure of a check's proof modules (`Props/<Cnn>.lean` + its `EXTRA_MODULES`) contains no generated file that the
  check neither owns nor is declared to use (`scope.USERS`) - directly or through lemma files;
* a check's `prepare` regenerates exactly the files it owns (plus the ones it uses, best-effort): verified by running `prepare`
  with a recording stub in place of `translate.regenerate_all` / `route.regenerate`;
* the theorem count of the bridge modules.

    tools/scope_audit.py            exit 0 iff everything above holds
"""
import importlib, os, re, sys

HERE = os.path.dirname(os.path.dirname(os.path.abspath(__file__)))
sys.path.insert(0, HERE)
os.environ.setdefault('ONL_REPO', '/repo')
sys.path.insert(1, os.environ['ONL_REPO'])

from py2lean import scope, translate, route          # noqa: E402
from vlib import framework                            # noqa: E402


def main():
    bad = []
    stems = {os.path.splitext(os.path.basename(r))[0] for r in translate.all_targets()} | {'Route'}
    on_disk = {f[:-5] for f in os.listdir(scope.GEN) if f.endswith('.lean')}
    for s in sorted(stems | on_disk | set(scope.OWNERS)):
        if s not in scope.OWNERS:
            bad.append(f'{s}: no entry in scope.OWNERS')
        if s not in stems:
            bad.append(f'{s}: not a translator target')
        if s not in on_disk:
            bad.append(f'{s}: Generated/{s}.lean missing')
        if not os.path.exists(os.path.join(scope.PINNED, s + '.lean')):
            bad.append(f'{s}: no pinned copy')
    print(f'{"check":6}{"owns":44}{"uses":10}{"generated files in the closure of its proof modules"}')
    for i in range(1, 21):
        prop = f'C{i:02d}'
        mod = importlib.import_module(f'harness.{prop.lower()}')
        extra = tuple(getattr(mod, 'EXTRA_MODULES', ()))
        own = set(scope.owned_by(prop))
        uses = {s for s, u in scope.USERS.items() if prop in u}
        clo = set(scope.generated_in([f'OnlVerif.Props.{prop}'] + list(extra)))
        via_theorems = {s for s, u in getattr(scope, 'THEOREM_USERS', {}).items() if prop in u}      # imports the owner's Props module
        foreign = {s for s in clo if scope.is_foreign(s, prop) and s not in uses and s not in via_theorems}
        print(f'{prop:6}{",".join(sorted(own)) or "-":44}{",".join(sorted(uses)) or "-":10}{",".join(sorted(clo)) or "-"}')
        if foreign:
            bad.append(f'{prop}: its proof modules import generated files of other properties: {sorted(foreign)}')
        missing = {s for s in own if s not in clo}
        if missing:
            bad.append(f'{prop}: owns {sorted(missing)} but no proof module of the check imports it (no bridge theorem?)')
        if extra != tuple(scope.BRIDGE_MODULES.get(prop, ())) + tuple(m for m in extra if not m.startswith('OnlVerif.Props.KernelGen')):
            if set(m for m in extra if m.startswith('OnlVerif.Props.KernelGen')) != set(scope.BRIDGE_MODULES.get(prop, ())):
                bad.append(f'{prop}: EXTRA_MODULES {extra} do not match scope.BRIDGE_MODULES')
        # what does prepare regenerate?
        pre = getattr(mod, 'prepare', None)
        asked = set()
        if pre:
            real_all, real_route = translate.regenerate_all, route.regenerate

            def rec_all(only=None, pin=False, tolerate=False):
                asked.update(only if only is not None else stems - {'Route'})
                return []

            def rec_route(repo=None, pin=False):
                asked.add('Route')
                return {}
            translate.regenerate_all, route.regenerate = rec_all, rec_route
            try:
                pre(None)
            except Exception as x:
                bad.append(f'{prop}: prepare raised under the recording stub: {x!r}')
            finally:
                translate.regenerate_all, route.regenerate = real_all, real_route
        want = own | uses | ({'KernelObj'} if prop in scope.BRIDGE_MODULES else set())
        if asked != want:
            bad.append(f'{prop}: prepare regenerates {sorted(asked)}, the table says {sorted(want)}')
    drv = scope.generated_in(['Driver'])
    print(f'driver links: {drv}')
    if set(drv) != set(scope.DRIVER_DEPS):
        bad.append(f'scope.DRIVER_DEPS {scope.DRIVER_DEPS} != generated files in the closure of Driver {drv}')
    n = 0
    for m in sorted({m for ms in scope.BRIDGE_MODULES.values() for m in ms}):
        t = framework.theorems_of(m)
        n += len(t)
        print(f'{m}: {len(t)} theorems')
    print(f'bridge theorems in the KernelGen modules: {n}')
    for b in bad:
        print('PROBLEM:', b)
    print('problems:', len(bad))
    sys.exit(1 if bad else 0)


main()
