#!/bin/bash
# tools/sweep.sh <tier> <seed list…>  — runs every claimed check for every seed; prints only what is not OK
tier="$1"; shift
cd "$(dirname "$0")/.."
props=$(python3 -c "import json;print(' '.join(c['property_id'] for c in json.load(open('MANIFEST.json'))['checks']))")
bad=0
for s in "$@"; do
  for p in $props; do
    out=$(VERIF_SEED=$s VERIF_EVIDENCE_DIR=/tmp/sweep_evidence VERIF_REPLAY_DIR=replays/sweep ./check $p --tier $tier 2>&1); rc=$?
    if [ $rc -ne 0 ]; then bad=$((bad+1)); echo "seed=$s $p rc=$rc"; echo "$out" | tail -3; fi
  done
done
echo "sweep done tier=$tier seeds=$* not-ok=$bad"
