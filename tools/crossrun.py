#!/venv/bin/python
"""Cross-runs: apply ONE source change to a scratch copy of the library and run ALL 20 checks against it, to see which checks
alarm.  An alarm of a check whose property does not constrain the changed code is a false alarm (`py2lean/SCOPE.md`).

    tools/crossrun.py [a b ... | all] [--scratch DIR] [--jobs N] [--props C01,C05,...] [--md]
    tools/crossrun.py --seeds seeded/C01-m1,seeded/C07-m2,... [...]      (a seeded change: patch.diff + meta.json, owner = meta["breaks"])

The changes (a)-(k) are the ones recorded in `py2lean/SCOPE.md`; `owners` are the properties whose text constrains the changed
code (they must alarm), `also` are properties that may alarm too because the change really alters behaviour they constrain or
replay (documented in SCOPE.md); every other check must print `OK`.  After every change the generated files are put back to
the translation of the unmodified library.  Library: `cross(mut_repo, props, scratch, jobs)` is used by
`tools/bridge_mutants.py --cross`.
"""
import concurrent.futures, json, os, shutil, subprocess, sys, time

HERE = os.path.dirname(os.path.dirname(os.path.abspath(__file__)))
REPO = os.environ.get('ONL_REPO_TRUE', '/repo')
ALL = [f'C{i:02d}' for i in range(1, 21)]

# label: (file, old, new, occurrence (0 first, -1 last), owners, also, what)
CHANGES = {
    'a': ('onl/sim/events.py', 'return len(events) == count', 'return len(events) <= count', 0, ['C05'], [], 'Condition.all_events: == -> <='),
    'b': ('onl/sim/resources/container.py', 'if self._capacity - self._level >= event.amount:', 'if self._capacity - self._level > event.amount:', 0,
          ['C07'], [], 'Container._do_put: >= -> >'),
    'c': ('onl/sim/resources/resource.py', 'if len(self._users) < self.capacity:', 'if len(self._users) <= self.capacity:', 0, ['C06'], [],
          'Resource._do_put: < -> <='),
    'd': ('onl/sim/events.py', 'self.env.schedule(self, URGENT)', 'self.env.schedule(self, NORMAL)', 0, ['C04', 'C01'], [],
          'Interruption.__init__: URGENT -> NORMAL'),
    'e': ('onl/sim/events.py', 'if delay < 0:', 'if delay <= 0:', 0, ['C01'], [], 'Timeout.__init__: delay < 0 -> delay <= 0'),
    'f': ('onl/scheduler/base.py', 'yield self.env.timeout(packet.size * 8.0 / self.rate)', 'yield self.env.timeout(packet.size * 8.5 / self.rate)', 0,
          ['C12'], [], 'Scheduler.send_packet: * 8.0 -> * 8.5'),
    'g': ('onl/scheduler/wfq.py', 'self.finish_times[class_id] = max(', 'self.finish_times[class_id] = min(', 0, ['C14'], [], 'WFQ.put stamp: max -> min'),
    'h': ('onl/packet/tcp_generator.py', '        if self.cwnd <= self.ssthresh:\n            # slow start\n            self.cwnd += self.mss\n        else:\n            # congestion avoidance\n            self.cwnd += self.mss * self.mss / self.cwnd',
          '        if self.cwnd < self.ssthresh:\n            # slow start\n            self.cwnd += self.mss\n        else:\n            # congestion avoidance\n            self.cwnd += self.mss * self.mss / self.cwnd', 0,
          ['C17'], [], 'TCPReno.ack_received: <= -> <'),
    'i': ('onl/netdev/demux.py', 'if flow_id < len(self.outs):', 'if flow_id <= len(self.outs):', 0, ['C18'], [], 'FlowDemux.put: < -> <='),
    'j': ('onl/netdev/port.py', 'self.limit_bytes and byte_count > self.qlimit', 'self.limit_bytes and byte_count >= self.qlimit', 0, ['C09'], [],
          'Port.put: > -> >='),
    'k': ('onl/sim/resources/store.py', '        if len(self.items) < self._capacity:\n            self.items.append(event.item)',
          "        self._stat = getattr(self, '_stat', 0) + 1\n        if len(self.items) < self._capacity:\n            self.items.append(event.item)", 0,
          ['C07'], [], "Store._do_put: a statement outside the translator's subset added"),
}


def run(cmd, env, timeout, cwd=HERE):
    try:
        r = subprocess.run(cmd, cwd=cwd, env=env, capture_output=True, text=True, timeout=timeout)
        return r.returncode, r.stdout + r.stderr
    except subprocess.TimeoutExpired:
        return 124, 'TIMEOUT'


def restore_generated():
    """put every generated file back to the translation of the unmodified library"""
    env = dict(os.environ, PYTHONPATH=HERE + ':' + REPO, ONL_REPO=REPO)
    return run(['/venv/bin/python', '-c',
                'from py2lean import translate, route\n'
                'import sys\n'
                'r = translate.regenerate_all()\n'
                'route.regenerate()\n'
                'print(r)'], env, 600)


def one(prop, env, scratch):
    t0 = time.time()
    rc, out = run(['./check', prop, '--tier', 'quick'], env, 2400)
    lines = [l for l in out.splitlines() if l.startswith(('OK', 'VIOLATION', 'KNOWN'))]
    verdict = 'OK' if rc == 0 else ('VIOLATION' if rc == 1 else f'exit{rc}')
    why = ''
    if rc != 0:
        try:
            cov = json.load(open(os.path.join(scratch, 'ev', f'{prop}.json')))['coverage']
            pp = cov.get('proof_problems', [])
            why = f'proof_problems={len(pp)} disagreements={cov.get("correspondence_disagreements")} oracle_failures={cov.get("oracle_failures")}'
            if pp:
                why += ' :: ' + pp[0][:220].replace('\n', ' | ')
        except Exception as x:
            why = f'(no evidence: {x!r}) ' + out[-300:].replace('\n', ' | ')
        if any('no-failing-input-found' in l for l in lines):
            verdict += '(nfi)'
    return prop, verdict, why, round(time.time() - t0, 1)


def cross(mut, props=ALL, scratch='/tmp/crossrun', jobs=6):
    """run the checks `props` against the library copy `mut`; returns {prop: (verdict, why, seconds)}"""
    env = dict(os.environ, ONL_REPO=mut, VERIF_EVIDENCE_DIR=os.path.join(scratch, 'ev'), VERIF_REPLAY_DIR=os.path.join(scratch, 'replays'))
    res = {}
    # C16 and C17 share Generated/TcpCC.lean, which is linked into the driver: C17 regenerates it, C16 falls back to its pinned copy
    # when its own proof chain no longer builds over it.  Run concurrently they would rebuild the driver under each other's replay;
    # they run one after the other, in the order of the property ids, after the rest.
    seq = [p for p in props if p in ('C16', 'C17')]
    with concurrent.futures.ThreadPoolExecutor(jobs) as ex:
        for prop, verdict, why, dt in ex.map(lambda p: one(p, env, scratch), [p for p in props if p not in seq]):
            res[prop] = (verdict, why, dt)
    for p in seq:
        prop, verdict, why, dt = one(p, env, scratch)
        res[prop] = (verdict, why, dt)
    return res


def apply_change(mut, rel, old, new, occ=0):
    src = open(os.path.join(REPO, rel)).read()
    if src.count(old) < 1:
        raise SystemExit(f'{rel}: {old!r} not in the source')
    i = src.rindex(old) if occ == -1 else src.index(old)
    open(os.path.join(mut, rel), 'w').write(src[:i] + new + src[i + len(old):])


def main():
    argv = sys.argv[1:]
    scratch = argv[argv.index('--scratch') + 1] if '--scratch' in argv else '/tmp/crossrun'
    jobs = int(argv[argv.index('--jobs') + 1]) if '--jobs' in argv else 6
    props = argv[argv.index('--props') + 1].split(',') if '--props' in argv else ALL
    skip = set()
    for flag in ('--scratch', '--jobs', '--props'):
        if flag in argv:
            skip |= {argv.index(flag), argv.index(flag) + 1}
    seeds = argv[argv.index('--seeds') + 1].split(',') if '--seeds' in argv else []
    if seeds:
        skip |= {argv.index('--seeds'), argv.index('--seeds') + 1}
    labels = [a for i, a in enumerate(argv) if i not in skip and not a.startswith('--')]
    if (not labels and not seeds) or labels == ['all']:
        labels = list(CHANGES)
    labels += seeds
    mut = os.path.join(scratch, 'mut')
    bad = 0
    table = []
    for lab in labels:
        if os.path.exists(mut):
            shutil.rmtree(mut)
        shutil.copytree(REPO, mut, ignore=shutil.ignore_patterns('.git'))
        if lab in CHANGES:
            rel, old, new, occ, owners, also, what = CHANGES[lab]
            apply_change(mut, rel, old, new, occ)
        else:
            meta = json.load(open(os.path.join(lab, 'meta.json')))
            owners, also, what = [meta.get('breaks') or meta.get('property')], [], 'seeded change ' + os.path.basename(lab.rstrip('/'))
            r = subprocess.run(['patch', '-s', '-p1', '--fuzz=3', '-i', os.path.abspath(os.path.join(lab, 'patch.diff'))], cwd=mut, capture_output=True, text=True)
            if r.returncode != 0:
                print(f'{lab}: patch does not apply: {r.stderr[:200]}')
                continue
            lab = os.path.basename(lab.rstrip('/'))
        res = cross(mut, props, scratch, jobs)
        alarms = [p for p in props if res[p][0] != 'OK']
        print(f'({lab}) {what}: owners {owners}; alarmed: {alarms}')
        for p in props:
            v, why, dt = res[p]
            tag = ''
            if v != 'OK' and p not in owners:
                tag = '   <<<< documented cross-alarm' if p in also else '   <<<< FALSE ALARM'
                bad += p not in also
            if v == 'OK' and p in owners:
                tag = '   <<<< OWNER SILENT'
                bad += 1
            if v != 'OK' or tag:
                print(f'    {p} {v} [{dt}s] {why}{tag}')
        table.append((lab, what, owners, {p: res[p][0] for p in props}))
        sys.stdout.flush()
        rc, out = restore_generated()
        if rc != 0:
            print('restore of the generated files failed:', out[-400:])
    if '--md' in argv:
        print('\n| change | ' + ' | '.join(p[1:] for p in props) + ' |')
        print('|---|' + '---|' * len(props))
        for lab, what, owners, verdicts in table:
            print(f'| ({lab}) {what} | ' + ' | '.join(('**V**' if verdicts[p] == 'VIOLATION' else 'v' if verdicts[p].startswith('VIOLATION') else
                                                      '.' if verdicts[p] == 'OK' else verdicts[p]) for p in props) + ' |')
    print('unexpected outcomes:', bad)
    sys.exit(1 if bad else 0)


if __name__ == '__main__':
    main()
