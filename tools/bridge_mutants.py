#!/venv/bin/python
"""Source mutants for the *bridge theorems* (generated definition = hand-written model): apply one textual change to a scratch
copy of the library, run `./check <prop> --tier quick` against it and report what the check printed.

    tools/bridge_mutants.py [PROP ...] [--scratch DIR] [--build-only] [--cross [--jobs N]]

Every entry below changes the decision logic that `py2lean/elements.py` (elements) or `py2lean/kernel.py` (the kernel, list `K`:
properties C01-C07, bridge theorems in `Props/KernelGen<owner>.lean`) translates, and names the property or properties that **own**
the changed code (`py2lean/SCOPE.md`; first component: one id or a tuple); the check of every owner must end in `VIOLATION` (the
bridge theorem no longer compiles, or the translator refuses the source).  `--cross` runs, for the entries marked in `CROSS` (a
sample of 12, to keep the run time reasonable), **all 20 checks** and asserts that the owners alarm and that no other check does,
except the ones listed there with the reason (a check whose own correspondence replays the changed behaviour).  Entries marked `harmless` change nothing a run can observe
(`8` vs `8.0`, commuted sums, renamed locals) and must end in `OK`.  The last run of every property is against the unmodified
library, so that `lean/OnlVerif/Generated/*.lean` is left as translated from the true source.
`--build-only` runs just the translator and `lake build OnlVerif.Props.<prop>` (C16's closed-loop harness can take very long
on a sink that under-acknowledges).
"""
import os, shutil, subprocess, sys, json

HERE = os.path.dirname(os.path.dirname(os.path.abspath(__file__)))
REPO = os.environ.get('ONL_REPO', '/repo')

RES, CONT, STORE, BASE, EVENTS, CORE = ('onl/sim/resources/resource.py', 'onl/sim/resources/container.py', 'onl/sim/resources/store.py',
                                         'onl/sim/resources/base.py', 'onl/sim/events.py', 'onl/sim/core.py')
PREEMPT_BODY = '''            preempt = sorted(self.users, key=lambda e: e.key)[-1]
            if preempt.key > event.key:
                self.users.remove(preempt)
                preempt.proc.interrupt(  # type: ignore
                    Preempted(
                        by=event.proc,
                        usage_since=preempt.usage_since,
                        resource=self,
                    )
                )'''

CPUT = '''    def _do_put(self, event: ContainerPut) -> bool:
        if self._capacity - self._level >= event.amount:
            self._level += event.amount
            event.succeed()
            return True
        else:
            return False'''

# kernel (C01-C07): the generated files are Generated/Kernel*.lean (one per class group x owner), the bridge theorems are in Props/KernelGen<owner>.lean.
# First component: the owning property, or a tuple when two properties' texts constrain the changed code (py2lean/SCOPE.md).
# An optional 7th component selects the occurrence of `old` (0 = first, -1 = last).
K = [
    # ---- C06: Resource / PriorityResource / PreemptiveResource
    ('C06', 'KernelRes6', RES, 'if len(self._users) < self.capacity:', 'if len(self._users) <= self.capacity:', 'VIOLATION'),
    ('C06', 'KernelRes6', RES, 'len(self.users) >= self.capacity and event.preempt', 'len(self.users) > self.capacity and event.preempt', 'VIOLATION'),
    ('C06', 'KernelRes6', RES, 'len(self.users) >= self.capacity and event.preempt', 'len(self.users) >= self.capacity', 'VIOLATION'),
    ('C06', 'KernelRes6', RES, 'if preempt.key > event.key:', 'if preempt.key >= event.key:', 'VIOLATION'),
    ('C06', 'KernelRes6', RES, 'if preempt.key > event.key:', 'if preempt.key < event.key:', 'VIOLATION'),
    ('C06', 'KernelRes6', RES, '(self.priority, self.time, not self.preempt)', '(self.priority, self.time)', 'VIOLATION'),
    ('C06', 'KernelRes6', RES, '(self.priority, self.time, not self.preempt)', '(self.priority, self.time, self.preempt)', 'VIOLATION'),
    ('C06', 'KernelRes6', RES, '(self.priority, self.time, not self.preempt)', '(self.time, self.priority, not self.preempt)', 'VIOLATION'),
    ('C06', 'KernelRes6', RES, '(self.priority, self.time, not self.preempt)', '(-self.priority, self.time, not self.preempt)', 'VIOLATION'),
    ('C06', 'KernelRes6', RES, '            event.usage_since = self._env.now\n', '', 'VIOLATION'),
    ('C06', 'KernelRes6', RES, '            self._users.append(event)\n            event.usage_since = self._env.now\n            event.succeed()',
     '            event.succeed()\n            self._users.append(event)\n            event.usage_since = self._env.now', 'VIOLATION'),
    ('C06', 'KernelRes6', RES, 'sorted(self.users, key=lambda e: e.key)[-1]', 'sorted(self.users, key=lambda e: e.key)[0]', 'VIOLATION'),
    ('C06', 'KernelRes6', RES, '        event.succeed()\n        return True\n\n\nclass PriorityRequest', '        event.succeed()\n        return False\n\n\nclass PriorityRequest', 'VIOLATION'),
    ('C06', 'KernelRes6', RES, 'super().sort(key=lambda e: e.key)', 'super().sort(key=lambda e: e.key, reverse=True)', 'VIOLATION'),
    (('C06', 'C07'), 'KernelCancel', BASE, '            if not proceed:\n                break', '            if proceed is None:\n                break', 'VIOLATION'),
    (('C06', 'C07'), 'KernelCancel', BASE, '            if not put_event.triggered:\n                idx += 1', '            if put_event.triggered:\n                idx += 1', 'VIOLATION'),
    (('C06', 'C07'), 'KernelCancel', BASE, 'self.callbacks.append(resource._trigger_get)', 'self.callbacks.append(resource._trigger_put)', 'VIOLATION'),
    ('C06', 'KernelRes6', RES, 'if len(self._users) < self.capacity:', 'if self.capacity > len(self._users):', 'OK'),
    ('C06', 'KernelRes6', RES, PREEMPT_BODY, PREEMPT_BODY.replace('preempt', 'victim').replace('event.victim', 'event.preempt'), 'OK'),
    ('C06', 'KernelRes6', RES, '    def _do_put(self, event: Request) -> bool:\n        if len', '    def _do_put(self, event: Request) -> bool:\n        # free slot?\n        if len', 'OK'),
    # ---- C07: Container / Store / PriorityStore / FilterStore / cancel
    ('C07', 'KernelRes7', CONT, 'if self._capacity - self._level >= event.amount:', 'if self._capacity - self._level > event.amount:', 'VIOLATION'),
    ('C07', 'KernelRes7', CONT, 'if self._level >= event.amount:', 'if self._level > event.amount:', 'VIOLATION'),
    ('C07', 'KernelRes7', CONT, 'if amount <= 0:', 'if amount < 0:', 'VIOLATION'),
    ('C07', 'KernelRes7', CONT, 'if amount <= 0:', 'if amount < 0:', 'VIOLATION', -1),
    ('C07', 'KernelRes7', CONT, 'self._level += event.amount', 'self._level = event.amount', 'VIOLATION'),
    ('C07', 'KernelRes7', CONT, 'self._level -= event.amount', 'self._level -= 1', 'VIOLATION'),
    ('C07', 'KernelRes7', CONT, '            self._level -= event.amount\n            event.succeed()', '            self._level -= event.amount', 'VIOLATION'),
    ('C07', 'KernelRes7', STORE, 'if len(self.items) < self._capacity:', 'if len(self.items) <= self._capacity:', 'VIOLATION'),
    ('C07', 'KernelRes7', STORE, 'if len(self.items) < self._capacity:', 'if len(self.items) <= self._capacity:', 'VIOLATION', -1),
    ('C07', 'KernelRes7', STORE, 'event.succeed(self.items.pop(0))', 'event.succeed(self.items.pop())', 'VIOLATION'),
    ('C07', 'KernelRes7', STORE, 'heappush(self.items, event.item)', 'self.items.append(event.item)', 'VIOLATION'),
    ('C07', 'KernelRes7', STORE, '                break\n        return True', '                break\n        return False', 'VIOLATION'),
    ('C07', 'KernelRes7', STORE, '                event.succeed(item)\n                break', '                event.succeed(item)', 'VIOLATION'),
    (('C06', 'C07'), 'KernelCancel', BASE, '            # satisfiable now; do not leave them stranded.\n            self.resource._trigger_put(None)',
     '            # satisfiable now; do not leave them stranded.', 'VIOLATION'),
    (('C06', 'C07'), 'KernelCancel', BASE, '            # satisfiable now; do not leave them stranded.\n            self.resource._trigger_get(None)',
     '            # satisfiable now; do not leave them stranded.\n            self.resource._trigger_put(None)', 'VIOLATION'),
    (('C06', 'C07'), 'KernelCancel', BASE, '        if not self.triggered:\n            self.resource.get_queue.remove(self)', '        if self.triggered:\n            self.resource.get_queue.remove(self)', 'VIOLATION'),
    ('C07', 'KernelRes7', CONT, 'if self._level >= event.amount:', 'if event.amount <= self._level:', 'OK'),
    ('C07', 'KernelRes7', CONT, CPUT, CPUT.replace('event', 'req'), 'OK'),
    ('C07', 'KernelRes7', STORE, '    def _do_get(self, event: StoreGet) -> bool:\n        if self.items:', '    def _do_get(self, evt: StoreGet) -> bool:\n        event = evt\n        if self.items:', 'VIOLATION'),
    # ---- C05: conditions
    ('C05', 'KernelCond', EVENTS, 'return len(events) == count', 'return len(events) <= count', 'VIOLATION'),
    ('C05', 'KernelCond', EVENTS, 'return count > 0 or len(events) == 0', 'return count >= 0 or len(events) == 0', 'VIOLATION'),
    ('C05', 'KernelCond', EVENTS, 'return count > 0 or len(events) == 0', 'return count > 0', 'VIOLATION'),
    ('C05', 'KernelCond', EVENTS, '        self._count += 1\n', '        self._count += 2\n', 'VIOLATION'),
    ('C05', 'KernelCond', EVENTS, '            event._defused = True\n            self.fail(event._value)', '            self.fail(event._value)', 'VIOLATION'),
    ('C05', 'KernelCond', EVENTS, '        if self._value is not PENDING:\n            return\n\n        self._count += 1', '        self._count += 1', 'VIOLATION'),
    ('C05', 'KernelCond', EVENTS, '        if not event._ok:\n            # Abort if the event has failed.', '        if event._ok:\n            # Abort if the event has failed.', 'VIOLATION'),
    ('C05', 'KernelCond', EVENTS, 'if self.env != event.env:', 'if self.env == event.env:', 'VIOLATION'),
    ('C05', 'KernelCond', EVENTS, '        if not self._events:\n            # Immediately succeed', '        if self._events is None:\n            # Immediately succeed', 'VIOLATION'),
    ('C05', 'KernelCond', EVENTS, 'super().__init__(env, Condition.all_events, events)', 'super().__init__(env, Condition.any_events, events)', 'VIOLATION'),
    ('C05', 'KernelCond', EVENTS, 'return count > 0 or len(events) == 0', 'return 0 < count or len(events) == 0', 'OK'),
    ('C05', 'KernelCond', EVENTS, 'return len(events) == count', 'return count == len(events)', 'OK'),
    # ---- C01: scheduling
    ('C01', 'KernelSched01', EVENTS, 'URGENT: EventPriority = EventPriority(0)', 'URGENT: EventPriority = EventPriority(2)', 'VIOLATION'),
    ('C01', 'KernelSched01', EVENTS, 'env.schedule(self, NORMAL, delay)', 'env.schedule(self, URGENT, delay)', 'VIOLATION'),
    ('C01', 'KernelSched01', EVENTS, 'env.schedule(self, NORMAL, delay)', 'env.schedule(self, NORMAL)', 'VIOLATION'),
    ('C01', 'KernelSched01', EVENTS, 'if delay < 0:', 'if delay <= 0:', 'VIOLATION'),
    ('C01', 'KernelSched01', CORE, '(self._now + delay, priority, next(self._eid), event)', '(self._now, priority, next(self._eid), event)', 'VIOLATION'),
    ('C01', 'KernelSched01', CORE, '(self._now + delay, priority, next(self._eid), event)', '(priority, self._now + delay, next(self._eid), event)', 'VIOLATION'),
    ('C01', 'KernelSched01', CORE, 'priority: EventPriority = NORMAL,', 'priority: EventPriority = URGENT,', 'VIOLATION'),
    ('C03', 'KernelRun03', CORE, 'if at <= self.now:', 'if at < self.now:', 'VIOLATION'),
    (('C03', 'C01'), 'KernelRun03', CORE, '(at, URGENT, next(self._eid), until)', '(at, NORMAL, next(self._eid), until)', 'VIOLATION'),
    ('C03', 'KernelRun03', CORE, '(at, URGENT, next(self._eid), until)', '(self._now + (at - self._now), URGENT, next(self._eid), until)', 'VIOLATION'),
    ('C02', 'KernelEvent02', EVENTS, "has already been triggered')\n\n        self._ok = True", "has already been triggered')\n\n        self._ok = False", 'VIOLATION'),
    ('C02', 'KernelEvent02', EVENTS, '        if self._value is not PENDING:\n            raise RuntimeError', '        if self._value is PENDING:\n            raise RuntimeError', 'VIOLATION'),
    ('C01', 'KernelSched01', EVENTS, '                self._value = e.args[0] if len(e.args) else None\n                self.env.schedule(self)',
     '                self._value = e.args[0] if len(e.args) else None\n                self.env.schedule(self, URGENT)', 'VIOLATION'),
    ('C02', 'KernelEvent02', CORE, "if not event._ok and not hasattr(event, '_defused'):", "if not event._ok or not hasattr(event, '_defused'):", 'VIOLATION'),
    ('C03', 'KernelRun03', CORE, 'if at <= self.now:', 'if self.now >= at:', 'OK'),
    ('C01', 'KernelSched01', EVENTS, 'if delay < 0:', 'if 0 > delay:', 'OK'),
    # ---- C04: interrupts, process start
    (('C04', 'C01'), 'KernelProc04', EVENTS, 'env.schedule(self, URGENT)', 'env.schedule(self, NORMAL)', 'VIOLATION'),
    (('C04', 'C01'), 'KernelProc04', EVENTS, 'self.env.schedule(self, URGENT)', 'self.env.schedule(self)', 'VIOLATION'),
    ('C04', 'KernelProc04', EVENTS, '        if process.triggered:\n            raise RuntimeError', '        if not process.triggered:\n            raise RuntimeError', 'VIOLATION'),
    ('C04', 'KernelProc04', EVENTS, 'if process is self.env.active_process:', 'if process is not self.env.active_process:', 'VIOLATION'),
    ('C04', 'KernelProc04', EVENTS, '        self._defused = True\n\n        if process.triggered:', '        if process.triggered:', 'VIOLATION'),
    ('C04', 'KernelProc04', EVENTS, '        self._ok = False\n        self._defused = True', '        self._ok = True\n        self._defused = True', 'VIOLATION'),
    ('C04', 'KernelProc04', EVENTS, '        Interruption(self, cause)', '        Interruption(self, None)', 'VIOLATION'),
]

M = [  # (property, generated file stem, source file, old, new, expected: 'VIOLATION' | 'OK')
    ('C09', 'Port', 'onl/netdev/port.py', 'byte_count > self.qlimit', 'byte_count >= self.qlimit', 'VIOLATION'),
    ('C09', 'Port', 'onl/netdev/port.py', 'self.qlimit - 1', 'self.qlimit', 'VIOLATION'),
    ('C09', 'Port', 'onl/netdev/port.py', 'len(self.store.items) >= self.qlimit - 1', 'len(self.store.items) > self.qlimit - 1', 'VIOLATION'),
    ('C09', 'Port', 'onl/netdev/port.py', 'self.packets_dropped += 1', 'self.packets_dropped += 2', 'VIOLATION'),
    ('C09', 'Port', 'onl/netdev/port.py', 'if self.element_id:', 'if not self.element_id:', 'VIOLATION'),
    ('C09', 'Port', 'onl/netdev/port.py', '            self.byte_size = byte_count\n            self.store.put(packet)\n            return',
     '            self.byte_size = byte_count\n            return', 'VIOLATION'),
    ('C09', 'Port', 'onl/netdev/port.py', 'packet.size * 8 / self.rate', 'packet.size * 4 / self.rate', 'VIOLATION'),
    ('C09', 'Port', 'onl/netdev/port.py', 'if self.rate > 0:', 'if self.rate >= 0:', 'VIOLATION'),
    ('C09', 'Port', 'onl/netdev/port.py', '            self.byte_size -= packet.size\n', '            self.byte_size -= packet.size - 1\n', 'VIOLATION'),
    ('C09', 'Port', 'onl/netdev/port.py', 'packet.size * 8 / self.rate', 'packet.size * 8.0 / self.rate', 'OK'),
    ('C09', 'Port', 'onl/netdev/port.py', 'packet.size * 8 / self.rate', '8 * packet.size / self.rate', 'OK'),
    ('C09', 'Port', 'onl/netdev/red_port.py', 'if rand <= self.max_probability:', 'if rand < self.max_probability:', 'VIOLATION'),
    ('C09', 'Port', 'onl/netdev/red_port.py', 'if rand <= self.max_probability:', 'if rand <= prob:', 'VIOLATION'),
    ('C09', 'Port', 'onl/netdev/red_port.py', '* self.max_probability\n            )', '* self.max_threshold\n            )', 'VIOLATION'),
    ('C09', 'Port', 'onl/netdev/red_port.py', 'elif self.average_queue_size >= self.min_threshold:', 'elif self.average_queue_size > self.min_threshold:', 'VIOLATION'),
    ('C09', 'Port', 'onl/netdev/red_port.py', 'alpha = 2 ** (-self.weight_factor)', 'alpha = 2 ** (-self.weight_factor - 1)', 'VIOLATION'),
    ('C09', 'Port', 'onl/netdev/red_port.py', 'self.average_queue_size * (1 - alpha) + current_queue_size * alpha',
     'self.average_queue_size * (1 - alpha) + current_queue_size', 'VIOLATION'),
    ('C09', 'Port', 'onl/netdev/red_port.py', 'self.average_queue_size * (1 - alpha) + current_queue_size * alpha',
     'current_queue_size * alpha + self.average_queue_size * (1 - alpha)', 'OK'),
    ('C10', 'Wire', 'onl/netdev/wire.py', 'if queued_time < delay:', 'if queued_time <= delay:', 'VIOLATION'),
    ('C10', 'Wire', 'onl/netdev/wire.py', 'yield env.timeout(delay - queued_time)', 'yield env.timeout(delay + queued_time)', 'VIOLATION'),
    ('C10', 'Wire', 'onl/netdev/wire.py', 'random.uniform(0, 1) >= self.loss_rate', 'random.uniform(0, 1) > self.loss_rate', 'VIOLATION'),
    ('C10', 'Wire', 'onl/netdev/wire.py', 'queued_time = self.env.now - packet.current_time', 'queued_time = packet.current_time - self.env.now', 'VIOLATION'),
    ('C10', 'Wire', 'onl/netdev/wire.py', '        packet.current_time = self.env.now\n', '        packet.current_time = 0\n', 'VIOLATION'),
    ('C11', 'Bucket', 'onl/netdev/token_bucket.py', 'if packet.size > self.current_bucket:', 'if packet.size >= self.current_bucket:', 'VIOLATION'),
    ('C11', 'Bucket', 'onl/netdev/token_bucket.py', '(now - self.update_time) / 8.0', '(now - self.update_time) / 8.5', 'VIOLATION'),
    ('C11', 'Bucket', 'onl/netdev/token_bucket.py', 'yield env.timeout(packet.size * 8.0 / self.peak)', 'yield env.timeout(packet.size * 8.0 / self.rate)', 'VIOLATION'),
    ('C11', 'Bucket', 'onl/netdev/token_bucket.py', '                self.current_bucket = 0.0', '                self.current_bucket = 1.0', 'VIOLATION'),
    ('C11', 'Bucket', 'onl/netdev/two_level_token_bucket.py', 'elif packet.size > self.current_bucket_commit:', 'elif packet.size >= self.current_bucket_commit:', 'VIOLATION'),
    ('C11', 'Bucket', 'onl/netdev/two_level_token_bucket.py', '                    self.current_bucket_peak = 0.0\n                    packet.color = "red"',
     '                    self.current_bucket_peak = 0.0\n                    packet.color = "yellow"', 'VIOLATION'),
    ('C11', 'Bucket', 'onl/netdev/two_level_token_bucket.py', '(packet.size - self.current_bucket_peak) * 8.0 / self.pir',
     '(packet.size - self.current_bucket_peak) * 8.0 / self.cir', 'VIOLATION'),
    ('C14', 'Sched', 'onl/scheduler/wfq.py', 'packet.size * 8.0 / (self.rate * self.weights[class_id])', 'packet.size * 8.0 / (self.rate + self.weights[class_id])', 'VIOLATION'),
    ('C14', 'Sched', 'onl/scheduler/wfq.py', 'if self.total_packets == 0:', 'if self.total_packets != 0:', 'VIOLATION'),
    ('C14', 'Sched', 'onl/scheduler/wfq.py', 'self.vtime += (now - self.last_time) / weight_sum', 'self.vtime += (now - self.last_time) * weight_sum', 'VIOLATION'),
    ('C14', 'Sched', 'onl/scheduler/wfq.py', '            self.finish_times[class_id] = 0.0', '            self.finish_times[class_id] = 1.0', 'VIOLATION'),
    ('C14', 'Sched', 'onl/scheduler/wfq.py', 'PriorityItem((self.finish_times[class_id], now), packet)', 'PriorityItem((self.vtime, now), packet)', 'VIOLATION'),
    ('C14', 'Sched', 'onl/scheduler/virtual_clock.py', 'if self.vc[class_id] == 0:', 'if self.vc[class_id] != 0:', 'VIOLATION'),
    ('C14', 'Sched', 'onl/scheduler/virtual_clock.py', 'self.aux_vc[class_id] = max(now, self.aux_vc[class_id])', 'self.aux_vc[class_id] = min(now, self.aux_vc[class_id])', 'VIOLATION'),
    ('C14', 'Sched', 'onl/scheduler/virtual_clock.py', 'self.vticks[class_id] * packet.size * 8.0', 'self.vticks[class_id] * packet.size * 8.5', 'VIOLATION'),
    ('C12', 'SchedTx', 'onl/scheduler/base.py', 'yield self.env.timeout(packet.size * 8.0 / self.rate)', 'yield self.env.timeout(packet.size * 8.0 / self.rate / 2)', 'VIOLATION'),
    ('C12', 'SchedTx', 'onl/scheduler/base.py', 'yield self.env.timeout(packet.size * 8.0 / self.rate)', 'yield self.env.timeout(packet.size * 8.5 / self.rate)', 'VIOLATION'),
    ('C12', 'SchedTx', 'onl/scheduler/base.py', 'yield self.env.timeout(packet.size * 8.0 / self.rate)', 'yield self.env.timeout(8 * packet.size / self.rate)', 'OK'),
    ('C15', 'Drr', 'onl/scheduler/drr.py', 'MIN_QUANTUM = 1500', 'MIN_QUANTUM = 1000', 'VIOLATION'),
    ('C15', 'Drr', 'onl/scheduler/drr.py', 'self.MIN_QUANTUM * weight / min_weight', 'self.MIN_QUANTUM * weight', 'VIOLATION'),
    ('C15', 'Drr', 'onl/scheduler/drr.py', 'if count > 0:', 'if count >= 0:', 'VIOLATION'),
    ('C15', 'Drr', 'onl/scheduler/drr.py', 'while self.deficit[class_id] > 0 and', 'while self.deficit[class_id] >= 0 and', 'VIOLATION'),
    ('C15', 'Drr', 'onl/scheduler/drr.py', 'self.deficit[class_id] -= packet.size', 'self.deficit[class_id] -= packet.size / 2', 'VIOLATION'),
    ('C16', 'Sink', 'onl/packet/tcp_sink.py', 'if merge_stats and start <= merge_stats[-1][1]:', 'if merge_stats and start < merge_stats[-1][1]:', 'VIOLATION'),
    ('C16', 'Sink', 'onl/packet/tcp_sink.py', 'merge_stats[-1][1] = max(merge_stats[-1][1], end)', 'merge_stats[-1][1] = min(merge_stats[-1][1], end)', 'VIOLATION'),
    ('C16', 'Sink', 'onl/packet/tcp_sink.py', 'if self.recv_buffer[0][0] == 0:', 'if self.recv_buffer[0][0] != 0:', 'VIOLATION'),
    ('C16', 'Sink', 'onl/packet/tcp_sink.py', 'flow_id=packet.flow_id + 10000', 'flow_id=packet.flow_id + 1000', 'VIOLATION'),
    ('C16', 'Sink', 'onl/packet/tcp_sink.py', 'acknowledgement.ack = self.next_seq_expected', 'acknowledgement.ack = self.next_seq_expected + 1', 'VIOLATION'),
] + K


def run(cmd, env, timeout, cwd=HERE):
    try:
        r = subprocess.run(cmd, cwd=cwd, env=env, capture_output=True, text=True, timeout=timeout)
        return r.returncode, r.stdout + r.stderr
    except subprocess.TimeoutExpired:
        return 124, 'TIMEOUT'


def owners_of(m):
    return (m[0],) if isinstance(m[0], str) else tuple(m[0])


# --cross: the entries (source file, old, new) for which all 20 checks are run, with the checks that may alarm besides the owners
# and why.  The kernel checks C01-C07 replay mixed script families against one kernel model, so a behavioural change in the kernel
# also shows in the correspondence of the kernel checks whose scripts exercise it (`py2lean/SCOPE.md`, "what still cross-alarms").
CROSS = {
    # -- only the owners alarm
    (EVENTS, 'return len(events) == count', 'return len(events) <= count'): (),
    (EVENTS, 'return count > 0 or len(events) == 0', 'return count > 0'): (),
    (CONT, 'if self._capacity - self._level >= event.amount:', 'if self._capacity - self._level > event.amount:'): (),
    (CONT, 'if self._level >= event.amount:', 'if self._level > event.amount:'): (),
    (RES, 'if len(self._users) < self.capacity:', 'if len(self._users) <= self.capacity:'): (),
    (RES, 'if preempt.key > event.key:', 'if preempt.key >= event.key:'): (),
    (BASE, '        if not self.triggered:\n            self.resource.get_queue.remove(self)', '        if self.triggered:\n            self.resource.get_queue.remove(self)'): (),
    ('onl/netdev/wire.py', 'if queued_time < delay:', 'if queued_time <= delay:'): (),
    ('onl/netdev/token_bucket.py', 'if packet.size > self.current_bucket:', 'if packet.size >= self.current_bucket:'): (),
    ('onl/packet/tcp_sink.py', 'flow_id=packet.flow_id + 10000', 'flow_id=packet.flow_id + 1000'): (),
    # -- C01 replays split runs too and its text names the run-until stop: its correspondence sees the changed refusal
    (CORE, 'if at <= self.now:', 'if at < self.now:'): ('C01',),
    # -- the end of a process becomes urgent (the class is C01's alone: C02's file does not translate the priority argument): every
    #    kernel check whose scripts let a process end in the same instant as another
    #    occurrence replays a different order (C04: its direct oracle fails too - an interrupt is overtaken; C03: `step()` plans count
    #    the reordered occurrences)
    (EVENTS, '                self._value = e.args[0] if len(e.args) else None\n                self.env.schedule(self)',
     '                self._value = e.args[0] if len(e.args) else None\n                self.env.schedule(self, URGENT)'): ('C02', 'C03', 'C04', 'C05', 'C06', 'C07', 'C20'),
    # -- interrupting anybody but oneself now raises: everything built on interrupts breaks for real (Timer.stop / restart: C19;
    #    preemption: C06, direct oracles fail) or is replayed differently (C01, C02, C05)
    (EVENTS, 'if process is self.env.active_process:', 'if process is not self.env.active_process:'): ('C01', 'C02', 'C03', 'C05', 'C06', 'C19', 'C20'),
    # -- the transmission time is part of every scheduler trace: C13 and C15 apply C12's service-time oracle to SP / RR / WRR / DRR,
    #    C14's replay compares the clock of WFQ / VirtualClock bit for bit
    ('onl/scheduler/base.py', 'yield self.env.timeout(packet.size * 8.0 / self.rate)', 'yield self.env.timeout(packet.size * 8.5 / self.rate)'): ('C13', 'C14', 'C15'),
    # -- a DRR class with an empty queue is visited: the multi-queue replay of C12 (which covers DRR) disagrees
    ('onl/scheduler/drr.py', 'if count > 0:', 'if count >= 0:'): ('C12',),
}


def apply_mutant(mut, m):
    _, stem, rel, old, new, want = m[:6]
    occ = m[6] if len(m) > 6 else 0
    src = open(os.path.join(REPO, rel)).read()
    if src.count(old) < 1:
        return False
    i = src.rindex(old) if (occ == -1 or (stem == 'Drr' and 'self.deficit[class_id] -= packet.size' in old)) else src.index(old)
    open(os.path.join(mut, rel), 'w').write(src[:i] + new + src[i + len(old):])
    return True


def main_cross(scratch, mut, jobs):
    sys.path.insert(0, os.path.join(HERE, 'tools'))
    import crossrun
    bad, n = 0, 0
    for m in M:
        key = (m[2], m[3], m[4])
        if key not in CROSS or m[5] != 'VIOLATION':
            continue
        if '--match' in sys.argv and sys.argv[sys.argv.index('--match') + 1] not in m[3]:
            continue
        n += 1
        also = set(CROSS[key])
        own = set(owners_of(m))
        if not apply_mutant(mut, m):
            print(f'SKIP {m[2]}: {m[3]!r} not in the source')
            bad += 1
            continue
        res = crossrun.cross(mut, crossrun.ALL, scratch, jobs)
        alarmed = {p for p, r in res.items() if r[0] != 'OK'}
        silent_owner = own - alarmed
        false_alarm = alarmed - own - also
        ok = not silent_owner and not false_alarm
        bad += not ok
        print(f'{m[2]}: {m[3][:50]!r} -> {m[4][:50]!r}: owners {sorted(own)}; alarmed {sorted(alarmed)}'
              + (f'; OWNER SILENT {sorted(silent_owner)}' if silent_owner else '') + (f'; FALSE ALARM {sorted(false_alarm)}' if false_alarm else '')
              + (f'; documented {sorted(alarmed & also)}' if alarmed & also else '') + ('' if ok else '   <<<< UNEXPECTED'))
        for p in sorted(alarmed - own):
            print(f'      {p}: {res[p][0]} {res[p][1][:200]}')
        sys.stdout.flush()
        shutil.copy(os.path.join(REPO, m[2]), os.path.join(mut, m[2]))
        crossrun.restore_generated()
    print(f'cross-run entries: {n}; unexpected outcomes: {bad}')
    sys.exit(1 if bad else 0)


def main():
    args = [a for a in sys.argv[1:] if not a.startswith('--')]
    build_only = '--build-only' in sys.argv
    scratch = sys.argv[sys.argv.index('--scratch') + 1] if '--scratch' in sys.argv else '/tmp/bridge_mut'
    jobs = int(sys.argv[sys.argv.index('--jobs') + 1]) if '--jobs' in sys.argv else 6
    args = [a for a in args if a != scratch and not a.isdigit() and a != (sys.argv[sys.argv.index('--match') + 1] if '--match' in sys.argv else None)]
    mut = os.path.join(scratch, 'repo')
    if os.path.exists(mut):
        shutil.rmtree(mut)
    shutil.copytree(REPO, mut, ignore=shutil.ignore_patterns('.git'))
    env = dict(os.environ, ONL_REPO=mut, VERIF_EVIDENCE_DIR=os.path.join(scratch, 'ev'), VERIF_REPLAY_DIR=os.path.join(scratch, 'replays'))
    if '--cross' in sys.argv:
        return main_cross(scratch, mut, jobs)
    sys.path.insert(0, HERE)
    from py2lean import scope
    bad = 0
    props = sorted({p for m in M for p in owners_of(m) if not args or p in args})
    for prop in props:
        for m in [m for m in M if prop in owners_of(m)]:
            _, stem, rel, old, new, want = m[:6]
            if not apply_mutant(mut, m):
                print(f'SKIP {prop} {rel}: {old!r} not in the source')
                bad += 1
                continue
            if build_only:
                penv = dict(env, PYTHONPATH=HERE + ':' + mut)
                only = tuple(scope.owned_by(prop)) + (('KernelObj',) if prop in scope.BRIDGE_MODULES else ())
                targets = [f'OnlVerif.Props.{prop}'] + list(scope.BRIDGE_MODULES.get(prop, ()))
                gen = ('from py2lean import translate, route\n' + ('route.regenerate()\n' if 'Route' in only else '')
                       + f'translate.regenerate_all(only={tuple(s_ for s_ in only if s_ != "Route")!r})')
                rc0, out0 = run(['/venv/bin/python', '-c', gen], penv, 300)
                rc1, out1 = run(['lake', 'build'] + targets, dict(env), 1800, os.path.join(HERE, 'lean')) if rc0 == 0 else (1, '')
                rc1 = rc1 if rc0 == 0 else 1
                got = 'OK' if (rc0 == 0 and rc1 == 0) else 'VIOLATION'
                detail = (out0.strip().splitlines() or [''])[-1][:200] if rc0 else ' | '.join(l for l in out1.splitlines() if l.startswith('error:'))[:200]
            else:
                rc, out = run(['./check', prop, '--tier', 'quick'], env, 900)
                lines = [l for l in out.splitlines() if l.startswith(('OK', 'VIOLATION', 'KNOWN'))]
                got = 'OK' if rc == 0 else ('VIOLATION' if rc == 1 else f'exit {rc}')
                try:
                    pp = json.load(open(os.path.join(scratch, 'ev', f'{prop}.json')))['coverage'].get('proof_problems', [])
                except Exception:
                    pp = []
                detail = (lines[0] if lines else out[-200:]) + (' ## ' + pp[0][:160].replace('\n', ' | ') if pp else '')
            flag = '' if got == want else '   <<<< UNEXPECTED'
            bad += got != want
            print(f'{prop} {rel}: {old[:60]!r} -> {new[:60]!r}: {got} (expected {want}){flag}\n      {detail}')
            sys.stdout.flush()
            shutil.copy(os.path.join(REPO, rel), os.path.join(mut, rel))
        # leave the generated files as translated from the true source
        if build_only:
            run(['/venv/bin/python', '-c', 'from py2lean import translate, route\ntranslate.regenerate_all()\nroute.regenerate()'],
                dict(os.environ, PYTHONPATH=HERE + ':' + REPO, ONL_REPO=REPO), 300)
        else:
            rc, out = run(['./check', prop, '--tier', 'quick'], dict(os.environ, VERIF_EVIDENCE_DIR=os.path.join(scratch, 'ev')), 900)
            print(f'{prop} unmodified library: ' + ([l for l in out.splitlines() if l.startswith(('OK', 'VIOLATION'))] or [out[-200:]])[0])
            bad += rc != 0
    print('unexpected outcomes:', bad)
    sys.exit(1 if bad else 0)


main()
