#!/venv/bin/python
"""Source mutants for the *bridge theorems* (generated definition = hand-written model): apply one textual change to a scratch
copy of the library, run `./check <prop> --tier quick` against it and report what the check printed.

    tools/bridge_mutants.py [PROP ...] [--scratch DIR] [--build-only]

Every entry below changes the decision logic that `py2lean/elements.py` translates; each must end in `VIOLATION` (the bridge
theorem no longer compiles, or the translator refuses the source).  Entries marked `harmless` change nothing a run can observe
(`8` vs `8.0`, commuted sums, renamed locals) and must end in `OK`.  The last run of every property is against the unmodified
library, so that `lean/OnlVerif/Generated/*.lean` is left as translated from the true source.
`--build-only` runs just the translator and `lake build OnlVerif.Props.<prop>` (C16's closed-loop harness can take very long
on a sink that under-acknowledges).
"""
import os, shutil, subprocess, sys, json

HERE = os.path.dirname(os.path.dirname(os.path.abspath(__file__)))
REPO = os.environ.get('ONL_REPO', '/repo')

M = [  # (property, generated file stem, source file, old, new, expected: 'VIOLATION' | 'OK')
    ('C09', 'Port', 'onl/netdev/port.py', 'byte_count > self.qlimit', 'byte_count >= self.qlimit', 'VIOLATION'),
    ('C09', 'Port', 'onl/netdev/port.py', 'self.qlimit - 1', 'self.qlimit', 'VIOLATION'),
    ('C09', 'Port', 'onl/netdev/port.py', 'len(self.store.items) >= self.qlimit - 1', 'len(self.store.items) > self.qlimit - 1', 'VIOLATION'),
    ('C09', 'Port', 'onl/netdev/port.py', 'self.packets_dropped += 1', 'self.packets_dropped += 2', 'VIOLATION'),
    ('C09', 'Port', 'onl/netdev/port.py', 'if self.element_id:', 'if not self.element_id:', 'VIOLATION'),
    ('C09', 'Port', 'onl/netdev/port.py', '            self.byte_size = byte_count\n            self.store.put(packet)\n            return',
     '            self.byte_size = byte_count\n            return', 'VIOLATION'),
    ('C09', 'Port', 'onl/netdev/port.py', 'packet.size * 8 / self.rate', 'packet.size * 4 / self.rate', 'VIOLATION'),
    ('C09', 'Port', 'onl/netdev/port.py', 'if self.rate > 0:', 'if self.rate >= 0:', 'VIOLATION'),
    ('C09', 'Port', 'onl/netdev/port.py', '            self.byte_size -= packet.size\n', '            self.byte_size -= packet.size - 1\n', 'VIOLATION'),
    ('C09', 'Port', 'onl/netdev/port.py', 'packet.size * 8 / self.rate', 'packet.size * 8.0 / self.rate', 'OK'),
    ('C09', 'Port', 'onl/netdev/port.py', 'packet.size * 8 / self.rate', '8 * packet.size / self.rate', 'OK'),
    ('C09', 'Port', 'onl/netdev/red_port.py', 'if rand <= self.max_probability:', 'if rand < self.max_probability:', 'VIOLATION'),
    ('C09', 'Port', 'onl/netdev/red_port.py', 'if rand <= self.max_probability:', 'if rand <= prob:', 'VIOLATION'),
    ('C09', 'Port', 'onl/netdev/red_port.py', '* self.max_probability\n            )', '* self.max_threshold\n            )', 'VIOLATION'),
    ('C09', 'Port', 'onl/netdev/red_port.py', 'elif self.average_queue_size >= self.min_threshold:', 'elif self.average_queue_size > self.min_threshold:', 'VIOLATION'),
    ('C09', 'Port', 'onl/netdev/red_port.py', 'alpha = 2 ** (-self.weight_factor)', 'alpha = 2 ** (-self.weight_factor - 1)', 'VIOLATION'),
    ('C09', 'Port', 'onl/netdev/red_port.py', 'self.average_queue_size * (1 - alpha) + current_queue_size * alpha',
     'self.average_queue_size * (1 - alpha) + current_queue_size', 'VIOLATION'),
    ('C09', 'Port', 'onl/netdev/red_port.py', 'self.average_queue_size * (1 - alpha) + current_queue_size * alpha',
     'current_queue_size * alpha + self.average_queue_size * (1 - alpha)', 'OK'),
    ('C10', 'Wire', 'onl/netdev/wire.py', 'if queued_time < delay:', 'if queued_time <= delay:', 'VIOLATION'),
    ('C10', 'Wire', 'onl/netdev/wire.py', 'yield env.timeout(delay - queued_time)', 'yield env.timeout(delay + queued_time)', 'VIOLATION'),
    ('C10', 'Wire', 'onl/netdev/wire.py', 'random.uniform(0, 1) >= self.loss_rate', 'random.uniform(0, 1) > self.loss_rate', 'VIOLATION'),
    ('C10', 'Wire', 'onl/netdev/wire.py', 'queued_time = self.env.now - packet.current_time', 'queued_time = packet.current_time - self.env.now', 'VIOLATION'),
    ('C10', 'Wire', 'onl/netdev/wire.py', '        packet.current_time = self.env.now\n', '        packet.current_time = 0\n', 'VIOLATION'),
    ('C11', 'Bucket', 'onl/netdev/token_bucket.py', 'if packet.size > self.current_bucket:', 'if packet.size >= self.current_bucket:', 'VIOLATION'),
    ('C11', 'Bucket', 'onl/netdev/token_bucket.py', '(now - self.update_time) / 8.0', '(now - self.update_time) / 8.5', 'VIOLATION'),
    ('C11', 'Bucket', 'onl/netdev/token_bucket.py', 'yield env.timeout(packet.size * 8.0 / self.peak)', 'yield env.timeout(packet.size * 8.0 / self.rate)', 'VIOLATION'),
    ('C11', 'Bucket', 'onl/netdev/token_bucket.py', '                self.current_bucket = 0.0', '                self.current_bucket = 1.0', 'VIOLATION'),
    ('C11', 'Bucket', 'onl/netdev/two_level_token_bucket.py', 'elif packet.size > self.current_bucket_commit:', 'elif packet.size >= self.current_bucket_commit:', 'VIOLATION'),
    ('C11', 'Bucket', 'onl/netdev/two_level_token_bucket.py', '                    self.current_bucket_peak = 0.0\n                    packet.color = "red"',
     '                    self.current_bucket_peak = 0.0\n                    packet.color = "yellow"', 'VIOLATION'),
    ('C11', 'Bucket', 'onl/netdev/two_level_token_bucket.py', '(packet.size - self.current_bucket_peak) * 8.0 / self.pir',
     '(packet.size - self.current_bucket_peak) * 8.0 / self.cir', 'VIOLATION'),
    ('C14', 'Sched', 'onl/scheduler/wfq.py', 'packet.size * 8.0 / (self.rate * self.weights[class_id])', 'packet.size * 8.0 / (self.rate + self.weights[class_id])', 'VIOLATION'),
    ('C14', 'Sched', 'onl/scheduler/wfq.py', 'if self.total_packets == 0:', 'if self.total_packets != 0:', 'VIOLATION'),
    ('C14', 'Sched', 'onl/scheduler/wfq.py', 'self.vtime += (now - self.last_time) / weight_sum', 'self.vtime += (now - self.last_time) * weight_sum', 'VIOLATION'),
    ('C14', 'Sched', 'onl/scheduler/wfq.py', '            self.finish_times[class_id] = 0.0', '            self.finish_times[class_id] = 1.0', 'VIOLATION'),
    ('C14', 'Sched', 'onl/scheduler/wfq.py', 'PriorityItem((self.finish_times[class_id], now), packet)', 'PriorityItem((self.vtime, now), packet)', 'VIOLATION'),
    ('C14', 'Sched', 'onl/scheduler/virtual_clock.py', 'if self.vc[class_id] == 0:', 'if self.vc[class_id] != 0:', 'VIOLATION'),
    ('C14', 'Sched', 'onl/scheduler/virtual_clock.py', 'self.aux_vc[class_id] = max(now, self.aux_vc[class_id])', 'self.aux_vc[class_id] = min(now, self.aux_vc[class_id])', 'VIOLATION'),
    ('C14', 'Sched', 'onl/scheduler/virtual_clock.py', 'self.vticks[class_id] * packet.size * 8.0', 'self.vticks[class_id] * packet.size * 8.5', 'VIOLATION'),
    ('C14', 'Sched', 'onl/scheduler/base.py', 'yield self.env.timeout(packet.size * 8.0 / self.rate)', 'yield self.env.timeout(packet.size * 8.0 / self.rate / 2)', 'VIOLATION'),
    ('C15', 'Drr', 'onl/scheduler/drr.py', 'MIN_QUANTUM = 1500', 'MIN_QUANTUM = 1000', 'VIOLATION'),
    ('C15', 'Drr', 'onl/scheduler/drr.py', 'self.MIN_QUANTUM * weight / min_weight', 'self.MIN_QUANTUM * weight', 'VIOLATION'),
    ('C15', 'Drr', 'onl/scheduler/drr.py', 'if count > 0:', 'if count >= 0:', 'VIOLATION'),
    ('C15', 'Drr', 'onl/scheduler/drr.py', 'while self.deficit[class_id] > 0 and', 'while self.deficit[class_id] >= 0 and', 'VIOLATION'),
    ('C15', 'Drr', 'onl/scheduler/drr.py', 'self.deficit[class_id] -= packet.size', 'self.deficit[class_id] -= packet.size / 2', 'VIOLATION'),
    ('C16', 'Sink', 'onl/packet/tcp_sink.py', 'if merge_stats and start <= merge_stats[-1][1]:', 'if merge_stats and start < merge_stats[-1][1]:', 'VIOLATION'),
    ('C16', 'Sink', 'onl/packet/tcp_sink.py', 'merge_stats[-1][1] = max(merge_stats[-1][1], end)', 'merge_stats[-1][1] = min(merge_stats[-1][1], end)', 'VIOLATION'),
    ('C16', 'Sink', 'onl/packet/tcp_sink.py', 'if self.recv_buffer[0][0] == 0:', 'if self.recv_buffer[0][0] != 0:', 'VIOLATION'),
    ('C16', 'Sink', 'onl/packet/tcp_sink.py', 'flow_id=packet.flow_id + 10000', 'flow_id=packet.flow_id + 1000', 'VIOLATION'),
    ('C16', 'Sink', 'onl/packet/tcp_sink.py', 'acknowledgement.ack = self.next_seq_expected', 'acknowledgement.ack = self.next_seq_expected + 1', 'VIOLATION'),
]


def run(cmd, env, timeout, cwd=HERE):
    try:
        r = subprocess.run(cmd, cwd=cwd, env=env, capture_output=True, text=True, timeout=timeout)
        return r.returncode, r.stdout + r.stderr
    except subprocess.TimeoutExpired:
        return 124, 'TIMEOUT'


def main():
    args = [a for a in sys.argv[1:] if not a.startswith('--')]
    build_only = '--build-only' in sys.argv
    scratch = sys.argv[sys.argv.index('--scratch') + 1] if '--scratch' in sys.argv else '/tmp/bridge_mut'
    args = [a for a in args if a != scratch]
    mut = os.path.join(scratch, 'repo')
    if os.path.exists(mut):
        shutil.rmtree(mut)
    shutil.copytree(REPO, mut, ignore=shutil.ignore_patterns('.git'))
    env = dict(os.environ, ONL_REPO=mut, VERIF_EVIDENCE_DIR=os.path.join(scratch, 'ev'), VERIF_REPLAY_DIR=os.path.join(scratch, 'replays'))
    bad = 0
    props = sorted({m[0] for m in M if not args or m[0] in args})
    for prop in props:
        for _, stem, rel, old, new, want in [m for m in M if m[0] == prop]:
            src = open(os.path.join(REPO, rel)).read()
            if src.count(old) < 1:
                print(f'SKIP {prop} {rel}: {old!r} not in the source')
                continue
            i = src.rindex(old) if (prop == 'C15' and 'self.deficit[class_id] -= packet.size' in old) else src.index(old)
            open(os.path.join(mut, rel), 'w').write(src[:i] + new + src[i + len(old):])
            if build_only:
                penv = dict(env, PYTHONPATH=HERE + ':' + mut)
                rc0, out0 = run(['/venv/bin/python', '-c', f'from py2lean import translate\ntranslate.regenerate_all(only=({stem!r},))'], penv, 300)
                rc1, out1 = run(['lake', 'build', f'OnlVerif.Props.{prop}'], dict(env), 1800, os.path.join(HERE, 'lean')) if rc0 == 0 else (1, '')
                rc1 = rc1 if rc0 == 0 else 1
                got = 'OK' if (rc0 == 0 and rc1 == 0) else 'VIOLATION'
                detail = (out0.strip().splitlines() or [''])[-1][:200] if rc0 else ' | '.join(l for l in out1.splitlines() if l.startswith('error:'))[:200]
            else:
                rc, out = run(['./check', prop, '--tier', 'quick'], env, 900)
                lines = [l for l in out.splitlines() if l.startswith(('OK', 'VIOLATION', 'KNOWN'))]
                got = 'OK' if rc == 0 else ('VIOLATION' if rc == 1 else f'exit {rc}')
                try:
                    pp = json.load(open(os.path.join(scratch, 'ev', f'{prop}.json')))['coverage'].get('proof_problems', [])
                except Exception:
                    pp = []
                detail = (lines[0] if lines else out[-200:]) + (' ## ' + pp[0][:160].replace('\n', ' | ') if pp else '')
            flag = '' if got == want else '   <<<< UNEXPECTED'
            bad += got != want
            print(f'{prop} {rel}: {old[:60]!r} -> {new[:60]!r}: {got} (expected {want}){flag}\n      {detail}')
            shutil.copy(os.path.join(REPO, rel), os.path.join(mut, rel))
        # leave the generated files as translated from the true source
        if build_only:
            run(['/venv/bin/python', '-c', 'from py2lean import translate\ntranslate.regenerate_all()'],
                dict(os.environ, PYTHONPATH=HERE + ':' + REPO), 300)
        else:
            rc, out = run(['./check', prop, '--tier', 'quick'], dict(os.environ, VERIF_EVIDENCE_DIR=os.path.join(scratch, 'ev')), 900)
            print(f'{prop} unmodified library: ' + ([l for l in out.splitlines() if l.startswith(('OK', 'VIOLATION'))] or [out[-200:]])[0])
            bad += rc != 0
    print('unexpected outcomes:', bad)
    sys.exit(1 if bad else 0)


main()
