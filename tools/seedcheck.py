#!/venv/bin/python
"""tools/seedcheck.py <mutation dir> [<property> ...]
Confirms a seeded change (patch.diff + demo.py + meta.json) in a scratch copy of /repo and runs the named checks
(default: the property in meta.json) against it.  Prints one summary line per step; never touches /repo."""
import json, os, shutil, subprocess, sys, tempfile

def sh(cmd, cwd=None, env=None, timeout=3600):
    e = dict(os.environ); e.update(env or {})
    r = subprocess.run(cmd, cwd=cwd, env=e, capture_output=True, text=True, timeout=timeout)
    return r.returncode, (r.stdout + r.stderr)

def main():
    d = os.path.abspath(sys.argv[1])
    meta = json.load(open(os.path.join(d, 'meta.json'))) if os.path.exists(os.path.join(d, 'meta.json')) else {}
    props = sys.argv[2:] or [meta.get('property') or meta.get('breaks')]
    tmp = tempfile.mkdtemp(prefix='seedrepo.')
    res = {}
    try:
        subprocess.run(['cp', '-r', '/repo/.', tmp], check=True)
        env0 = {'PYTHONPATH': tmp}
        rc, out = sh(['/venv/bin/python', os.path.join(d, 'demo.py')], cwd=tmp, env=env0, timeout=600)
        res['demo_on_original'] = rc
        rc, out = sh(['git', 'apply', os.path.join(d, 'patch.diff')], cwd=tmp)
        if rc != 0:
            rc, out = sh(['patch', '-s', '-p1', '--fuzz=3', '-i', os.path.join(d, 'patch.diff')], cwd=tmp)
        res['patch_applies'] = rc == 0
        rc, out = sh(['/venv/bin/python', os.path.join(d, 'demo.py')], cwd=tmp, env=env0, timeout=600)
        res['demo_on_mutant'] = rc
        res['demo_msg'] = out.strip().splitlines()[-1][:200] if out.strip() else ''
        rc, out = sh(['/venv/bin/python', '-m', 'pytest', '-q', '-p', 'no:cacheprovider', '-x'], cwd=tmp, env=env0, timeout=900)
        res['tests'] = out.strip().splitlines()[-1] if out.strip() else ''
        # the checks run from a private copy of /verif: `prepare` rewrites lean/OnlVerif/Generated/*.lean from the (changed)
        # source and rebuilds the driver, which must not disturb /verif or a seed checked at the same time
        vcopy = tmp + '/.verif'
        subprocess.run(['rsync', '-a', '--exclude', '.git', '--exclude', 'replays', '--exclude', 'seeded', '/verif/', vcopy + '/'], check=True)
        for p in props:
            rc, out = sh([vcopy + '/check', p], cwd=vcopy, env={'ONL_REPO': tmp, 'VERIF_EVIDENCE_DIR': tmp + '/.evidence', 'VERIF_REPLAY_DIR': 'replays/mutants'}, timeout=3000)
            lines = [l for l in out.splitlines() if l.startswith(('VIOLATION', 'OK ', 'KNOWN'))]
            res[f'check_{p}'] = {'exit': rc, 'lines': lines[:3]}
    finally:
        shutil.rmtree(tmp, ignore_errors=True)
    print(json.dumps(res, indent=1))

main()
