#!/bin/bash
# tools/mutrun.sh <fix-commit-to-revert | patch-file> <command...>
# runs <command> with ONL_REPO pointing at a scratch copy of /repo in which the commit is reverted / the patch applied
set -e
what="$1"; shift
d=$(mktemp -d /tmp/mutrepo.XXXXXX)
cp -r /repo/. "$d"/
if [ -f "$what" ]; then (cd "$d" && patch -s -p1 --fuzz=3 < "$what"); else (cd "$d" && git show "$what" | patch -s -R -p1 --fuzz=3); fi
set +e
ONL_REPO="$d" PYTHONPATH="/verif:$d" VERIF_EVIDENCE_DIR="$d/.evidence" VERIF_REPLAY_DIR="replays/mutants" "$@"
rc=$?
rm -rf "$d"
exit $rc
