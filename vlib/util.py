"""Small helpers shared by all harnesses."""
import os, struct, subprocess, sys, json, time, fcntl, contextlib

VERIF = os.path.dirname(os.path.dirname(os.path.abspath(__file__)))
LEAN = os.path.join(VERIF, 'lean')
DRIVER = os.path.join(LEAN, '.lake', 'build', 'bin', 'driver')
REPO = os.environ.get('ONL_REPO', '/repo')


def bits(x) -> int:
    """canonical external form of a float: its IEEE-754 bit pattern"""
    return struct.unpack('<Q', struct.pack('<d', float(x)))[0]


def unbits(n: int) -> float:
    return struct.unpack('<d', struct.pack('<Q', int(n)))[0]


def run_driver(mode: str, text: str, timeout: float = 600) -> list:
    """pipe `text` through the compiled Lean driver, return its output lines"""
    r = subprocess.run([DRIVER, mode], input=text, capture_output=True, text=True, timeout=timeout)
    if r.returncode != 0:
        raise RuntimeError(f'driver {mode} failed ({r.returncode}): {r.stderr[:2000]}')
    return r.stdout.splitlines()


def split_cases(lines):
    """split an output stream into {case id: [lines]} using CASE/ENDCASE markers"""
    out, cur, cid = {}, None, None
    for l in lines:
        if l.startswith('CASE '):
            cid = l.split()[1]; cur = []
        elif l == 'ENDCASE':
            if cid is not None:
                out[cid] = cur
            cid, cur = None, None
        elif cur is not None:
            cur.append(l)
    return out


@contextlib.contextmanager
def quiet():
    """silence prints of the library (SP prints every packet, FIBDemux prints lookup misses)"""
    old = sys.stdout
    sys.stdout = open(os.devnull, 'w')
    try:
        yield
    finally:
        sys.stdout.close()
        sys.stdout = old


# ---- legs of a correspondence that must not take the whole run down -------------------------------------------------
# A check's run(ctx) consists of a main evaluation and of additional legs (the device-on-kernel replays, the network replay).  A leg
# that raises on a changed library (its parser meets output it has never seen) would otherwise lose the failing inputs the main
# evaluation has already found: the exception is recorded here instead, the leg returns a neutral result, and the framework adds
# one correspondence disagreement per crashed leg (so that the check still reports, with `no-failing-input-found` if nothing else did).
LEG_CRASHES = []


class LegBudget(BaseException):
    """a leg used up its CPU budget (BaseException: harness code around library calls catches Exception)"""


def guarded_leg(default=None):
    """see above; in addition a leg gets a CPU budget of its own (VERIF_LEG_CPU_BUDGET seconds of this process's user time, default 300
    quick / 3000 thorough - the legs need a few seconds resp. a few minutes on the unchanged library): a changed library on which a
    device spins or starves would otherwise keep the leg busy until the budget of the whole run is gone"""
    def deco(fn):
        import functools, traceback, signal, os

        @functools.wraps(fn)
        def w(*a, **k):
            budget = float(os.environ.get('VERIF_LEG_CPU_BUDGET', '300' if os.environ.get('VERIF_TIER', 'quick') == 'quick' else '3000'))
            try:
                old_left, _ = signal.getitimer(signal.ITIMER_VIRTUAL)
                old_h = signal.getsignal(signal.SIGVTALRM)
                nest = True
            except (ValueError, OSError):
                nest = False
            t0 = os.times().user

            def on_leg(sig, frm):
                raise LegBudget(f'the `{fn.__name__}` leg used more than {budget:.0f} s of CPU')
            try:
                if nest:
                    signal.signal(signal.SIGVTALRM, on_leg)
                    signal.setitimer(signal.ITIMER_VIRTUAL, budget, 5.0)
                return fn(*a, **k)
            except (Exception, LegBudget):
                LEG_CRASHES.append({'leg': fn.__name__, 'traceback': traceback.format_exc()[-1800:]})
                return default() if callable(default) else default
            finally:
                if nest:
                    signal.setitimer(signal.ITIMER_VIRTUAL, 0)
                    signal.signal(signal.SIGVTALRM, old_h if old_h is not None else signal.SIG_DFL)
                    if old_left > 0:           # the budget of the whole run goes on, less what this leg used
                        signal.setitimer(signal.ITIMER_VIRTUAL, max(old_left - (os.times().user - t0), 1.0), 5.0)
        return w
    return deco
