"""Small helpers shared by all harnesses."""
import os, struct, subprocess, sys, json, time, fcntl, contextlib

VERIF = os.path.dirname(os.path.dirname(os.path.abspath(__file__)))
LEAN = os.path.join(VERIF, 'lean')
DRIVER = os.path.join(LEAN, '.lake', 'build', 'bin', 'driver')
REPO = os.environ.get('ONL_REPO', '/repo')


def bits(x) -> int:
    """canonical external form of a float: its IEEE-754 bit pattern"""
    return struct.unpack('<Q', struct.pack('<d', float(x)))[0]


def unbits(n: int) -> float:
    return struct.unpack('<d', struct.pack('<Q', int(n)))[0]


def run_driver(mode: str, text: str, timeout: float = 600) -> list:
    """pipe `text` through the compiled Lean driver, return its output lines"""
    r = subprocess.run([DRIVER, mode], input=text, capture_output=True, text=True, timeout=timeout)
    if r.returncode != 0:
        raise RuntimeError(f'driver {mode} failed ({r.returncode}): {r.stderr[:2000]}')
    return r.stdout.splitlines()


def split_cases(lines):
    """split an output stream into {case id: [lines]} using CASE/ENDCASE markers"""
    out, cur, cid = {}, None, None
    for l in lines:
        if l.startswith('CASE '):
            cid = l.split()[1]; cur = []
        elif l == 'ENDCASE':
            if cid is not None:
                out[cid] = cur
            cid, cur = None, None
        elif cur is not None:
            cur.append(l)
    return out


@contextlib.contextmanager
def quiet():
    """silence prints of the library (SP prints every packet, FIBDemux prints lookup misses)"""
    old = sys.stdout
    sys.stdout = open(os.devnull, 'w')
    try:
        yield
    finally:
        sys.stdout.close()
        sys.stdout = old
