"""Small helpers shared by all harnesses."""
import os, struct, subprocess, sys, json, time, fcntl, contextlib

VERIF = os.path.dirname(os.path.dirname(os.path.abspath(__file__)))
LEAN = os.path.join(VERIF, 'lean')
DRIVER = os.path.join(LEAN, '.lake', 'build', 'bin', 'driver')
REPO = os.environ.get('ONL_REPO', '/repo')


def bits(x) -> int:
    """canonical external form of a float: its IEEE-754 bit pattern"""
    return struct.unpack('<Q', struct.pack('<d', float(x)))[0]


def unbits(n: int) -> float:
    return struct.unpack('<d', struct.pack('<Q', int(n)))[0]


def run_driver(mode: str, text: str, timeout: float = 600) -> list:
    """pipe `text` through the compiled Lean driver, return its output lines"""
    r = subprocess.run([DRIVER, mode], input=text, capture_output=True, text=True, timeout=timeout)
    if r.returncode != 0:
        raise RuntimeError(f'driver {mode} failed ({r.returncode}): {r.stderr[:2000]}')
    return r.stdout.splitlines()


def split_cases(lines):
    """split an output stream into {case id: [lines]} using CASE/ENDCASE markers"""
    out, cur, cid = {}, None, None
    for l in lines:
        if l.startswith('CASE '):
            cid = l.split()[1]; cur = []
        elif l == 'ENDCASE':
            if cid is not None:
                out[cid] = cur
            cid, cur = None, None
        elif cur is not None:
            cur.append(l)
    return out


@contextlib.contextmanager
def quiet():
    """silence prints of the library (SP prints every packet, FIBDemux prints lookup misses)"""
    old = sys.stdout
    sys.stdout = open(os.devnull, 'w')
    try:
        yield
    finally:
        sys.stdout.close()
        sys.stdout = old


# ---- legs of a correspondence that must not take the whole run down -------------------------------------------------
# A check's run(ctx) consists of a main evaluation and of additional legs (the device-on-kernel replays, the network replay).  A leg
# that raises on a changed library (its parser meets output it has never seen) would otherwise lose the failing inputs the main
# evaluation has already found: the exception is recorded here instead, the leg returns a neutral result, and the framework adds
# one correspondence disagreement per crashed leg (so that the check still reports, with `no-failing-input-found` if nothing else did).
LEG_CRASHES = []


def guarded_leg(default=None):
    def deco(fn):
        import functools, traceback

        @functools.wraps(fn)
        def w(*a, **k):
            try:
                return fn(*a, **k)
            except Exception:
                LEG_CRASHES.append({'leg': fn.__name__, 'traceback': traceback.format_exc()[-1800:]})
                return default() if callable(default) else default
        return w
    return deco
