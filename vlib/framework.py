"""The check framework: proof obligations (lake build + axiom audit), correspondence, failing-input
search, known findings, evidence.  One entry point: `run_check(prop, tier, seed, replay)`.

Exit codes: 0 = property held on everything explored (KNOWN-FINDING lines allowed),
            1 = `VIOLATION property=<id> replay=<path>[ no-failing-input-found]` printed,
            2 = infrastructure failure (never silently 0).
"""
import fcntl, glob, importlib, json, os, re, subprocess, sys, time, traceback
from vlib.util import VERIF, LEAN, DRIVER, REPO

ALLOWED_AXIOMS = {'propext', 'Classical.choice', 'Quot.sound'}
FORBIDDEN = re.compile(r'\bsorry\b|\badmit\b|^axiom\s|native_decide|bv_decide|implemented_by|\bunsafe\s|maxHeartbeats\s+0')

TRUSTED_BASE = [
    'Lean 4.33 kernel (thorough tier re-checks the compiled modules with leanchecker)',
    'axioms allowed in property theorems: propext, Classical.choice, Quot.sound (audited by #print axioms on every run)',
    'correspondence harness: script interpreter / taps / canonicalisation / diff (harness/, vlib/), the compiled driver glue',
    'py2lean translator for the generated definitions (cross-checked: generated functions are also executed against the implementation)',
    'CPython generator semantics, heapq, list.sort stability, dict insertion order, random, networkx',
    'IEEE-754 agreement of CPython float and Lean Float for + - * / < (re-confirmed bit for bit by every replay)',
    'modelled, not verified: floating-point rounding (theorems are over exact rationals), RNG distribution, hash seeds, wall clock',
]


class HarnessBudget(BaseException):
    """raised by the CPU-time safety net of run_check (BaseException: harness code that catches Exception lets it through)"""


class Lock:
    """serialise lake invocations (several checks may run at once); re-entrant within a process, so that a check can hold it from
    the regeneration of its generated files to the end of its build (another check's fallback to pinned copies cannot interleave)"""
    _depth = 0
    _f = None

    def __enter__(self):
        if Lock._depth == 0:
            Lock._f = open(os.path.join(LEAN, '.lake.lock.verif'), 'w')
            fcntl.flock(Lock._f, fcntl.LOCK_EX)
        Lock._depth += 1
        return self

    def __exit__(self, *a):
        Lock._depth -= 1
        if Lock._depth == 0:
            fcntl.flock(Lock._f, fcntl.LOCK_UN)
            Lock._f.close()
            Lock._f = None


def sh(cmd, cwd=None, timeout=3600, env=None):
    e = dict(os.environ)
    if env:
        e.update(env)
    r = subprocess.run(cmd, cwd=cwd, capture_output=True, text=True, timeout=timeout, env=e)
    return r.returncode, r.stdout + r.stderr


def lake_build(targets, timeout=3000):
    with Lock():
        rc, out = sh(['lake', 'build'] + list(targets), cwd=LEAN, timeout=timeout)
    return rc == 0, out


def theorems_of(prop):
    """names of the property theorems in Props/<prop>.lean (declarations `theorem <name>`); `prop` may also be a module
    name `OnlVerif.Props.X` (extra property modules of a check, e.g. the kernel-refinement theorems Props/C09K)"""
    if prop.startswith('OnlVerif.'):
        path = os.path.join(LEAN, *prop.split('.')) + '.lean'
    else:
        path = os.path.join(LEAN, 'OnlVerif', 'Props', f'{prop}.lean')
    if not os.path.exists(path):
        return []
    src = open(path).read()
    ns = re.search(r'^namespace\s+(\S+)', src, re.M)
    pre = (ns.group(1) + '.') if ns else ''
    return [pre + m.group(1) for m in re.finditer(r'^theorem\s+([A-Za-z0-9_\.\']+)', src, re.M)]


def forbidden_hits():
    hits = []
    for path in glob.glob(os.path.join(LEAN, '**', '*.lean'), recursive=True):
        if '/.lake/' in path or os.path.basename(path).startswith('.audit_'):
            continue
        incomment = 0
        try:
            text = open(path).read().splitlines(True)
        except FileNotFoundError:      # a temporary file of a concurrent check
            continue
        for n, line in enumerate(text, 1):
            code = line
            # crude comment stripping: block comments and line comments
            if incomment:
                if '-/' in code:
                    incomment = 0
                    code = code.split('-/', 1)[1]
                else:
                    continue
            if '/-' in code:
                head, rest = code.split('/-', 1)
                if '-/' in rest:
                    code = head + rest.split('-/', 1)[1]
                else:
                    code = head
                    incomment = 1
            code = code.split('--', 1)[0]
            if FORBIDDEN.search(code):
                hits.append(f'{os.path.relpath(path, LEAN)}:{n}: {line.strip()[:120]}')
    return hits


def audit(prop, extra_modules=()):
    """build Props/<prop> and print the axioms of each of its theorems"""
    res = {'theorems': [], 'build_ok': False, 'bad_axioms': [], 'log': '', 'forbidden': []}
    thms = theorems_of(prop)
    for mod in extra_modules:       # extra property modules are audited like the main one
        if mod.startswith('OnlVerif.Props.'):
            thms = thms + [t for t in theorems_of(mod) if t not in thms]
    res['theorems'] = thms
    targets = [f'OnlVerif.Props.{prop}'] + list(extra_modules) + ['driver']
    ok, log = lake_build(targets)
    if not ok:
        # A generated file this property does not own may be in the way (py2lean/scope.py): it was left ill-typed by the check
        # that owns it, or hand-written code depending on it no longer compiles against the changed source.  That is the owner's
        # obligation, not ours: fall back to the pinned translation of every such file and build again.
        try:
            from py2lean import scope
            mods = [t if t != 'driver' else 'Driver' for t in targets]
            restored = scope.restore_foreign(prop, mods)
            if restored:
                res['foreign_generated_restored_to_pinned'] = restored
                ok2, log2 = lake_build(targets)
                res['first_build_errors'] = [l for l in log.splitlines() if l.startswith('error:')][:6]
                ok, log = ok2, log2
        except ImportError:
            pass
    res['build_ok'] = ok
    res['log'] = log[-6000:]
    # the `error:` lines of the whole log (file:line of the first broken declaration; the tail alone may hold only goal dumps)
    res['error_lines'] = [l for l in log.splitlines() if l.startswith('error:')][:12]
    if not ok:
        # the obligation is broken and will be reported; if what broke is this property's own generated driver dependency, the
        # harness still gets a driver (built with the pinned translation) to run its direct oracles against
        try:
            from py2lean import scope
            okd, _ = lake_build(['driver'])
            if not okd:
                own = scope.restore_own_driver_deps(prop)
                if own:
                    okd, _ = lake_build(['driver'])
                    res['own_driver_dependency_restored_to_pinned'] = {'stems': own, 'driver_built': okd}
        except ImportError:
            pass
        return res
    res['forbidden'] = forbidden_hits()
    tmp = os.path.join(LEAN, f'.audit_{prop}_{os.getpid()}.lean')
    with open(tmp, 'w') as f:
        f.write(f'import OnlVerif.Props.{prop}\n')
        for mod in extra_modules:
            f.write(f'import {mod}\n')
        for t in thms:
            f.write(f'#print axioms {t}\n')
    try:
        with Lock():
            rc, out = sh(['lake', 'env', 'lean', tmp], cwd=LEAN, timeout=1200)
    finally:
        os.unlink(tmp)
    res['audit_out'] = out[-4000:]
    seen = {}
    for m in re.finditer(r"'([^']+)' (does not depend on any axioms|depends on axioms: \[([^\]]*)\])", out):
        axs = [a.strip() for a in (m.group(3) or '').replace('\n', ' ').split(',') if a.strip()]
        seen[m.group(1)] = axs
    for t in thms:
        if t not in seen:
            res['bad_axioms'].append((t, ['<not reported>']))
        else:
            extra = [a for a in seen[t] if a not in ALLOWED_AXIOMS]
            if extra:
                res['bad_axioms'].append((t, extra))
    res['axioms'] = seen
    return res


def leanchecker(modules):
    with Lock():
        rc, out = sh(['lake', 'env', 'leanchecker'] + list(modules), cwd=LEAN, timeout=3000)
    return rc == 0, out[-2000:]


def load_findings():
    path = os.path.join(VERIF, 'known_findings.jsonl')
    out = []
    if os.path.exists(path):
        for line in open(path):
            line = line.strip()
            if line and not line.startswith('#'):
                out.append(json.loads(line))
    return out


class Ctx:
    def __init__(self, prop, tier, seed, replay=None):
        self.prop, self.tier, self.seed, self.replay = prop, tier, seed, replay
        self.t0 = time.time()
        self.quick = tier == 'quick'

    def elapsed(self):
        return time.time() - self.t0


def write_replay(prop, seed, k, payload):
    rdir = os.environ.get('VERIF_REPLAY_DIR', 'replays')
    os.makedirs(os.path.join(VERIF, rdir), exist_ok=True)
    path = os.path.join(rdir, f'{prop}-{seed}-{k}.json')
    with open(os.path.join(VERIF, path), 'w') as f:
        json.dump(payload, f, indent=1, default=str)
    return path


def run_check(prop, tier, seed, replay=None):
    ctx = Ctx(prop, tier, seed, replay)
    os.environ['VERIF_TIER'] = tier          # (read by vlib.util.guarded_leg for the CPU budget of a leg)
    mod = importlib.import_module(f'harness.{prop.lower()}')
    violations = []      # dicts: what, signature, replay payload, found_input(bool)
    notes = []

    # ---- 1. proof obligations ------------------------------------------------------------------
    pre = getattr(mod, 'prepare', None)
    prep_err = None
    with Lock():          # regeneration and build are one step with respect to other checks running in this tree
        if pre:
            try:
                pre(ctx)
            except Exception as x:
                prep_err = f'translator/preparation failed: {x!r}'
        au = audit(prop, getattr(mod, 'EXTRA_MODULES', ()))
    obligations = len(au['theorems'])
    discharged = 0
    proof_problems = []
    if prep_err:
        proof_problems.append(prep_err)
    if not au['build_ok']:
        proof_problems.append('lake build failed: ' + '\n'.join(
            au.get('error_lines') or [l for l in au['log'].splitlines() if 'error' in l.lower()])[:1500])
    else:
        bad = dict(au['bad_axioms'])
        discharged = sum(1 for t in au['theorems'] if t not in bad)
        for t, axs in au['bad_axioms']:
            proof_problems.append(f'theorem {t} depends on {axs}')
        for h in au['forbidden']:
            proof_problems.append(f'forbidden construct: {h}')
        if obligations == 0:
            proof_problems.append('no property theorem found')
    checker_cmd = f'cd lean && lake build OnlVerif.Props.{prop} && lake env lean <#print axioms of every theorem in Props/{prop}.lean>'
    lc = None
    if tier == 'thorough' and au['build_ok']:
        ok, out = leanchecker([f'OnlVerif.Props.{prop}'] + [m_ for m_ in getattr(mod, 'EXTRA_MODULES', ()) if m_.startswith('OnlVerif.Props.')])
        lc = ok
        checker_cmd += f' && lake env leanchecker OnlVerif.Props.{prop}'
        if not ok:
            proof_problems.append('leanchecker rejected the compiled module: ' + out[-500:])

    # A generated file this property only *uses* (py2lean/scope.py: C16 runs the window rules that C17 owns) was put back to its
    # pinned translation so that the proofs build.  The replay, however, should run the model with the rules as they are in the
    # source - that they agree with the pinned ones is the owner's bridge, and a disagreement about them is the owner's to report:
    # regenerate the used file and rebuild the driver alone (the proofs above were built and audited before this point).
    used_back = []
    try:
        from py2lean import scope as _scope
        used_back = [s_ for s_ in (au.get('foreign_generated_restored_to_pinned') or []) if prop in _scope.USERS.get(s_, ())]
    except ImportError:
        pass
    if au['build_ok'] and used_back:
        with Lock():
            from py2lean import translate as _tr
            note = {'stems': used_back}
            try:
                _tr.regenerate_all(only=tuple(used_back), tolerate=True)
                okd, _ = lake_build(['driver'])
                note['driver_runs_the_rules_of_the_source'] = okd
                if not okd:
                    _scope.restore_pinned(used_back)
                    okd, _ = lake_build(['driver'])
                    note['driver_rebuilt_with_pinned'] = okd
            except Exception as x:
                note['error'] = repr(x)
                _scope.restore_pinned(used_back)
                lake_build(['driver'])
            au['used_generated_after_proofs'] = note

    # ---- 2. correspondence + oracle ------------------------------------------------------------
    result = {}
    infra = None
    if os.path.exists(DRIVER):
        # safety net: a changed library can make a harness loop for ever (a scheduler that never drains, a sender that never
        # stops retransmitting).  The budget is user CPU time of this process - robust against a busy machine - and generous.
        import signal
        budget = int(os.environ.get('VERIF_CPU_BUDGET', '1200' if tier == 'quick' else '5400'))

        def on_budget(signum, frame):
            raise HarnessBudget(f'the correspondence run used more than {budget} s of CPU time and was stopped')
        old_h = signal.signal(signal.SIGVTALRM, on_budget)
        signal.setitimer(signal.ITIMER_VIRTUAL, budget, 5.0)      # re-fires: harness code may catch BaseException around library calls
        try:
            result = mod.run(ctx) or {}
        except HarnessBudget as x:
            infra = str(x)
        except Exception:
            infra = traceback.format_exc()
        finally:
            signal.setitimer(signal.ITIMER_VIRTUAL, 0)
            signal.signal(signal.SIGVTALRM, old_h)
    else:
        infra = 'driver executable missing (lake build failed)'
        if au['build_ok']:
            pass

    disagreements = result.get('disagreements', [])
    from vlib import util as _util
    for lc_ in _util.LEG_CRASHES:
        disagreements.append({'case': None, 'detail': f"the `{lc_['leg']}` leg of the correspondence raised on this tree: {lc_['traceback'].strip().splitlines()[-1]}",
                              'impl': lc_['traceback'].splitlines()[-12:], 'model': []})
    del _util.LEG_CRASHES[:]
    oracle_failures = result.get('oracle_failures', [])

    # ---- 3. verdicts ---------------------------------------------------------------------------
    findings = load_findings()
    known = [f for f in findings if f.get('status') == 'known' and f.get('property') == prop]
    lines = []
    k = 0
    reported_known = set()
    for of in oracle_failures:
        sig = of.get('signature', '')
        match = next((f for f in known if f.get('signature') == sig), None)
        if match:
            if sig not in reported_known:
                reported_known.add(sig)
                lines.append(f'KNOWN-FINDING: property={prop} {match.get("what", sig)}')
            continue
        k += 1
        if k <= 5:
            path = write_replay(prop, seed, k, {'property': prop, 'kind': 'failing-input', 'what': of.get('what'),
                                                'signature': sig, 'case': of.get('case'), 'trace': of.get('trace')})
            lines.append(f'VIOLATION property={prop} replay={path}')
        violations.append(of)
    if not violations and (disagreements or proof_problems or infra):
        # a proof obligation or the correspondence no longer checks and the search found no failing input
        payload = {'property': prop, 'kind': 'obligation-broken',
                   'broken_theorems_or_build': proof_problems,
                   'broken_correspondence': [{'case': d.get('case'), 'detail': d.get('detail'),
                                              'impl': d.get('impl'), 'model': d.get('model')} for d in disagreements[:5]],
                   'infrastructure': infra,
                   'search': result.get('search_note', 'the direct oracle found no input on which the property fails')}
        path = write_replay(prop, seed, 0, payload)
        if infra and not disagreements and not proof_problems:
            print(infra, file=sys.stderr)
        lines.append(f'VIOLATION property={prop} replay={path} no-failing-input-found')
        violations.append(payload)
    elif violations and (disagreements or proof_problems):
        notes.append('obligations also broken: ' + '; '.join(proof_problems)[:500])

    # ---- 4. evidence ---------------------------------------------------------------------------
    cov = dict(result.get('coverage', {}))
    cov.setdefault('evaluations', 0)
    cov.setdefault('distinct_nontrivial', 0)
    cov.setdefault('rule', '')
    cov.setdefault('samples', [])
    cov['obligations'] = obligations
    cov['discharged'] = discharged if not prep_err else 0
    cov['checker_cmd'] = checker_cmd
    cov['trusted_base'] = TRUSTED_BASE + list(getattr(mod, 'TRUSTED_EXTRA', []))
    cov['theorems'] = [{'name': t, 'axioms': au.get('axioms', {}).get(t)} for t in au['theorems']]
    cov['leanchecker'] = lc
    cov['correspondence_disagreements'] = len(disagreements)
    cov['oracle_failures'] = len(oracle_failures)
    cov['known_findings_reported'] = sorted(reported_known)
    cov['proof_problems'] = proof_problems
    for k in ('foreign_generated_restored_to_pinned', 'first_build_errors', 'own_driver_dependency_restored_to_pinned', 'used_generated_after_proofs'):
        if au.get(k):
            cov[k] = au[k]
    cov['notes'] = notes
    ev = {
        'property_id': prop, 'tier': tier, 'seed': seed, 'level': 'proof', 'coverage': cov,
        'assumptions': list(getattr(mod, 'ASSUMPTIONS', [])),
        'wall_s': round(ctx.elapsed(), 2), 'violations': len(violations),
    }
    edir = os.environ.get('VERIF_EVIDENCE_DIR', os.path.join(VERIF, 'evidence'))    # scratch runs against mutants write elsewhere
    os.makedirs(edir, exist_ok=True)
    with open(os.path.join(edir, f'{prop}.json'), 'w') as f:
        json.dump(ev, f, indent=1, default=str)

    for l in lines:
        print(l)
    if violations:
        return 1
    print(f'OK property={prop} tier={tier} seed={seed} theorems={discharged}/{obligations} '
          f'cases={cov["evaluations"]} disagreements=0 wall={ev["wall_s"]}s')
    return 0
