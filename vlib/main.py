import argparse, os, sys, traceback, subprocess
from vlib import framework
from vlib.util import LEAN


def setup():
    """build the Lean library, the proofs and the driver from the files on disk"""
    # regenerate every translated Lean file from the current /repo sources
    import importlib
    for name, fn in (('py2lean.route', 'regenerate'), ('py2lean.translate', 'regenerate_all')):
        try:
            mod = importlib.import_module(name)
        except ImportError:
            continue
        getattr(mod, fn)()
    ok, log = framework.lake_build([])
    sys.stdout.write(log[-3000:])
    return 0 if ok else 2


def main():
    ap = argparse.ArgumentParser()
    ap.add_argument('prop', nargs='?')
    ap.add_argument('--tier', default=os.environ.get('VERIF_TIER', 'quick'))
    ap.add_argument('--replay')
    ap.add_argument('--setup', action='store_true')
    a = ap.parse_args()
    if a.setup:
        sys.exit(setup())
    if not a.prop:
        ap.error('property id required')
    seed = int(os.environ.get('VERIF_SEED', '0') or 0)
    tier = a.tier if a.tier in ('quick', 'thorough') else 'quick'
    try:
        rc = framework.run_check(a.prop.upper(), tier, seed, a.replay)
    except subprocess.TimeoutExpired as x:
        print(f'TIMEOUT {x}', file=sys.stderr)
        rc = 2
    except Exception:
        traceback.print_exc()
        rc = 2
    sys.exit(rc)


main()
