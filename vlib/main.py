import argparse, os, sys, traceback, subprocess
from vlib import framework
from vlib.util import LEAN


def setup():
    """build the Lean library, the proofs and the driver from the files on disk"""
    # regenerate every translated Lean file from the current /repo sources
    import importlib
    for name, fn in (('py2lean.route', 'regenerate'), ('py2lean.translate', 'regenerate_all')):
        try:
            mod = importlib.import_module(name)
        except ImportError:
            continue
        try:
            getattr(mod, fn)()
        except Exception as x:      # a source outside the translatable subset: reported by the checks that depend on it
            print(f'setup: {name}.{fn} did not complete: {x!r}')
    ok, log = framework.lake_build([])
    sys.stdout.write(log[-3000:])
    if not ok:
        # Setup prepares as much as it can.  A proof obligation that no longer builds against the current source is the
        # business of the check that owns it (each check rebuilds its own targets and reports): build the rest.
        print('setup: the full build did not complete; building the targets one by one')
        okd, _ = framework.lake_build(['driver'])
        print(f'setup: driver {"built" if okd else "NOT built"}')
        for i in range(1, 21):
            okp, _ = framework.lake_build([f'OnlVerif.Props.C{i:02d}'])
            print(f'setup: OnlVerif.Props.C{i:02d} {"built" if okp else "NOT built (reported by ./check C%02d)" % i}')
        return 0 if okd else 2
    return 0


def main():
    ap = argparse.ArgumentParser()
    ap.add_argument('prop', nargs='?')
    ap.add_argument('--tier', default=os.environ.get('VERIF_TIER', 'quick'))
    ap.add_argument('--replay')
    ap.add_argument('--setup', action='store_true')
    a = ap.parse_args()
    if a.setup:
        sys.exit(setup())
    if not a.prop:
        ap.error('property id required')
    seed = int(os.environ.get('VERIF_SEED', '0') or 0)
    tier = a.tier if a.tier in ('quick', 'thorough') else 'quick'
    try:
        rc = framework.run_check(a.prop.upper(), tier, seed, a.replay)
    except subprocess.TimeoutExpired as x:
        print(f'TIMEOUT {x}', file=sys.stderr)
        rc = 2
    except Exception:
        traceback.print_exc()
        rc = 2
    sys.exit(rc)


main()
