import argparse, os, sys, traceback, subprocess
from vlib import framework
from vlib.util import LEAN


def setup():
    """build the Lean library, the proofs and the driver from the files on disk"""
    # regenerate every translated Lean file from the current /repo sources; a target whose source left the translatable subset keeps
    # its previous file and does not stop the others (reported by the check that owns it, py2lean/scope.py)
    import importlib
    for name, fn, kw in (('py2lean.route', 'regenerate', {}), ('py2lean.translate', 'regenerate_all', {'tolerate': True})):
        try:
            mod = importlib.import_module(name)
        except ImportError:
            continue
        try:
            getattr(mod, fn)(**kw)
            for stem, msg in getattr(mod, 'FAILED', {}).items():
                print(f'setup: Generated/{stem}.lean kept as it was: {msg}')
        except Exception as x:      # a source outside the translatable subset: reported by the checks that depend on it
            print(f'setup: {name}.{fn} did not complete: {x!r}')
    ok, log = framework.lake_build([])
    sys.stdout.write(log[-3000:])
    if not ok:
        # Setup prepares as much as it can.  A proof obligation that no longer builds against the current source is the
        # business of the check that owns it (each check rebuilds its own targets and reports): build the rest.
        print('setup: the full build did not complete; building the targets one by one')
        okd, _ = framework.lake_build(['driver'])
        if not okd:
            # a freshly generated file the driver links (Route, TcpCC) does not compile: the driver is built with the pinned
            # translation; the owning check regenerates the file and reports
            try:
                from py2lean import scope
                back = scope.restore_pinned([s_ for s_ in scope.generated_in(['Driver']) if s_ in scope.DRIVER_DEPS])
                print(f'setup: driver dependencies restored to their pinned translation: {back}')
                okd, _ = framework.lake_build(['driver'])
            except ImportError:
                pass
        print(f'setup: driver {"built" if okd else "NOT built"}')
        try:
            from py2lean import scope
            extra = scope.BRIDGE_MODULES
        except ImportError:
            extra = {}
        for i in range(1, 21):
            prop = f'C{i:02d}'
            for m in [f'OnlVerif.Props.{prop}'] + list(extra.get(prop, ())):
                okp, _ = framework.lake_build([m])
                print(f'setup: {m} {"built" if okp else "NOT built (reported by ./check %s)" % prop}')
        return 0 if okd else 2
    return 0


def main():
    ap = argparse.ArgumentParser()
    ap.add_argument('prop', nargs='?')
    ap.add_argument('--tier', default=os.environ.get('VERIF_TIER', 'quick'))
    ap.add_argument('--replay')
    ap.add_argument('--setup', action='store_true')
    a = ap.parse_args()
    if a.setup:
        sys.exit(setup())
    if not a.prop:
        ap.error('property id required')
    seed = int(os.environ.get('VERIF_SEED', '0') or 0)
    tier = a.tier if a.tier in ('quick', 'thorough') else 'quick'
    try:
        rc = framework.run_check(a.prop.upper(), tier, seed, a.replay)
    except subprocess.TimeoutExpired as x:
        print(f'TIMEOUT {x}', file=sys.stderr)
        rc = 2
    except Exception:
        traceback.print_exc()
        rc = 2
    sys.exit(rc)


main()
