"""C16 finding (found by the liveness proof: the hypothesis `mss <= cc.mss` could not be dropped): a sender whose congestion
controller was built with an MSS smaller than the sender's segment size wedges after one retransmission timeout.
TCPReno(mss=100, cwnd=512): the timeout sets cwnd = cc.mss = 100, the ACK of the retransmission makes it 200, and the send guard
`next_seq + 512 <= last_ack + cwnd` can never open again although nothing is outstanding: the event queue runs empty with the
flow undelivered.  Exit 1 when the flow does not complete."""
import sys
from onl.sim import Environment
from onl.packet import TCPPacketGenerator, TCPSink, TCPReno, Flow
from onl.netdev import Wire


class DropFirst:
    def __init__(self, nxt): self.nxt, self.n = nxt, 0
    def put(self, p):
        self.n += 1
        if self.n != 1:
            self.nxt.put(p)


env = Environment()
flow = Flow(flow_id=0, src='s', dst='d', size=12800, finish_time=float('inf'))
snd = TCPPacketGenerator(env, flow, TCPReno(mss=100, cwnd=512), rtt_estimate=1.0)
sink = TCPSink(env)
w1, w2 = Wire(env, lambda: 0.1), Wire(env, lambda: 0.1)
snd.out = DropFirst(w1); w1.out = sink; sink.out = w2; w2.out = snd
env.run(until=10000)
ok = snd.last_ack == 12800 and sink.recv_buffer == [[0, 12800]]
print('OK' if ok else f'FAIL: event queue ran empty with last_ack={snd.last_ack} of 12800, sink holds {sink.recv_buffer}, cwnd={snd.congestion_control.cwnd}')
sys.exit(0 if ok else 1)
