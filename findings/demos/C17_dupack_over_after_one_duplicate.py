"""A new ACK that follows ONE duplicate ACK sets cwnd to ssthresh (65535) instead of adding one MSS."""
import sys; sys.path.insert(0, '/repo')
from onl.sim import Environment
from onl.packet import Packet, TCPPacketGenerator, TCPReno, Flow
class Out:
    def put(self, p): pass
env = Environment()
cc = TCPReno()                                  # mss 512, cwnd 512, ssthresh 65535
s = TCPPacketGenerator(env, Flow(0, 'a', 'b', finish_time=float('inf'), size=None), cc)
s.out = Out()
def ack(no, pid):
    a = Packet(env.now, 40, pid, flow_id=10000); a.ack = no; s.put(a)
def script():
    yield env.timeout(0.1); ack(512, 0);  print('new ACK 512      cwnd', cc.cwnd)      # 1024 (slow start)
    yield env.timeout(0.1); ack(512, 1024); print('1 duplicate ACK  cwnd', cc.cwnd, 'dupack', s.dupack)
    yield env.timeout(0.1); ack(1536, 512); print('new ACK 1536     cwnd', cc.cwnd, ' <- expected 1536 (1024 + MSS)')
env.process(script()); env.run(until=0.5)
