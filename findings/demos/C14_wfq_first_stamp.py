from onl.sim import Environment
from onl.scheduler import WFQ
from onl.packet import Packet
env = Environment(); out = []
class Rec:
    def put(self, p): out.append((env.now, p.flow_id, p.packet_id))
w = WFQ(env, rate=8.0, weights={0: 1, 1: 1}); w.out = Rec()
def src():
    yield env.timeout(1)
    # class 0: two packets of 10 bytes (F=10, 20); class 1: one packet of 15 bytes (F=15)
    w.put(Packet(env.now, 10, 1, flow_id=0)); w.put(Packet(env.now, 10, 2, flow_id=0)); w.put(Packet(env.now, 15, 3, flow_id=1))
env.process(src()); env.run(until=100)
print(out, w.finish_times); assert [i for _, _, i in out] == [1, 3, 2]
