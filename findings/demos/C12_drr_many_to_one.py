from onl.sim import Environment
from onl.scheduler import DRR
from onl.packet import Packet
env = Environment(); out = []
class Rec:
    def put(self, p): out.append((env.now, p.flow_id, p.packet_id))
d = DRR(env, rate=8000.0, weights={0: 1, 1: 2}, flow2class=lambda f: f % 2); d.out = Rec()
def src():
    yield env.timeout(1)
    for i, f in enumerate([0, 2, 1, 3, 2]): d.put(Packet(env.now, 1000, i, flow_id=f))
env.process(src()); env.run(until=1000)
print(out, dict(d.queue_count)); assert len(out) == 5 and all(v == 0 for v in d.queue_count.values())
