import io, contextlib
from onl.sim import Environment
from onl.scheduler import SP
from onl.packet import Packet
env = Environment(); out = []
class Rec:
    def put(self, p): out.append((env.now, p.flow_id, p.packet_id))
sp = SP(env, rate=8.0, priorities={0: 2, 1: 1}); sp.out = Rec()
def src():
    yield env.timeout(0)
    for i, f in enumerate([0, 0, 1, 1]): sp.put(Packet(env.now, 1, i, flow_id=f))
env.process(src())
with contextlib.redirect_stdout(io.StringIO()): env.run(until=100)
print(out); assert [f for _, f, _ in out] == [0, 0, 1, 1]
