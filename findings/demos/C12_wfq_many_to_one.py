from onl.sim import Environment
from onl.scheduler import WFQ
from onl.packet import Packet
env = Environment(); out = []
class Rec:
    def put(self, p): out.append((env.now, p.flow_id, p.packet_id))
w = WFQ(env, rate=8.0, weights={0: 1, 1: 2}, flow2class=lambda f: f % 2); w.out = Rec()
def src():
    yield env.timeout(1)
    for i, f in enumerate([0, 2, 1, 3, 2]): w.put(Packet(env.now, 10, i, flow_id=f))
env.process(src()); env.run(until=1000)
print(out); assert len(out) == 5
