"""WFQ: an arrival in the very instant in which the last transmission of a busy period ends -- processed after
out.put() of that packet (the scheduler is empty: size() == 0 for every flow, packet_in_service is None) but before the
scheduler loop's bookkeeping burst -- must start a new busy period (V = F = 0).  Before commit 89492cc put() tested the
active set, which the loop clears only when it resumes, and stamped such a packet from the OLD virtual time and finish
times: C got 5.0 and D 4.75, and D left before C although by the stated rule C (stamp 1) precedes D (stamp 1.5).
Whether a source's timer falls into that window only depends on when the timer was created (after the start of the last
transmission)."""
from onl.sim import Environment
from onl.packet import Packet
from onl.scheduler import WFQ

env = Environment(); out = []
class Rec:
    def put(self, p): out.append((env.now, p.packet_id))
w = WFQ(env, 16.0, {0: 1, 1: 1}); w.out = Rec()
seen = {}
def src():
    w.put(Packet(env.now, 8, 'A', flow_id=0))      # t=0    class 0, transmitted 0..4, F0 = 4
    yield env.timeout(0.5)
    w.put(Packet(env.now, 2, 'B', flow_id=1))      # t=0.5  class 1, transmitted 4..5, V(5) = 3.25 < F0
    yield env.timeout(4.0)
    yield env.timeout(0.5)                         # this timer (for t=5) is created at t=4.5, after B's transmission began
    seen['empty'] = (w.size(0), w.size(1), w.packet_in_service, w.total_packets)
    w.put(Packet(env.now, 2, 'C', flow_id=0))      # t=5    fresh busy period: stamp 0 + 8*2/16 = 1
    w.put(Packet(env.now, 3, 'D', flow_id=1))      # t=5                         stamp 0 + 8*3/16 = 1.5
    seen['keys'] = sorted((it.item.packet_id, it.priority) for it in w.store.items)
env.process(src()); env.run(until=20)
print('scheduler state seen by the source just before put(C):', seen['empty'])
print('keys:', seen['keys'])
print('departures:', out)
assert seen['empty'] == (0, 0, None, 0)
assert seen['keys'] == [('C', (1.0, 5.0)), ('D', (1.5, 5.0))], 'stamps must restart from 0'
assert [i for _, i in out] == ['A', 'B', 'C', 'D'], 'C (stamp 1) must leave before D (stamp 1.5)'
