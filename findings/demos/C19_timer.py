from onl.sim import Environment
from onl.utils import Timer
# 1. scalar argument
env = Environment(); fired = []
Timer(env, 2, lambda x: fired.append((env.now, x)), args=7); env.run()
assert fired == [(2, 7)], fired
# 2. restart from the callback
env = Environment(); fired = []
def cb():
    fired.append(env.now)
    if len(fired) == 1: t.restart(3)
t = Timer(env, 2, cb); env.run()
assert fired == [2, 5], fired
# 3. restart at the expiry instant, after the firing
env = Environment(); fired = []
t = Timer(env, 2, lambda: fired.append(env.now))
def other():
    yield env.timeout(2)      # created after the timer's own timeout: runs after the firing
    t.restart(1)
env.process(other()); env.run()
assert fired == [2], fired
print("ok")
