from onl.sim import Environment
from onl.scheduler import VC
from onl.packet import Packet
env = Environment(); out = []
class Rec:
    def put(self, p): out.append((env.now, p.flow_id, p.packet_id))
v = VC(env, rate=8.0, vticks={0: 2.0, 1: 2.0}); v.out = Rec()
def src():
    yield env.timeout(1)
    for i, f in enumerate([0, 1, 0, 1]): v.put(Packet(env.now, 10, i, flow_id=f))   # equal stamps 3,3,5,5
env.process(src()); env.run(until=1000)
print(out); assert len(out) == 4
