from onl.sim import Environment
from onl.netdev.demux import FIBDemux
from onl.netdev import Splitter, Port
from onl.packet import Packet
import io, contextlib
class Rec:
    def __init__(s): s.got = []
    def put(s, p): s.got.append(p)
d = Rec()
with contextlib.redirect_stdout(io.StringIO()):
    FIBDemux(outs=None, fib={}, default_out=d).put(Packet(0, 100, 1, flow_id=7))
    FIBDemux(outs=[], fib={7: 0}, default_out=d).put(Packet(0, 100, 2, flow_id=7))
assert [p.packet_id for p in d.got] == [1, 2], 'unknown flows must go to the default output'
env = Environment()
s = Splitter(); a, b = Port(env, 0, None, False, 'left'), Port(env, 0, None, False, 'right')
ra, rb = Rec(), Rec(); a.out, b.out = ra, rb; s.out1, s.out2 = a, b
s.put(Packet(0, 100, 3)); env.run(until=1)
assert 'right' not in ra.got[0].perhop_time, ('stamping the copy also stamped the original', ra.got[0].perhop_time)
print('ok')
