"""C03 (reproducibility under any string-hash seed): WFQ with string flow ids and NON-INTEGER weights.

`WFQ.update_vtime` adds up the weights of the backlogged classes by iterating `self.active_set` - a set of class ids.  With string
ids the iteration order follows PYTHONHASHSEED; float addition is not associative, so the sum (and with it the virtual time and
every later finish stamp) can differ in the last bit between hash seeds, and two stamps that are a near-tie are then served in
the other order.  With integer weights (the type the constructor annotates: Dict[FlowId, int]) every sum is exact and nothing
depends on the order.  The program below is executed in fresh interpreters under several hash seeds; all traces must be equal."""
import json, os, subprocess, sys


def program():
    import random
    from onl.sim import Environment
    from onl.packet import Packet
    from onl.scheduler import WFQ
    names = ['voice', 'video', 'data', 'bulk', 'ctrl', 'alpha', 'bravo']
    rng = random.Random(75)
    env = Environment()
    flows = rng.sample(names, 5)
    w = {f: rng.choice([0.1, 0.2, 0.3, 0.7, 1.1, 0.6]) for f in flows}
    s = WFQ(env, 8000.0, w)
    out = []

    class Rec:
        def put(self, p): out.append([p.flow_id, p.packet_id, env.now])
    s.out = Rec()

    def src(k):
        pid = 1000 * k
        for _ in range(15):
            yield env.timeout(rng.choice([0, 0, 0.5, 1, 0.125, 0.3]))
            for _ in range(rng.choice([1, 2, 3])):
                pid += 1
                s.put(Packet(env.now, rng.choice([100, 500, 1500, 300]), pid, flow_id=rng.choice(flows)))
    for k in range(3):
        env.process(src(k + 1))
    env.run(until=10000)
    return {'weights': w, 'departures': out}


if len(sys.argv) > 1 and sys.argv[1] == 'child':
    print(json.dumps(program()))
    sys.exit(0)

traces = {}
for seed in ('0', '1', '2', '3', '4', '5', '6', '7'):
    r = subprocess.run([sys.executable, os.path.abspath(__file__), 'child'], env=dict(os.environ, PYTHONHASHSEED=seed),
                       capture_output=True, text=True, timeout=120)
    traces[seed] = json.loads(r.stdout)
ref = traces['0']['departures']
for seed, t in traces.items():
    if t['departures'] != ref:
        i = next(i for i, (a, b) in enumerate(zip(ref, t['departures'])) if a != b)
        print(f'FAIL: weights {t["weights"]}: departure {i} is {ref[i]} under PYTHONHASHSEED=0 and {t["departures"][i]} under PYTHONHASHSEED={seed}')
        sys.exit(1)
print('OK')
