from onl.sim import Environment
def prog(split):
    env = Environment(); log = []
    ev = env.event()
    def trig():
        yield env.timeout(1); ev.fail(KeyError(7))
    def late():
        yield env.timeout(0.5)
        try:
            yield ev
        except KeyError as x:
            log.append(('late caught', env.now, x.args))
        yield env.timeout(1); log.append(('late2', env.now))
    env.process(trig()); env.process(late())
    if split:
        try:
            env.run(until=ev)
        except KeyError:
            log.append(('run raised', env.now))
    env.run()
    return [l for l in log if l[0] != 'run raised']
a, b = prog(False), prog(True)
print(a); print(b)
assert a == b, 'a waiter registered after run(until=ev) was entered is lost when ev fails'
