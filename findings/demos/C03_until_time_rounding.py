from onl.sim import Environment
env = Environment()
def p():
    while True:
        yield env.timeout(1)
env.process(p())
env.run(until=3.38)
env.run(until=12.12)
print(env.now)
assert env.now == 12.12, f"run(until=12.12) returned with now == {env.now!r}"
