from onl.sim import Environment, Container
env = Environment()
c = Container(env, capacity=10, init=7)
got = []
def big():
    req = c.put(5)                 # blocked: only 3 free
    res = yield req | env.timeout(1)
    if req not in res:
        req.cancel()
def small():
    yield env.timeout(0.5)
    yield c.put(1)                 # queued behind the put(5)
    got.append(env.now)
env.process(big()); env.process(small())
env.run(until=10)
print(got, c.level)
assert got == [1], "put(1) must be granted at t=1 when the blocking put(5) is cancelled"
