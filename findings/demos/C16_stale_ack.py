"""C16 finding (found by the seed sweep of `./check C16 --tier quick`, seed 40): an acknowledgement that was overtaken on the return path
by a later cumulative ACK (`ackno < self.last_ack`) was taken by `TCPPacketGenerator.put` for a NEW ACK (`ackno != last_ack`, `dupack == 0`)
and `self.last_ack = ackno` moved the acknowledged mark BACKWARDS.  Consequences: the event queue runs empty with `last_ack` short of the
flow size although the sink holds everything; the send guard `next_seq + mss <= last_ack + cwnd` closes spuriously; an application-limited
flow (`arrival_dist`) stalls for ever with nothing outstanding; RTT estimator and cwnd are updated from a stale sample.
Two scenarios: (1) a bulk flow of 3 segments under a window of 3 segments, ACK 1 held one second and overtaken by ACKs 2 and 3;
(2) an application-limited flow (one segment every 5 s) whose second ACK is held 402.5 s and arrives while nothing is outstanding.
Run with PYTHONPATH=<library tree>.  Exit 1 when the acknowledged mark moves back or a flow does not complete."""
import sys
from onl.sim import Environment
from onl.packet import TCPPacketGenerator, TCPSink, TCPReno, Flow
from onl.netdev import Wire

class HoldAck:
    """return path: the k-th ACK (1-based) is held `extra` seconds longer than the others"""
    def __init__(self, env, nxt, k, extra, base=0.1):
        self.env, self.nxt, self.k, self.extra, self.base, self.n = env, nxt, k, extra, base, 0
    def put(self, p):
        self.n += 1
        d = self.base + (self.extra if self.n == self.k else 0.0)
        def later(env, p=p, d=d):
            yield env.timeout(d)
            self.nxt.put(p)
        self.env.process(later(self.env))

def scenario(size, cc, k, extra, arrival=None, until=100000):
    env = Environment()
    flow = Flow(flow_id=0, src='s', dst='d', size=size, finish_time=float('inf'), arrival_dist=arrival)
    snd = TCPPacketGenerator(env, flow, cc, rtt_estimate=10.0)
    sink = TCPSink(env)
    w1 = Wire(env, lambda: 0.1)
    marks = []
    orig_put = snd.put
    def put(ack):
        before = snd.last_ack
        orig_put(ack)
        marks.append((env.now, ack.ack, before, snd.last_ack))
    ret = HoldAck(env, type('X', (), {'put': staticmethod(put)}), k, extra)
    snd.out = w1; w1.out = sink; sink.out = ret
    env.run(until=until)
    return snd, sink, marks

bad = []
# 1. bulk flow of 3 segments, window of 3 segments: ACK 1 is overtaken by ACKs 2 and 3
snd, sink, marks = scenario(1536, TCPReno(mss=512, cwnd=1536), k=1, extra=1.0)
back = [m for m in marks if m[3] < m[2]]
if back or snd.last_ack != 1536:
    bad.append(f'bulk: acknowledged mark moved back {back}; event queue ran empty with last_ack={snd.last_ack} of 1536 (sink holds {sink.recv_buffer})')
# 2. application-limited flow (one segment every 5 s), ACK 2 held 402.5 s: it arrives while nothing is outstanding
snd, sink, marks = scenario(512 * 200, TCPReno(mss=512, cwnd=512, ssthresh=1024), k=2, extra=402.5, arrival=lambda: 5.0)
if snd.last_ack != 512 * 200:
    bad.append(f'app-limited: event queue ran empty with last_ack={snd.last_ack}, next_seq={snd.next_seq} of {512*200}, cwnd={snd.congestion_control.cwnd:.0f}, nothing outstanding={not snd.timers}; sink holds {sink.recv_buffer}')
print('OK' if not bad else 'FAIL: ' + ' | '.join(bad))
sys.exit(1 if bad else 0)
