from onl.sim import Environment
def prog(split):
    env=Environment(); log=[]
    ev=env.event()
    def trig():
        yield env.timeout(1); ev.succeed(7)
    def late():
        yield env.timeout(0.5)
        v=yield ev
        log.append(('late',env.now,v))
        yield env.timeout(1); log.append(('late2',env.now))
    env.process(trig()); env.process(late())
    if split: env.run(until=ev)
    env.run()
    return log
print(prog(False)); print(prog(True)); assert prog(False)==prog(True)
