"""C12, counter clause on packet sizes that are not whole numbers - an ORACLE-ONLY family (no Lean replay).

"The per-flow queue length and byte counters a scheduler reports equal the packets of that flow waiting or in
transmission, and a Monitor's samples equal those numbers with the packet in service included or excluded as
requested."  The clause does not restrict packet sizes; the models (DESIGN section 3) read sizes as positive integers,
so these workloads stay outside the correspondence and are counted separately in the coverage.  Sizes are binary
fractions (multiples of 1/8 below 2**20), so every sum and difference of sizes is exact in IEEE doubles and the
comparison needs no tolerance.

Model-free: "waiting or in transmission" = handed to put() and not yet handed to `out.put()` (the end of its
transmission).  The books are compared with `size(flow)` / `byte_size(flow)` after every put(), at every departure
(inside `out.put()`) and after every kernel step; a Monitor sample of a flow is compared with the books of the
instant it was taken in, minus the packet in transmission when `service_included` is False.
"""
import random, collections, json
from onl.sim import Environment
from onl.packet import Packet
from onl.scheduler import SP, WFQ, DRR, VC, Monitor
from onl.scheduler.rr import RR
from onl.scheduler.wrr import WRR
from vlib.util import quiet

ASSUMPTIONS = [
    'non-integer packet sizes (binary fractions, exact in IEEE doubles) are checked by the direct counter / Monitor oracle only (all six schedulers); '
    'the models and the replay read sizes as positive integers',
]

INF = float('inf')
KINDS = ['sp', 'rr', 'wrr', 'drr', 'wfq', 'vc']
FRACS = [0.5, 0.25, 0.75, 0.125, 0.375, 0.625, 0.875]


def gen_case(rng, cid):
    kind = KINDS[cid % 6] if isinstance(cid, int) else rng.choice(KINDS)
    nfl = rng.randint(1, 4)
    flows = sorted(rng.sample(range(10), nfl))
    c = {'cid': f'frac{cid}', 'kind': 'frac:' + kind, 'rate': rng.choice([8.0, 64.0, 1000.0, 8000.0, 3.0, 1e6]), 'flows': flows}
    c['table'] = [[f, rng.choice([1, 2, 3, 4]) if kind != 'vc' else rng.choice([0.125, 0.5, 1.0, 2.0])] for f in flows]
    c['map'] = None
    if kind in ('drr', 'wfq', 'vc') and nfl >= 2 and rng.random() < 0.3:
        # several flows mapped onto one class
        cls = [k for k, _ in c['table'][:rng.randint(1, nfl - 1)]]
        c['table'] = [e for e in c['table'] if e[0] in cls]
        c['map'] = [[f, rng.choice(cls)] for f in flows]
    style = rng.choice(['frac', 'frac', 'mixed', 'small'])

    def size():
        if style == 'small':
            return rng.choice(FRACS) + rng.choice([0, 0, 1, 2])
        base = rng.choice([1, 10, 64, 100, 250, 500, 1499, 1500])
        return float(base) + rng.choice(FRACS) if (style == 'frac' or rng.random() < 0.6) else base

    tx = 8.0 / c['rate']
    c['sources'] = []
    for _ in range(rng.randint(1, 3)):
        script = []
        for _ in range(rng.randint(1, 8)):
            d = rng.choice([0, 0, 1, 2, 64, 100.5, 1500, 40000]) * tx if rng.random() < 0.85 else round(rng.random() * 5, 3)
            script.append((d, [(rng.choice(flows), size()) for _ in range(rng.choice([1, 1, 2, 3, 5]))]))
        c['sources'].append(script)
    c['monitors'] = [{'included': rng.random() < 0.5,
                      'periods': [rng.choice([0.5, 1, 3, 100, 777.25, 0]) * tx * rng.choice([1, 100]) for _ in range(rng.randint(1, 25))]}
                     for _ in range(rng.choice([0, 1, 1, 2]))]
    if rng.random() < 0.35:
        # a second scheduler of the same kind in the same Environment: another table over the same ids, another rate, its own traffic
        # (fractional sizes too) and its own Monitor - the counters and samples of the first are about the first
        keys = [k for k, _ in c['table']]
        c['peer'] = {'rate': rng.choice([8.0, 64.0, 1000.0, 8000.0]),
                     'table': [[k, rng.choice([1, 2, 3, 4]) if kind != 'vc' else rng.choice([0.125, 0.5, 1.0, 2.0])] for k in reversed(keys)],
                     'script': [(rng.choice([0, 0, 1, 2, 64, 100.5]) * tx, [(rng.choice(flows), size()) for _ in range(rng.choice([1, 2, 3, 5]))])
                                for _ in range(rng.randint(1, 8))],
                     'monitor': rng.random() < 0.5}
    return c


def build(env, c):
    kind, rate = c['kind'].split(':')[1], c['rate']
    table = dict(map(tuple, c['table']))
    kw = {}
    if c.get('map'):
        m = dict(map(tuple, c['map']))
        kw['flow2class'] = lambda fid: m[fid]
    if kind == 'sp': return SP(env, rate, table)
    if kind == 'rr': return RR(env, rate, list(c['flows']))
    if kind == 'wrr': return WRR(env, rate, table)
    if kind == 'drr': return DRR(env, rate, table, **kw)
    if kind == 'wfq': return WFQ(env, rate, table, **kw)
    return VC(env, rate, table, **kw)


def run_case(c, max_steps=40000):
    """returns (failures, stats)"""
    env = Environment()
    with quiet():
        sched = build(env, c)
    held = {}                        # flow -> [packets waiting or in transmission, their bytes]
    inside = {}                      # id(packet) -> packet
    fails, stats = [], collections.Counter()

    def books(f):
        return tuple(held.get(f, (0, 0)))

    def compare(where):
        if fails:
            return
        stats['counter comparisons'] += 1
        for f in sorted(set(sched.all_flows()) | set(held), key=str):
            got = (sched.size(f), sched.byte_size(f))
            if got != books(f):
                fails.append({'what': f'{c["kind"]} at t={env.now} {where}: size({f}), byte_size({f}) = {got}; flow {f} has {books(f)[0]} packets / '
                                      f'{books(f)[1]} bytes waiting or in transmission (sizes of its packets inside: '
                                      f'{[p.size for p in inside.values() if p.flow_id == f]})', 'signature': 'sched-counters-fractional'})
                return

    class Out:
        def put(self, packet):
            n, b = held[packet.flow_id]
            held[packet.flow_id] = [n - 1, b - packet.size]
            del inside[id(packet)]
            stats['departures'] += 1
            compare(f'at the departure of packet {packet.packet_id} (size {packet.size})')

    sched.out = Out()
    pid = [0]

    def source(script):
        for d, burst in script:
            yield env.timeout(d)
            for f, z in burst:
                pid[0] += 1
                p = Packet(env.now, z, pid[0], src='src', flow_id=f)
                with quiet():
                    sched.put(p)
                n, b = held.get(f, (0, 0))
                held[f] = [n + 1, b + z]
                inside[id(p)] = p
                stats['arrivals'] += 1
                stats['arrivals of a non-integer size'] += int(z != int(z))
                compare(f'after put of packet {p.packet_id} (size {z})')

    for script in c['sources']:
        env.process(source(script))
    peer = None
    if c.get('peer'):
        pc = dict(c, rate=c['peer']['rate'], table=c['peer']['table'], flows=list(reversed(c['flows'])))
        with quiet():
            peer = build(env, pc)
        pin, pout = [], []

        class POut:
            def put(self, packet):
                pout.append(packet)
        peer.out = POut()

        def psource():
            for d, burst in c['peer']['script']:
                yield env.timeout(d)
                for f, z in burst:
                    q = Packet(env.now, z, 9000 + len(pin), src='peer', flow_id=f)
                    pin.append(q)
                    with quiet():
                        peer.put(q)
        env.process(psource())
        if c['peer']['monitor']:
            pp = [tx_ for tx_ in (0.5, 1, 3, 1, 0.25, 7)]
            Monitor(env, peer, lambda: (pp.pop(0) * 8.0 / c['rate']) if pp else INF, True)
    mons = []
    for mc in c.get('monitors') or []:
        periods = list(mc['periods'])
        def dist(periods=periods):
            return periods.pop(0) if periods else INF
        mons.append([Monitor(env, sched, dist, mc['included']), mc['included'], 0])
    steps = 0
    try:
        while env.peek() < INF and steps < max_steps and not fails:
            steps += 1
            with quiet():
                env.step()
            compare('after a kernel step')
            for m in mons:
                mon, inc = m[0], m[1]
                n = sum(len(v) for v in mon.sizes.values())
                if n == m[2]:
                    continue
                m[2] = n
                # the Monitor sampled in this kernel step; nothing else of the scheduler ran in it
                cur = sched.packet_in_service
                if cur is not None and id(cur) not in inside:
                    continue            # (a packet in service that is not inside would be reported by the other oracles)
                for f in sched.all_flows():
                    if not mon.sizes.get(f):
                        continue
                    got = (mon.sizes[f][-1], mon.byte_sizes[f][-1])
                    n0, b0 = books(f)
                    if not inc and cur is not None and cur.flow_id == f:
                        n0, b0 = n0 - 1, b0 - cur.size
                    stats['monitor samples'] += 1
                    if got != (n0, b0) and not fails:
                        fails.append({'what': f'{c["kind"]} Monitor(service_included={inc}) sampled {got} for flow {f} at t={env.now}; the flow has {books(f)} '
                                              f'packets / bytes waiting or in transmission, packet in service: '
                                              f'{None if cur is None else (cur.packet_id, cur.flow_id, cur.size)} -> {(n0, b0)}',
                                      'signature': 'sched-monitor-fractional'})
    except Exception as x:      # noqa
        fails.append({'what': f'{c["kind"]} with non-integer packet sizes: the run raised {type(x).__name__}: {x}', 'signature': 'sched-raised-fractional'})
    if not fails and steps < max_steps:
        left = {f: tuple(v) for f, v in held.items() if tuple(v) != (0, 0)}
        if left:
            fails.append({'what': f'{c["kind"]}: the simulation ran out of events with {left} (packets, bytes) per flow never transmitted',
                          'signature': 'sched-exactly-once-fractional'})
        compare('when the simulation ran out of events')
    if peer is not None:
        stats['cases with a peer scheduler in the same Environment'] += 1
        stats['peer scheduler: packets'] += len(pin)
        if not fails and steps < max_steps and [id(q) for q in pin if id(q) not in {id(x) for x in pout}]:
            fails.append({'what': f'{c["kind"]}: a second scheduler of the same kind in the same Environment (table {c["peer"]["table"]}) was handed '
                                  f'{len(pin)} packets and transmitted {len(pout)} when the simulation ran out of events',
                          'signature': 'sched-exactly-once-fractional'})
    return fails, stats


def run_family(ctx):
    rng = random.Random(f'C12-frac-{ctx.seed}')
    if ctx.replay:
        j = json.load(open(ctx.replay))
        cases = [j['case']] if j.get('case') else [d['case'] for d in j.get('broken_correspondence', []) if d.get('case')]
        cases = [c for c in cases if str(c.get('kind', '')).startswith('frac:')]
    else:
        cases = [gen_case(rng, i) for i in range(480 if ctx.quick else 12000)]
    orc, hist, nontriv, samples = [], collections.Counter(), 0, []
    for c in cases:
        fails, st = run_case(c)
        hist.update(st)
        hist['kind:' + c['kind']] += 1
        if c.get('map'):
            hist['with flow2class map'] += 1
        if st['arrivals of a non-integer size'] and st['departures']:
            nontriv += 1
            if len(samples) < 1:
                samples.append(c)
        for f in fails[:1]:
            f['case'] = c
            f['trace'] = []
            orc.append(f)
    cov = {'evaluations': len(cases), 'distinct_nontrivial': nontriv, 'oracle_only': True,
           'rule': 'ORACLE-ONLY (outside the Lean replay): all six schedulers x workloads whose packet sizes are binary fractions; size()/byte_size() '
                   'and Monitor samples against the packets handed in and not yet handed on; non-trivial = a packet of non-integer size was transmitted',
           'samples': samples, 'operation_histogram': dict(sorted(hist.items()))}
    return {'coverage': cov, 'disagreements': [], 'oracle_failures': orc}
