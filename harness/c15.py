"""C15 - round-robin schedulers give each backlogged class its per-visit allowance (RR, WRR, DRR)."""
from vlib.util import guarded_leg
import random
from harness.mq import gen_group, evaluate, cases_from_replay
from harness.mqoracle import oracle_c15, oracle_c12
from harness import dynsched

ASSUMPTIONS = [
    'workloads over the configured flows/classes; weights are positive integers; sizes positive integers; rate > 0; `out` attached',
    '"backlogged" is what the loops test: queue_count[flow] > 0 (RR, WRR), class_count[class] > 0 (DRR) = packets waiting or in transmission (C12)',
    'after an idle period the loops restart their pass at the first class (the classes behind the last served one were visited, empty, before the loop blocked)',
    'DRR theorems assume packets of at most Lmax bytes and a dict of positive weights; credits and quanta are exact rationals in the theorems, '
    'IEEE doubles compared bit for bit in the replay',
    'the scheduler processes on the real kernel refine the MultiQueueServer LTS: checked by replay; proved for RR, WRR and DRR as processes on the kernel model (Props/C15K, C15KW, C15KD: one source, identity flow2class)',
    'in 15% of the cases size()/byte_size()/all_flows() of every configured flow are read before the first arrival and between arrivals; those instances are judged by the direct oracles only (a read makes a flow show up in all_flows() before its first packet)',
]
ASSUMPTIONS.append('re-entrant / rewriting next hop and reconfiguration while running (oracle-only family, harness/dynsched.py; RR, WRR, DRR): the next hop re-labels `flow_id` or '
                   'rewrites `size` of the packet it is handed, or hands packets straight back to put(), inside its own put(); the values of WRR\'s `weights` dict are edited in '
                   'place and `rate` is reassigned by another process - the allowance of a WRR visit is read as the weight in force when the visit begins. Judged: cyclic '
                   'declaration order with empty classes skipped (RR, WRR), and that no loop rests while a class is backlogged (all three). Not generated: `weights` re-bound '
                   'to another dict (the pass in progress still iterates the old one: left open), DRR with a re-sizing next hop (finding, see dynsched.EXCLUDED)')
EXTRA_MODULES = ('OnlVerif.Props.C15K', 'OnlVerif.Props.C15KW', 'OnlVerif.Props.C15KD')
TRUSTED_EXTRA = ['the kernel guarantees (G1-G3) that make `tick` admissible only at quiescence are theorems of model K (C01), assumed for the device LTS',
                 'py2lean/elem.py + elements.py (typed AST-subset translator; hand-written per-class field schema of DRR objects; the fragments of '
                 'DRR.__init__ / run / put are located by structural landmarks); the bridge theorem C15.drr_generated_eq_model ties its output to the model']
BRIDGES = ['C15.drr_generated_eq_model']
HAND_MODELLED = ['DRR.run (the nested loops, head-of-line parking, the generator control flow; its arithmetic fragments are translated)',
                 'RR.run', 'WRR.run', 'MultiQueueScheduler (stores, packets_available)', 'Scheduler.send_packet / add_packet_to_queue']
_PREP = {}


def prepare(ctx):
    """regenerate lean/OnlVerif/Generated/Drr.lean from the source under $ONL_REPO (a translator failure or a bridge
    theorem that no longer compiles is a broken obligation)"""
    from py2lean import translate, elements
    _PREP['translated'] = elements.TRANSLATED['Drr']
    _PREP['rewritten'] = translate.regenerate_all(only=('Drr',))
    _PREP['diff_vs_pinned'] = translate.diff_vs_pinned('Drr')


def gen(rng, n):
    return [gen_group(rng, i, ['rr', 'wrr', 'drr'][i % 3], backlog=rng.random() < 0.5, share=0.3, poll=0.15) for i in range(n)]


# ---- BEGIN rrk leg: RR as processes on the kernel MODEL (lean/OnlVerif/Net/RROnK.lean, driver mode `rrk`) ----
@guarded_leg(None)
def run_rrk(ctx, res=None):
    """Extra leg for Props/C15K.lean: the K program of the RR scheduler (put / send_packet / run + a source process), run at
    Float by the compiled driver, against the real RR with a real source process on the real kernel under env.run() (public API
    only: a subclass taps put() and send_packet(), a recording `out`), compared line for line - the key order of the three dicts
    included; plus C15/C12 restated over the implementation's own observations.  Called twice from run(): without `res` it answers
    whether ctx.replay is a replay of this leg (then only this leg runs); with the result dict of the main leg it appends its
    coverage / disagreements / failures."""
    import json, collections
    from vlib.util import bits, unbits, quiet, run_driver, split_cases
    from onl.sim import Environment
    from onl.packet import Packet
    from onl.scheduler import RR

    def replay_cases():
        j = json.load(open(ctx.replay))
        cs = ([j['case']] if j.get('case') else []) + [d['case'] for d in (j.get('broken_correspondence') or []) if d.get('case')]
        return [c for c in cs if isinstance(c, dict) and c.get('kind') == 'rrk']

    if res is None:
        if not (ctx.replay and replay_cases()):
            return None
        res = {'coverage': {'evaluations': 0, 'distinct_nontrivial': 0, 'rule': 'replay of an rrk case', 'samples': []},
               'disagreements': [], 'oracle_failures': []}
        run_rrk(ctx, res)
        k = res['coverage']['rr_on_kernel_model']
        res['coverage'].update(evaluations=k['evaluations'], distinct_nontrivial=k['distinct_nontrivial'], samples=[k['sample']])
        return res

    def gen(rng, cid):
        F = rng.randint(1, 5)
        flows = list(range(F))
        rng.shuffle(flows)                               # declaration order
        rate = rng.choice([8.0, 8.0, 8.0, 16.0, 4.0, 1000.0, 12345.678, 1e6 / 3])
        n = rng.randint(0, 14)
        shape = rng.choice(['burst', 'coincide', 'mixed', 'mixed', 'sparse', 'random'])
        arr = []
        for i in range(n):
            if shape == 'burst':
                gap = 0.0 if i else rng.choice([0.0, 1.0])
            elif shape == 'coincide':                    # unit-size packets at rate 8: transmissions last 1.0, arrivals on the grid
                gap = float(rng.choice([0, 0, 1, 1, 1, 2]))
            elif shape == 'sparse':
                gap = float(rng.choice([5, 10, 50]))
            elif shape == 'random':
                gap = rng.random() * 3
            else:
                gap = rng.choice([0.0, 0.0, 0.5, 1.0, 1.0, 2.0, 3.0, round(rng.random() * 4, 3)])
            size = 1 if shape == 'coincide' else rng.choice([1, 1, 2, 3, 4, 100, 1500])
            arr.append([gap, i, rng.randrange(F), size])
        if shape == 'coincide':
            rate = 8.0
        return {'cid': f'q{cid}', 'kind': 'rrk', 'F': F, 'flows': flows, 'rate': rate, 'arrivals': arr}

    def text(c):
        return ([f"CASE {c['cid']} {bits(c['rate'])} {c['F']}"] + [f'decl {f}' for f in c['flows']]
                + [f'arr {bits(g)} {i} {f} {sz}' for g, i, f, sz in c['arrivals']] + ['END'])

    def impl(c):
        env = Environment()
        hist = []

        class TapRR(RR):
            def put(self, packet):
                hist.append(f'put {packet.packet_id} {bits(env.now)}')
                return super().put(packet)

            def send_packet(self, packet):
                hist.append(f'serve {packet.packet_id} {bits(env.now)}')
                return super().send_packet(packet)

        class Rec:
            def put(self, packet):
                hist.append(f'out {packet.packet_id} {bits(env.now)}')
        with quiet():
            rr = TapRR(env, c['rate'], list(c['flows']))
        rr.out = Rec()

        def src():
            for gap, i, f, sz in c['arrivals']:
                yield env.timeout(gap)
                rr.put(Packet(env.now, sz, i, src='src', flow_id=f))
        env.process(src())
        try:
            with quiet():
                env.run()
            tag = 'RET'
        except BaseException as x:        # noqa - the property says the run never raises
            tag = f'RAISED {type(x).__name__}'
        cur = rr.current_packet
        lines = [tag] + hist + [f'cells rc={rr.packets_received} cur={"None" if cur is None else cur.packet_id} '
                                f'tokens={len(rr.packets_available.items)}']
        for f in range(c['F']):
            st = rr.stores.get(f)
            lines.append(f'flow {f} count={rr.queue_count.get(f, 0)} bytes={rr.queue_byte_size.get(f, 0)} len={len(st.items) if st else 0}')
        lines.append(f'keys count={list(rr.queue_count.keys())} bytes={list(rr.queue_byte_size.keys())} stores={list(rr.stores.keys())}')
        return lines + [f'now {bits(env.now)}', 'oracle ok' if tag == 'RET' and not oracle_k(c, lines)[0] else 'oracle -' if tag != 'RET' else 'oracle REJECT']

    def oracle_k(c, lines):
        """C15/C12 restated over the implementation's own put / serve / out observations (exact float equalities: the kernel computes
        `now + delay` itself): the run returns; serve and out alternate on the same packet; out = serve + 8*size/rate; the j-th
        service starts at max(j-th arrival instant, previous departure) (never idle with a backlog); every packet leaves once, per
        flow in arrival order; classes are visited cyclically in declaration order, one packet per visit: between the entry behind the
        one served last and the entry served now (wrapping at the end of `flows`) no entry has a packet that arrived in an earlier
        instant and still waits"""
        if lines[0] != 'RET':
            return [{'what': f'the run ended with {lines[0]}', 'signature': 'rrk-raised'}], 0
        flows = c['flows']
        info = {i: (f, sz) for _, i, f, sz in c['arrivals']}
        waiting, busy, served, outs, arrt, multi, tput, cursor = [], None, [], [], [], 0, {}, 0
        for l in lines[1:]:
            w = l.split()
            if w[0] not in ('put', 'serve', 'out'):
                continue
            i, t = int(w[1]), unbits(int(w[2]))
            if w[0] == 'put':
                waiting.append(i); arrt.append(t); tput[i] = t
            elif w[0] == 'serve':
                if busy is not None:
                    return [{'what': f'packet {i} taken while {busy[0]} is in transmission', 'signature': 'rrk-overlap'}], multi
                if i not in waiting:
                    return [{'what': f'packet {i} served but not waiting', 'signature': 'rrk-not-waiting'}], multi
                f = info[i][0]
                if [x for x in waiting if info[x][0] == f][0] != i:
                    return [{'what': f'packet {i} overtakes an older packet of flow {f}', 'signature': 'rrk-flow-order'}], multi
                j = flows.index(f)
                skipped = list(range(cursor, j)) if cursor <= j else list(range(cursor, len(flows))) + list(range(j))
                # waiting at the decision = put in an earlier instant (the decision burst precedes this observation within the instant)
                early = [x for x in waiting if tput[x] < t and flows.index(info[x][0]) in skipped]
                if early:
                    return [{'what': f'packet {i} (entry {j} of flows) is served from cursor {cursor} while packet {early[0]} of entry '
                                     f'{flows.index(info[early[0]][0])} waits', 'signature': 'rrk-visit-order'}], multi
                if len({info[x][0] for x in waiting if tput[x] < t}) > 1:
                    multi += 1
                k = len(served)
                want = arrt[k] if not outs else max(arrt[k], outs[-1][1])
                if t != want:
                    return [{'what': f'service {k} (packet {i}) starts at {t!r}, work conservation prescribes {want!r}', 'signature': 'rrk-idle'}], multi
                waiting.remove(i); busy = (i, t); served.append(i); cursor = j + 1
            else:
                if busy is None or busy[0] != i:
                    return [{'what': f'packet {i} leaves but is not the one in transmission', 'signature': 'rrk-out'}], multi
                if t != busy[1] + info[i][1] * 8.0 / c['rate']:
                    return [{'what': f'packet {i}: transmission {busy[1]!r} -> {t!r}, not 8*size/rate', 'signature': 'rrk-tx-time'}], multi
                outs.append((i, t)); busy = None
        if busy is not None or waiting or sorted(i for i, _ in outs) != sorted(info):
            return [{'what': f'not every packet left: waiting {waiting[:6]}, in transmission {busy}', 'signature': 'rrk-drain'}], multi
        return [], multi

    rng = random.Random(f'C15-rrk-{ctx.seed}')
    cases = replay_cases() if ctx.replay else [gen(rng, i) for i in range(300 if ctx.quick else 5000)]
    txt, got = [], {}
    for c in cases:
        got[c['cid']] = impl(c)
        txt += text(c)
    model = split_cases(run_driver('rrk', '\n'.join(txt) + '\n')) if cases else {}
    hist, nontriv = collections.Counter(), 0
    dis, orc = res['disagreements'], res['oracle_failures']
    for c in cases:
        a, b = got[c['cid']], model.get(c['cid'])
        if a != b:
            i = next((i for i in range(max(len(a), len(b or []))) if i >= len(a) or not b or i >= len(b) or a[i] != b[i]), 0)
            dis.append({'case': c, 'detail': f'rrk line {i}: impl `{a[i] if i < len(a) else None}` model `{b[i] if b and i < len(b) else None}`',
                        'impl': a[:300], 'model': (b or [])[:300]})
        fails, multi = oracle_k(c, a)
        for f in fails:
            f['case'] = c; f['trace'] = a[:300]
            orc.append(f)
        ev = [l.split() for l in a if l.split()[0] in ('put', 'serve', 'out')]
        out_t = {w[2] for w in ev if w[0] == 'out'}
        coinc = sum(1 for w in ev if w[0] == 'put' and w[2] in out_t)
        hist['packets'] += len(c['arrivals']); hist['decisions with several classes waiting'] += multi
        hist['arrivals at a transmission end'] += coinc
        hist[f"flows:{c['F']}"] += 1
        if multi or coinc:
            nontriv += 1
    res['coverage']['rr_on_kernel_model'] = {
        'evaluations': len(cases), 'distinct_nontrivial': nontriv, 'lines_compared': sum(len(v) for v in got.values()),
        'rule': 'random declaration orders of 1-5 flows x one source (bursts, arrivals on the grid of the transmission ends, sparse, random '
                'gaps) run by the K program at Float (driver mode rrk) and by the real RR with a real source process under env.run(); '
                'non-trivial = a decision with two or more classes waiting or an arrival at a transmission end',
        'histogram': dict(sorted(hist.items())), 'sample': cases[0] if cases else None}
    return None
# ---- END rrk leg ----


# ---- BEGIN wrrk leg: WRR as processes on the kernel MODEL (lean/OnlVerif/Net/WRROnK.lean, driver mode `wrrk`) ----
@guarded_leg(None)
def run_wrrk(ctx, res=None):
    """Extra leg for Props/C15KW.lean: the K program of the WRR scheduler (put / send_packet / run + a source process), run at
    Float by the compiled driver, against the real WRR with a real source process on the real kernel under env.run() (public API
    only: a subclass taps put() and send_packet(), a recording `out`, the `get` of the public attribute
    `packets_available` is wrapped to note the idle periods), compared line for line - the key order of the three dicts
    included; plus C15/C12 restated over the implementation's own observations.  Called twice from run(): without `res` it answers
    whether ctx.replay is a replay of this leg (then only this leg runs); with the result dict of the main leg it appends its
    coverage / disagreements / failures."""
    import json, collections
    from vlib.util import bits, unbits, quiet, run_driver, split_cases
    from onl.sim import Environment
    from onl.packet import Packet
    from onl.scheduler import WRR

    def replay_cases():
        j = json.load(open(ctx.replay))
        cs = ([j['case']] if j.get('case') else []) + [d['case'] for d in (j.get('broken_correspondence') or []) if d.get('case')]
        return [c for c in cs if isinstance(c, dict) and c.get('kind') == 'wrrk']

    if res is None:
        if not (ctx.replay and replay_cases()):
            return None
        res = {'coverage': {'evaluations': 0, 'distinct_nontrivial': 0, 'rule': 'replay of an wrrk case', 'samples': []},
               'disagreements': [], 'oracle_failures': []}
        run_wrrk(ctx, res)
        k = res['coverage']['wrr_on_kernel_model']
        res['coverage'].update(evaluations=k['evaluations'], distinct_nontrivial=k['distinct_nontrivial'], samples=[k['sample']])
        return res

    def gen(rng, cid):
        F = rng.randint(1, 5)
        flows = list(range(F))
        rng.shuffle(flows)                               # insertion order of the weights dict
        weights = [[f, rng.choice([1, 1, 2, 2, 3, 4])] for f in flows]
        rate = rng.choice([8.0, 8.0, 8.0, 16.0, 4.0, 1000.0, 12345.678, 1e6 / 3])
        n = rng.randint(0, 14)
        shape = rng.choice(['burst', 'coincide', 'mixed', 'mixed', 'sparse', 'random'])
        arr = []
        for i in range(n):
            if shape == 'burst':
                gap = 0.0 if i else rng.choice([0.0, 1.0])
            elif shape == 'coincide':                    # unit-size packets at rate 8: transmissions last 1.0, arrivals on the grid
                gap = float(rng.choice([0, 0, 1, 1, 1, 2]))
            elif shape == 'sparse':
                gap = float(rng.choice([5, 10, 50]))
            elif shape == 'random':
                gap = rng.random() * 3
            else:
                gap = rng.choice([0.0, 0.0, 0.5, 1.0, 1.0, 2.0, 3.0, round(rng.random() * 4, 3)])
            size = 1 if shape == 'coincide' else rng.choice([1, 1, 2, 3, 4, 100, 1500])
            arr.append([gap, i, rng.randrange(F), size])
        if shape == 'coincide':
            rate = 8.0
        return {'cid': f'q{cid}', 'kind': 'wrrk', 'F': F, 'weights': weights, 'rate': rate, 'arrivals': arr}

    def text(c):
        return ([f"CASE {c['cid']} {bits(c['rate'])} {c['F']}"] + [f'decl {f} {wt}' for f, wt in c['weights']]
                + [f'arr {bits(g)} {i} {f} {sz}' for g, i, f, sz in c['arrivals']] + ['END'])

    def impl(c):
        env = Environment()
        hist = []

        class TapRR(WRR):
            def put(self, packet):
                hist.append(f'put {packet.packet_id} {bits(env.now)}')
                return super().put(packet)

            def send_packet(self, packet):
                hist.append(f'serve {packet.packet_id} {bits(env.now)}')
                return super().send_packet(packet)

        class Rec:
            def put(self, packet):
                hist.append(f'out {packet.packet_id} {bits(env.now)}')
        with quiet():
            rr = TapRR(env, c['rate'], dict(map(tuple, c['weights'])))
        _get = rr.packets_available.get

        def tapped_get():
            hist.append(f'idle {bits(env.now)}')
            return _get()
        rr.packets_available.get = tapped_get
        rr.out = Rec()

        def src():
            for gap, i, f, sz in c['arrivals']:
                yield env.timeout(gap)
                rr.put(Packet(env.now, sz, i, src='src', flow_id=f))
        env.process(src())
        try:
            with quiet():
                env.run()
            tag = 'RET'
        except BaseException as x:        # noqa - the property says the run never raises
            tag = f'RAISED {type(x).__name__}'
        cur = rr.current_packet
        lines = [tag] + hist + [f'cells rc={rr.packets_received} cur={"None" if cur is None else cur.packet_id} '
                                f'tokens={len(rr.packets_available.items)}']
        for f in range(c['F']):
            st = rr.stores.get(f)
            lines.append(f'flow {f} count={rr.queue_count.get(f, 0)} bytes={rr.queue_byte_size.get(f, 0)} len={len(st.items) if st else 0}')
        lines.append(f'keys count={list(rr.queue_count.keys())} bytes={list(rr.queue_byte_size.keys())} stores={list(rr.stores.keys())}')
        return lines + [f'now {bits(env.now)}', 'oracle ok' if tag == 'RET' and not oracle_k(c, lines)[0] else 'oracle -' if tag != 'RET' else 'oracle REJECT']

    def oracle_k(c, lines):
        """C15/C12 restated over the implementation's own put / serve / out / idle observations (exact float equalities): the run
        returns; serve and out alternate on the same packet; out = serve + 8*size/rate; the j-th service starts at max(j-th arrival
        instant, previous departure); every packet leaves once, per flow in arrival order; the loop waits for the wake-up token only
        with nothing in the system; visits: entry cm of `weights` is being visited, cj packets sent in this visit (entry 0, none at
        the start and after an idle period); a service of entry j either continues the visit (j == cm and cj < weight) or the visit is
        over (cj >= weight, or no packet of its class waits from an earlier instant) and no entry between cm and j (cyclic) has a
        packet that arrived in an earlier instant and still waits"""
        if lines[0] != 'RET':
            return [{'what': f'the run ended with {lines[0]}', 'signature': 'wrrk-raised'}], 0
        ws = [tuple(x) for x in c['weights']]
        order = [f for f, _ in ws]
        info = {i: (f, sz) for _, i, f, sz in c['arrivals']}
        waiting, busy, served, outs, arrt, multi, tput, cm, cj = [], None, [], [], [], 0, {}, 0, 0
        for l in lines[1:]:
            w = l.split()
            if w[0] == 'idle':
                if busy is not None or waiting:
                    return [{'what': f'the loop waits for the wake-up token while packets {waiting[:6]} wait / {busy} is in transmission',
                             'signature': 'wrrk-idle-with-backlog'}], multi
                cm, cj = 0, 0
                continue
            if w[0] not in ('put', 'serve', 'out'):
                continue
            i, t = int(w[1]), unbits(int(w[2]))
            if w[0] == 'put':
                waiting.append(i); arrt.append(t); tput[i] = t
            elif w[0] == 'serve':
                if busy is not None:
                    return [{'what': f'packet {i} taken while {busy[0]} is in transmission', 'signature': 'wrrk-overlap'}], multi
                if i not in waiting:
                    return [{'what': f'packet {i} served but not waiting', 'signature': 'wrrk-not-waiting'}], multi
                f = info[i][0]
                if [x for x in waiting if info[x][0] == f][0] != i:
                    return [{'what': f'packet {i} overtakes an older packet of flow {f}', 'signature': 'wrrk-flow-order'}], multi
                j = order.index(f)
                early = lambda pos: [x for x in waiting if tput[x] < t and order.index(info[x][0]) == pos]
                if j == cm and cj < ws[cm][1]:
                    cj += 1
                else:
                    if cj < ws[cm][1] and early(cm):
                        return [{'what': f'packet {i} (entry {j}) is served although the visit of entry {cm} has sent only {cj} of '
                                         f'{ws[cm][1]} packets and packet {early(cm)[0]} of that class waits', 'signature': 'wrrk-visit-cut-short'}], multi
                    start = cm + 1
                    skipped = list(range(start, j)) if start <= j else list(range(start, len(ws))) + list(range(j))
                    bad = [x for pos in skipped for x in early(pos)]
                    if bad:
                        return [{'what': f'packet {i} (entry {j} of weights) is served after entry {cm} while packet {bad[0]} of entry '
                                         f'{order.index(info[bad[0]][0])} waits', 'signature': 'wrrk-visit-order'}], multi
                    cm, cj = j, 1
                if len({info[x][0] for x in waiting if tput[x] < t}) > 1:
                    multi += 1
                k = len(served)
                want = arrt[k] if not outs else max(arrt[k], outs[-1][1])
                if t != want:
                    return [{'what': f'service {k} (packet {i}) starts at {t!r}, work conservation prescribes {want!r}', 'signature': 'wrrk-idle'}], multi
                waiting.remove(i); busy = (i, t); served.append(i)
            else:
                if busy is None or busy[0] != i:
                    return [{'what': f'packet {i} leaves but is not the one in transmission', 'signature': 'wrrk-out'}], multi
                if t != busy[1] + info[i][1] * 8.0 / c['rate']:
                    return [{'what': f'packet {i}: transmission {busy[1]!r} -> {t!r}, not 8*size/rate', 'signature': 'wrrk-tx-time'}], multi
                outs.append((i, t)); busy = None
        if busy is not None or waiting or sorted(i for i, _ in outs) != sorted(info):
            return [{'what': f'not every packet left: waiting {waiting[:6]}, in transmission {busy}', 'signature': 'wrrk-drain'}], multi
        return [], multi

    rng = random.Random(f'C15-wrrk-{ctx.seed}')
    cases = replay_cases() if ctx.replay else [gen(rng, i) for i in range(300 if ctx.quick else 5000)]
    txt, got = [], {}
    for c in cases:
        got[c['cid']] = impl(c)
        txt += text(c)
    model = split_cases(run_driver('wrrk', '\n'.join(txt) + '\n')) if cases else {}
    hist, nontriv = collections.Counter(), 0
    dis, orc = res['disagreements'], res['oracle_failures']
    for c in cases:
        a, b = got[c['cid']], model.get(c['cid'])
        if a != b:
            i = next((i for i in range(max(len(a), len(b or []))) if i >= len(a) or not b or i >= len(b) or a[i] != b[i]), 0)
            dis.append({'case': c, 'detail': f'wrrk line {i}: impl `{a[i] if i < len(a) else None}` model `{b[i] if b and i < len(b) else None}`',
                        'impl': a[:300], 'model': (b or [])[:300]})
        fails, multi = oracle_k(c, a)
        for f in fails:
            f['case'] = c; f['trace'] = a[:300]
            orc.append(f)
        ev = [l.split() for l in a if l.split()[0] in ('put', 'serve', 'out')]
        out_t = {w[2] for w in ev if w[0] == 'out'}
        coinc = sum(1 for w in ev if w[0] == 'put' and w[2] in out_t)
        hist['packets'] += len(c['arrivals']); hist['decisions with several classes waiting'] += multi
        hist['arrivals at a transmission end'] += coinc
        hist[f"flows:{c['F']}"] += 1
        if multi or coinc:
            nontriv += 1
    res['coverage']['wrr_on_kernel_model'] = {
        'evaluations': len(cases), 'distinct_nontrivial': nontriv, 'lines_compared': sum(len(v) for v in got.values()),
        'rule': 'random weight tables (weights 1-4, random dict order) over 1-5 flows x one source (bursts, arrivals on the grid of the transmission ends, sparse, random '
                'gaps) run by the K program at Float (driver mode wrrk) and by the real WRR with a real source process under env.run(); '
                'non-trivial = a decision with two or more classes waiting or an arrival at a transmission end',
        'histogram': dict(sorted(hist.items())), 'sample': cases[0] if cases else None}
    return None
# ---- END wrrk leg ----


# ---- BEGIN drrk leg: DRR as processes on the kernel MODEL (lean/OnlVerif/Net/DRROnK.lean, driver mode `drrk`) ----
@guarded_leg(None)
def run_drrk(ctx, res=None):
    """Extra leg for Props/C15KD.lean: the K program of the DRR scheduler (put / send_packet / __init__ / run + a source process),
    run at Float by the compiled driver, against the real DRR with a real source process on the real kernel under env.run()
    (public API only: a subclass taps put() and send_packet(), a recording `out`, the `get` of the public attribute
    `packets_available` is wrapped to note the idle periods, the public dicts `deficit` and `head_of_line` are replaced by dicts
    that note their writes), compared line for line - every put / serve / out / idle / visit / park / done / reset with `now`
    bits, every value written to `deficit`, the final counters and the key orders of the dicts; plus C15/C12 restated over the
    implementation's own observations.  Called twice from run(): without `res` it answers whether ctx.replay is a replay of this
    leg (then only this leg runs); with the result dict of the main leg it appends its coverage / disagreements / failures."""
    import json, collections
    from vlib.util import bits, unbits, quiet, run_driver, split_cases
    from onl.sim import Environment
    from onl.packet import Packet
    from onl.scheduler import DRR

    def replay_cases():
        j = json.load(open(ctx.replay))
        cs = ([j['case']] if j.get('case') else []) + [d['case'] for d in (j.get('broken_correspondence') or []) if d.get('case')]
        return [c for c in cs if isinstance(c, dict) and c.get('kind') == 'drrk']

    if res is None:
        if not (ctx.replay and replay_cases()):
            return None
        res = {'coverage': {'evaluations': 0, 'distinct_nontrivial': 0, 'rule': 'replay of a drrk case', 'samples': []},
               'disagreements': [], 'oracle_failures': []}
        run_drrk(ctx, res)
        k = res['coverage']['drr_on_kernel_model']
        res['coverage'].update(evaluations=k['evaluations'], distinct_nontrivial=k['distinct_nontrivial'], samples=[k['sample']])
        return res

    def gen(rng, cid):
        F = rng.randint(1, 5)
        classes = list(range(F))
        rng.shuffle(classes)                             # insertion order of the weights dict
        weights = [[f, rng.choice([1, 1, 2, 2, 3, 4])] for f in classes]
        rate = rng.choice([4000.0, 4000.0, 8000.0, 1e6, 12345.678, 1e6 / 3])
        n = rng.randint(0, 14)
        shape = rng.choice(['burst', 'coincide', 'mixed', 'mixed', 'sparse', 'random', 'refill'])
        big = rng.random() < 0.5                         # packets larger than the quantum of their class (1500 .. 6000)
        arr = []
        for i in range(n):
            if shape == 'burst':
                gap = 0.0 if i else rng.choice([0.0, 1.0])
            elif shape == 'coincide':                    # sizes k*500 at rate 4000: transmissions last k, arrivals on that grid
                gap = float(rng.choice([0, 0, 1, 1, 2, 3]))
            elif shape == 'sparse':
                gap = float(rng.choice([5, 10, 50]))
            elif shape == 'random':
                gap = rng.random() * 6
            elif shape == 'refill':                      # a burst, then single packets while the round is under way
                gap = 0.0 if i < n // 2 else float(rng.choice([1, 2, 3]))
            else:
                gap = rng.choice([0.0, 0.0, 0.5, 1.0, 1.0, 2.0, 3.0, round(rng.random() * 4, 3)])
            if shape in ('coincide', 'refill'):
                size = 500 * rng.choice([1, 1, 2, 3, 3, 4, 7] + ([13, 19] if big else []))
            else:
                size = rng.choice([1, 100, 500, 1000, 1499, 1500, 1501, 2000, 3000] + ([4500, 6001, 9000, 20000] if big else []))
            arr.append([gap, i, rng.randrange(F), size])
        if shape in ('coincide', 'refill'):
            rate = 4000.0
        return {'cid': f'd{cid}', 'kind': 'drrk', 'F': F, 'weights': weights, 'rate': rate, 'arrivals': arr}

    def text(c):
        return ([f"CASE {c['cid']} {bits(c['rate'])} {c['F']}"] + [f'decl {f} {wt}' for f, wt in c['weights']]
                + [f'arr {bits(g)} {i} {f} {sz}' for g, i, f, sz in c['arrivals']] + ['END'])

    def impl(c):
        env = Environment()
        hist = []
        last_out = [None]

        class TapDRR(DRR):
            def put(self, packet):
                hist.append(f'put {packet.packet_id} {bits(env.now)}')
                return super().put(packet)

            def send_packet(self, packet):
                hist.append(f'serve {packet.packet_id} {bits(env.now)}')
                return super().send_packet(packet)

        class Rec:
            def put(self, packet):
                last_out[0] = packet.packet_id
                hist.append(f'out {packet.packet_id} {bits(env.now)}')

        class Credits(dict):
            """the public dict `deficit`: `d[c] += q` and `d[c] -= size` read the entry and then write it, `d[c] = 0.0` only writes"""
            read = None

            def __getitem__(self, k):
                self.read = k
                return dict.__getitem__(self, k)

            def __setitem__(self, k, v):
                if self.read == k and k in self:
                    hist.append(f'visit {k} {bits(env.now)}' if v > dict.__getitem__(self, k) else f'done {last_out[0]} {bits(env.now)}')
                else:
                    hist.append(f'reset {k} {bits(env.now)}')
                hist.append(f'credit {bits(v)}')
                self.read = None
                dict.__setitem__(self, k, v)

        class Parked(dict):
            def __setitem__(self, k, packet):
                hist.append(f'park {packet.packet_id} {bits(env.now)}')
                dict.__setitem__(self, k, packet)
        with quiet():
            rr = TapDRR(env, c['rate'], dict(map(tuple, c['weights'])))
        rr.deficit = Credits(rr.deficit)
        rr.head_of_line = Parked(rr.head_of_line)
        _get = rr.packets_available.get

        def tapped_get():
            hist.append(f'idle {bits(env.now)}')
            return _get()
        rr.packets_available.get = tapped_get
        rr.out = Rec()

        def src():
            for gap, i, f, sz in c['arrivals']:
                yield env.timeout(gap)
                rr.put(Packet(env.now, sz, i, src='src', flow_id=f))
        env.process(src())
        try:
            with quiet():
                env.run()
            tag = 'RET'
        except BaseException as x:        # noqa - the property says the run never raises
            tag = f'RAISED {type(x).__name__}'
        cur = rr.current_packet
        lines = [tag] + hist + [f'cells rc={rr.packets_received} cur={"None" if cur is None else cur.packet_id} '
                                f'tokens={len(rr.packets_available.items)}']
        for f in range(c['F']):
            st = rr.stores.get(f)
            hol = dict.get(rr.head_of_line, f)
            lines.append(f'class {f} count={rr.queue_count.get(f, 0)} bytes={rr.queue_byte_size.get(f, 0)} ccount={rr.class_count.get(f, 0)} '
                         f'deficit={bits(dict.get(rr.deficit, f, 0.0))} quantum={bits(rr.quantum.get(f, 0.0))} '
                         f'hol={"None" if hol is None else hol.packet_id} len={len(st.items) if st else 0}')
        lines.append(f'keys count={list(rr.queue_count.keys())} bytes={list(rr.queue_byte_size.keys())} stores={list(rr.stores.keys())} '
                     f'deficit={list(rr.deficit.keys())} ccount={list(rr.class_count.keys())}')
        return lines + [f'now {bits(env.now)}', 'oracle ok' if tag == 'RET' and not oracle_k(c, lines)[0] else 'oracle -' if tag != 'RET' else 'oracle REJECT']

    def oracle_k(c, lines):
        """C15/C12 for DRR restated over the implementation's own observations (exact float equalities): the run returns; the
        oracle keeps its own credit and backlog count (puts minus booked transmissions) per class and the entry of the declaration
        order being visited; `visit c`: nothing in transmission, c backlogged, the visit in progress over (head parked, credit not
        positive or class empty), every entry between the one after it (entry 0 after an idle period) and c cyclically empty, credit +=
        1500*w/min w and the value written to `deficit` is that credit; `serve i`: the class of i is the one being visited, credit
        positive, i is the parked head of its class if there is one else its oldest waiting packet, size <= credit, at the instant of the
        last departure or of the arrival of everything waiting; `park i`: the same but size > credit, the visit is over; `out`: exactly
        serve + 8*size/rate; `done i`: credit -= size and that is the value written; `reset c` exactly when the class has just emptied,
        the value written is 0.0; `idle` only with nothing in the system; every packet leaves once, per class in arrival order"""
        if lines[0] != 'RET':
            return [{'what': f'the run ended with {lines[0]}', 'signature': 'drrk-raised'}], 0
        ws = [tuple(x) for x in c['weights']]
        order = [f for f, _ in ws]
        minw = min(w for _, w in ws)
        quantum = {f: 1500 * w / minw for f, w in ws}
        info = {i: (f, sz) for _, i, f, sz in c['arrivals']}
        waiting = {f: [] for f in order}          # per class: ids handed to put, neither sent nor parked
        parked = {f: None for f in order}
        credit = {f: 0.0 for f in order}
        count = {f: 0 for f in order}
        tput, busy, lastout, cur, closed, tobook, toreset, expect, outs, multi, parks = {}, None, None, None, False, None, None, None, [], 0, 0

        def fail(what, sig):
            return [{'what': what, 'signature': sig}], multi
        for l in lines[1:]:
            w = l.split()
            if w[0] not in ('put', 'serve', 'out', 'idle', 'visit', 'credit', 'park', 'done', 'reset'):
                continue
            if w[0] == 'credit':
                if expect is None or unbits(int(w[1])) != expect:
                    return fail(f'deficit written as {unbits(int(w[1]))!r}, the rule gives {expect!r}', 'drrk-credit-value')
                expect = None
                continue
            if expect is not None:
                return fail(f'a change of credit without a write of `deficit` before `{l}`', 'drrk-credit-unwritten')
            if toreset is not None and w[0] != 'reset':
                return fail(f'class {toreset} has emptied but its credit is not reset before `{l}`', 'drrk-no-reset')
            t = unbits(int(w[-1]))
            quiet_ = busy is None and tobook is None
            if w[0] == 'idle':
                if not quiet_ or any(waiting.values()) or any(p is not None for p in parked.values()):
                    return fail('the loop waits for the wake-up token with packets in the system', 'drrk-idle-with-backlog')
                cur, closed = None, False
            elif w[0] == 'put':
                i = int(w[1]); f = info[i][0]
                waiting[f].append(i); tput[i] = t; count[f] += 1
            elif w[0] == 'visit':
                f = int(w[1])
                if not quiet_:
                    return fail(f'class {f} is visited during a transmission', 'drrk-visit-busy')
                if f not in order or count[f] <= 0:
                    return fail(f'the quantum is added to class {f} which is not backlogged', 'drrk-visit-empty')
                if cur is not None and not (closed or not credit[order[cur]] > 0 or not count[order[cur]] > 0):
                    return fail(f'class {f} is visited while the visit of class {order[cur]} (credit {credit[order[cur]]!r}) is not over',
                                'drrk-visit-cut-short')
                j, start = order.index(f), (0 if cur is None else cur + 1)
                skipped = list(range(start, j)) if start <= j else list(range(start, len(ws))) + list(range(j))
                bad = [order[x] for x in skipped if count[order[x]] > 0]
                if bad:
                    return fail(f'class {f} is visited although class {bad[0]}, earlier in the cyclic order, is backlogged', 'drrk-visit-order')
                if sum(1 for x in order if count[x] > 0) > 1:
                    multi += 1
                credit[f] += quantum[f]; expect = credit[f]; cur, closed = j, False
            elif w[0] in ('serve', 'park'):
                i = int(w[1]); f, sz = info[i]
                if not quiet_:
                    return fail(f'packet {i} taken while {busy} is in transmission', 'drrk-overlap')
                if cur is None or order[cur] != f or closed or not credit[f] > 0:
                    return fail(f'packet {i} of class {f} is taken while the visit in progress is that of entry {cur} (closed: {closed})', 'drrk-not-visited')
                head = parked[f] if parked[f] is not None else (waiting[f][0] if waiting[f] else None)
                if head != i:
                    return fail(f'packet {i} is taken but the head of class {f} is {head}', 'drrk-head')
                held = [x for q in waiting.values() for x in q] + [p for p in parked.values() if p is not None]
                if not (lastout == t or all(tput[x] == t for x in held)):
                    return fail(f'packet {i} is taken at {t!r}: neither the last departure ({lastout!r}) nor the arrival instant of what waits', 'drrk-idle')
                if (sz <= credit[f]) != (w[0] == 'serve'):
                    return fail(f'packet {i} of {sz} bytes is {"sent" if w[0] == "serve" else "parked"} with credit {credit[f]!r}', 'drrk-affordable')
                if parked[f] is not None:
                    parked[f] = None
                else:
                    waiting[f].pop(0)
                if w[0] == 'serve':
                    busy = (i, t)
                else:
                    parked[f] = i; closed = True; parks += 1
            elif w[0] == 'out':
                i = int(w[1])
                if busy is None or busy[0] != i or tobook is not None:
                    return fail(f'packet {i} leaves but is not the one in transmission', 'drrk-out')
                if t != busy[1] + info[i][1] * 8.0 / c['rate']:
                    return fail(f'packet {i}: transmission {busy[1]!r} -> {t!r}, not 8*size/rate', 'drrk-tx-time')
                outs.append(i); busy = None; lastout = t; tobook = i
            elif w[0] == 'done':
                i = int(w[1])
                if tobook != i:
                    return fail(f'the transmission of packet {i} is booked but {tobook} has left', 'drrk-book')
                f, sz = info[i]
                credit[f] -= sz; expect = credit[f]; count[f] -= 1; tobook = None
                if count[f] == 0:
                    toreset = f
            elif w[0] == 'reset':
                f = int(w[1])
                if toreset != f:
                    return fail(f'the credit of class {f} is reset although the class has not just emptied', 'drrk-reset')
                credit[f] = 0.0; expect = 0.0; toreset = None
        if busy is not None or tobook is not None or toreset is not None or expect is not None or any(waiting.values()) \
                or any(p is not None for p in parked.values()) or sorted(outs) != sorted(info):
            return fail(f'not every packet left: waiting {waiting}, parked {parked}, in transmission {busy}', 'drrk-drain')
        for f in order:
            if [i for i in outs if info[i][0] == f] != [i for _, i, g, _ in c['arrivals'] if g == f]:
                return fail(f'the packets of class {f} leave out of arrival order', 'drrk-flow-order')
        return [], (multi, parks)

    rng = random.Random(f'C15-drrk-{ctx.seed}')
    cases = replay_cases() if ctx.replay else [gen(rng, i) for i in range(300 if ctx.quick else 5000)]
    txt, got = [], {}
    for c in cases:
        got[c['cid']] = impl(c)
        txt += text(c)
    model = split_cases(run_driver('drrk', '\n'.join(txt) + '\n')) if cases else {}
    hist, nontriv = collections.Counter(), 0
    dis, orc = res['disagreements'], res['oracle_failures']
    for c in cases:
        a, b = got[c['cid']], model.get(c['cid'])
        if a != b:
            i = next((i for i in range(max(len(a), len(b or []))) if i >= len(a) or not b or i >= len(b) or a[i] != b[i]), 0)
            dis.append({'case': c, 'detail': f'drrk line {i}: impl `{a[i] if i < len(a) else None}` model `{b[i] if b and i < len(b) else None}`',
                        'impl': a[:400], 'model': (b or [])[:400]})
        fails, stats = oracle_k(c, a)
        for f in fails:
            f['case'] = c; f['trace'] = a[:400]
            orc.append(f)
        multi, parks = stats if isinstance(stats, tuple) else (0, 0)
        ev = [l.split() for l in a if l.split()[0] in ('put', 'serve', 'out')]
        out_t = {w[2] for w in ev if w[0] == 'out'}
        coinc = sum(1 for w in ev if w[0] == 'put' and w[2] in out_t)
        sizes = {i: sz for _, i, _, sz in c['arrivals']}
        minw = min([w for _, w in c['weights']] or [1])
        qof = {f: 1500 * w / minw for f, w in c['weights']}
        hist['packets'] += len(c['arrivals']); hist['visits with several classes backlogged'] += multi
        hist['heads parked'] += parks
        hist['packets larger than the quantum of their class'] += sum(1 for _, i, f, sz in c['arrivals'] if sz > qof[f])
        hist['arrivals at a transmission end'] += coinc
        hist['credit resets (class emptied)'] += sum(1 for l in a if l.startswith('reset '))
        hist[f"classes:{c['F']}"] += 1
        if multi or coinc or parks:
            nontriv += 1
    res['coverage']['drr_on_kernel_model'] = {
        'evaluations': len(cases), 'distinct_nontrivial': nontriv, 'lines_compared': sum(len(v) for v in got.values()),
        'rule': 'random weight tables (weights 1-4, random dict order) over 1-5 classes x one source (bursts, arrivals on the grid of the transmission '
                'ends, bursts refilled while the round is under way, sparse, random gaps; sizes on both sides of the quantum, up to several quanta) run by '
                'the K program at Float (driver mode drrk) and by the real DRR with a real source process under env.run(); non-trivial = a visit '
                'with two or more classes backlogged, a parked head, or an arrival at a transmission end',
        'histogram': dict(sorted(hist.items())), 'sample': cases[0] if cases else None}
    return None
# ---- END drrk leg ----


def run(ctx):
    rk = run_rrk(ctx)                        # rrk leg: a replay of one of its cases runs only that leg
    if rk is not None:
        return rk
    rk = run_wrrk(ctx)                       # wrrk leg: likewise
    if rk is not None:
        return rk
    rk = run_drrk(ctx)                       # drrk leg: likewise
    if rk is not None:
        return rk
    rng = random.Random(f'C15-{ctx.seed}')
    cases = cases_from_replay(ctx.replay) if ctx.replay else gen(rng, 1500 if ctx.quick else 30000)
    cases = [c for c in cases if not str(c.get('kind', '')).startswith('dyn:')]      # (a replay of an oracle-only case: see below)
    res = evaluate(
        cases, [oracle_c15, oracle_c12],
        nontrivial=lambda c, r, st, co: st.get('multi_class_decisions', 0) > 0,
        rule='seeded random class tables (2-6 flows, weights 1-4; DRR also many-to-one flow2class maps, packet sizes on both sides of the '
             'quantum) x workloads (1-3 sources, same-instant bursts, front-loaded backlogs, classes emptying and refilling, idle gaps); '
             'non-trivial = distinct case with at least one decision taken while two or more classes were backlogged')
    res['coverage'].update({'translated': _PREP.get('translated', []), 'generated_files_rewritten': _PREP.get('rewritten', []),
                            'generated_diff_vs_pinned': _PREP.get('diff_vs_pinned', []), 'bridge_theorems': BRIDGES,
                            'hand_modelled': HAND_MODELLED})
    run_rrk(ctx, res)                        # rrk leg: appends its coverage, disagreements and oracle failures in place
    run_wrrk(ctx, res)                       # wrrk leg: likewise
    run_drrk(ctx, res)                       # drrk leg: likewise
    # oracle-only: next hops that re-label / re-size the packet or call back into put(), WRR weights edited in place, the rate reassigned
    d = dynsched.run_family(ctx, 'C15', ['rr', 'wrr', 'drr'], ['relabel', 'relabel', 'relabel', 'reflect', 'resize', 'weights', 'rate'], ['roundrobin', 'service'], 200, 4000)
    res['coverage']['reconfigured_and_reentrant_family_oracle_only'] = d['coverage']
    res['oracle_failures'] += d['oracle_failures']
    return res
