"""C15 - round-robin schedulers give each backlogged class its per-visit allowance (RR, WRR, DRR)."""
import random
from harness.mq import gen_group, evaluate, cases_from_replay
from harness.mqoracle import oracle_c15, oracle_c12

ASSUMPTIONS = [
    'workloads over the configured flows/classes; weights are positive integers; sizes positive integers; rate > 0; `out` attached',
    '"backlogged" is what the loops test: queue_count[flow] > 0 (RR, WRR), class_count[class] > 0 (DRR) = packets waiting or in transmission (C12)',
    'after an idle period the loops restart their pass at the first class (the classes behind the last served one were visited, empty, before the loop blocked)',
    'DRR theorems assume packets of at most Lmax bytes and a dict of positive weights; credits and quanta are exact rationals in the theorems, '
    'IEEE doubles compared bit for bit in the replay',
    'the scheduler processes on the real kernel refine the MultiQueueServer LTS: checked by replay, not proved',
    'in 15% of the cases size()/byte_size()/all_flows() of every configured flow are read before the first arrival and between arrivals; those instances are judged by the direct oracles only (a read makes a flow show up in all_flows() before its first packet)',
]
TRUSTED_EXTRA = ['the kernel guarantees (G1-G3) that make `tick` admissible only at quiescence are theorems of model K (C01), assumed for the device LTS',
                 'py2lean/elem.py + elements.py (typed AST-subset translator; hand-written per-class field schema of DRR objects; the fragments of '
                 'DRR.__init__ / run / put are located by structural landmarks); the bridge theorem C15.drr_generated_eq_model ties its output to the model']
BRIDGES = ['C15.drr_generated_eq_model']
HAND_MODELLED = ['DRR.run (the nested loops, head-of-line parking, the generator control flow; its arithmetic fragments are translated)',
                 'RR.run', 'WRR.run', 'MultiQueueScheduler (stores, packets_available)', 'Scheduler.send_packet / add_packet_to_queue']
_PREP = {}


def prepare(ctx):
    """regenerate lean/OnlVerif/Generated/Drr.lean from the source under $ONL_REPO (a translator failure or a bridge
    theorem that no longer compiles is a broken obligation)"""
    from py2lean import translate, elements
    _PREP['translated'] = elements.TRANSLATED['Drr']
    _PREP['rewritten'] = translate.regenerate_all(only=('Drr',))
    _PREP['diff_vs_pinned'] = translate.diff_vs_pinned('Drr')


def gen(rng, n):
    return [gen_group(rng, i, ['rr', 'wrr', 'drr'][i % 3], backlog=rng.random() < 0.5, share=0.3, poll=0.15) for i in range(n)]


def run(ctx):
    rng = random.Random(f'C15-{ctx.seed}')
    cases = cases_from_replay(ctx.replay) if ctx.replay else gen(rng, 1500 if ctx.quick else 30000)
    res = evaluate(
        cases, [oracle_c15, oracle_c12],
        nontrivial=lambda c, r, st, co: st.get('multi_class_decisions', 0) > 0,
        rule='seeded random class tables (2-6 flows, weights 1-4; DRR also many-to-one flow2class maps, packet sizes on both sides of the '
             'quantum) x workloads (1-3 sources, same-instant bursts, front-loaded backlogs, classes emptying and refilling, idle gaps); '
             'non-trivial = distinct case with at least one decision taken while two or more classes were backlogged')
    res['coverage'].update({'translated': _PREP.get('translated', []), 'generated_files_rewritten': _PREP.get('rewritten', []),
                            'generated_diff_vs_pinned': _PREP.get('diff_vs_pinned', []), 'bridge_theorems': BRIDGES,
                            'hand_modelled': HAND_MODELLED})
    return res
