"""C13 - static priority always serves the highest-priority backlogged flow (SP)."""
import random
from harness.mq import gen_group, evaluate, cases_from_replay
from harness.mqoracle import oracle_c13, oracle_c12

ASSUMPTIONS = [
    'workloads over the configured flows; priorities are positive integers; sizes positive integers; rate > 0; `out` attached',
    'the start of a transmission is the scheduler\'s decision burst (DESIGN section 3): a packet arriving later in the same instant is not "waiting at the start"',
    'theorems are over exact rationals; the replay compares IEEE doubles bit for bit',
    'the SP process on the real kernel refines the MultiQueueServer LTS: checked by replay (labels from Process.target and the sender process), not proved',
    'SP\'s annotation packet.priorities[flow2class(flow)] = prio is not modelled (it influences nothing the property speaks about)',
]
TRUSTED_EXTRA = ['the kernel guarantees (G1-G3) that make `tick` admissible only at quiescence are theorems of model K (C01), assumed for the device LTS']


def gen(rng, n):
    return [gen_group(rng, i, 'sp', backlog=rng.random() < 0.6, share=0.35) for i in range(n)]


def run(ctx):
    rng = random.Random(f'C13-{ctx.seed}')
    cases = cases_from_replay(ctx.replay) if ctx.replay else gen(rng, 500 if ctx.quick else 10000)
    return evaluate(
        cases, [oracle_c13, oracle_c12],
        nontrivial=lambda c, r, st, co: st.get('multi_level_decisions', 0) > 0,
        rule='seeded random priority tables (2-6 flows, priorities 1-9, ties allowed) x workloads (1-3 sources, same-instant bursts, '
             'front-loaded backlogs, arrivals at transmission ends, idle gaps); non-trivial = distinct case with at least one '
             'decision taken while packets of two or more priority levels were waiting')
