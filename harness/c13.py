"""C13 - static priority always serves the highest-priority backlogged flow (SP)."""
from vlib.util import guarded_leg
import random
from harness.mq import gen_group, evaluate, cases_from_replay
from harness.mqoracle import oracle_c13, oracle_c12
from harness import dynsched

ASSUMPTIONS = [
    'workloads over the configured flows; priorities are positive numbers (whole numbers, and in 30% of the tables quarters sharing an integer part, values below 1, values beyond 2**31); sizes positive integers; rate > 0; `out` attached',
    'a table with priorities that are not whole numbers is handed to the model as the ranks of its values (the property and the model use only their order); the direct oracle compares the real values',
    'in 20% of the cases size()/byte_size()/all_flows() of every configured flow are read before the first arrival and between arrivals; those instances are judged by the direct oracles only (a read makes a flow show up in all_flows() before its first packet)',
    'the start of a transmission is the scheduler\'s decision burst (DESIGN section 3): a packet arriving later in the same instant is not "waiting at the start"',
    'theorems are over exact rationals; the replay compares IEEE doubles bit for bit',
    'the SP process on the real kernel refines the MultiQueueServer LTS: checked by replay (labels from Process.target and the sender process); '
    'for SP written as processes on the kernel MODEL it is a theorem (Props/C13K.lean), and that program is compared bit for bit with the real SP (spk leg)',
    'SP\'s annotation packet.priorities[flow2class(flow)] = prio is not modelled (it influences nothing the property speaks about)',
]
ASSUMPTIONS.append('reconfiguration while running (oracle-only family, harness/dynsched.py): `sp.priorities` is re-bound to a new list or edited in place (the list format the '
                   'constructor builds: (flow, priority) pairs, most urgent first) by another process while the server is backlogged; "no packet of a flow with a strictly '
                   'higher priority value is waiting" is read with the table in force at the start of service (a start in the very instant of a change is not judged); also '
                   '`rate` reassigned and next hops that hand packets straight back to put() or re-label them')
EXTRA_MODULES = ('OnlVerif.Props.C13K',)
BRIDGES = ['C13.sp_order_generated_eq_model', 'C13.sp_pick_generated_eq_model']
_PREP = {}


def prepare(ctx):
    """regenerate lean/OnlVerif/Generated/Sp13.lean from the source under $ONL_REPO (a translator failure or a bridge
    theorem that no longer compiles is a broken obligation)"""
    from py2lean import translate, more
    _PREP['translated'] = more.TRANSLATED['Sp13']
    _PREP['rewritten'] = translate.regenerate_all(only=('Sp13',))
    _PREP['diff_vs_pinned'] = translate.diff_vs_pinned('Sp13')


TRUSTED_EXTRA = ['the kernel guarantees (G1-G3) that make `tick` admissible only at quiescence are theorems of model K (C01), assumed for the device LTS']


def gen(rng, n):
    return [gen_group(rng, i, 'sp', backlog=rng.random() < 0.6, share=0.35, poll=0.2, real_prio=0.3) for i in range(n)]


# ---- BEGIN spk leg: SP as processes on the kernel MODEL (lean/OnlVerif/Net/SPOnK.lean, driver mode `spk`) ----
@guarded_leg(None)
def run_spk(ctx, res=None):
    """Extra leg for Props/C13K.lean: the K program of the SP scheduler (put / send_packet / run + a source process), run at
    Float by the compiled driver, against the real SP with a real source process on the real kernel under env.run() (public API
    only: a subclass taps put() and send_packet(), a recording `out`), compared line for line; plus C12/C13 restated over the
    implementation's own observations.  Called twice from run(): without `res` it answers whether ctx.replay is a replay of this
    leg (then only this leg runs); with the result dict of the main leg it appends its coverage / disagreements / failures."""
    import json, collections
    from vlib.util import bits, unbits, quiet, run_driver, split_cases
    from onl.sim import Environment
    from onl.packet import Packet
    from onl.scheduler import SP

    def replay_cases():
        j = json.load(open(ctx.replay))
        cs = ([j['case']] if j.get('case') else []) + [d['case'] for d in (j.get('broken_correspondence') or []) if d.get('case')]
        return [c for c in cs if isinstance(c, dict) and c.get('kind') == 'spk']

    if res is None:
        if not (ctx.replay and replay_cases()):
            return None
        res = {'coverage': {'evaluations': 0, 'distinct_nontrivial': 0, 'rule': 'replay of an spk case', 'samples': []},
               'disagreements': [], 'oracle_failures': []}
        run_spk(ctx, res)
        k = res['coverage']['sp_on_kernel_model']
        res['coverage'].update(evaluations=k['evaluations'], distinct_nontrivial=k['distinct_nontrivial'], samples=[k['sample']])
        return res

    def gen(rng, cid):
        F = rng.randint(1, 5)
        flows = list(range(F))
        rng.shuffle(flows)                               # insertion order of the priorities dict
        table = [(f, rng.randint(1, 4) if rng.random() < 0.6 else rng.randint(1, 9)) for f in flows]
        rate = rng.choice([8.0, 8.0, 8.0, 16.0, 4.0, 1000.0, 12345.678, 1e6 / 3])
        n = rng.randint(0, 14)
        shape = rng.choice(['burst', 'coincide', 'mixed', 'mixed', 'sparse', 'random'])
        arr = []
        for i in range(n):
            if shape == 'burst':
                gap = 0.0 if i else rng.choice([0.0, 1.0])
            elif shape == 'coincide':                    # unit-size packets at rate 8: transmissions last 1.0, arrivals on the grid
                gap = float(rng.choice([0, 0, 1, 1, 1, 2]))
            elif shape == 'sparse':
                gap = float(rng.choice([5, 10, 50]))
            elif shape == 'random':
                gap = rng.random() * 3
            else:
                gap = rng.choice([0.0, 0.0, 0.5, 1.0, 1.0, 2.0, 3.0, round(rng.random() * 4, 3)])
            size = 1 if shape == 'coincide' else rng.choice([1, 1, 2, 3, 4, 100, 1500])
            arr.append([gap, i, rng.randrange(F), size])
        if shape == 'coincide':
            rate = 8.0
        return {'cid': f's{cid}', 'kind': 'spk', 'F': F, 'table': table, 'rate': rate, 'arrivals': arr}

    def text(c):
        return ([f"CASE {c['cid']} {bits(c['rate'])} {c['F']}"] + [f'prio {f} {p}' for f, p in c['table']]
                + [f'arr {bits(g)} {i} {f} {sz}' for g, i, f, sz in c['arrivals']] + ['END'])

    def impl(c):
        env = Environment()
        hist = []

        class TapSP(SP):
            def put(self, packet):
                hist.append(f'put {packet.packet_id} {bits(env.now)}')
                return super().put(packet)

            def send_packet(self, packet):
                hist.append(f'serve {packet.packet_id} {bits(env.now)}')
                return super().send_packet(packet)

        class Rec:
            def put(self, packet):
                hist.append(f'out {packet.packet_id} {bits(env.now)}')
        with quiet():
            sp = TapSP(env, c['rate'], dict(map(tuple, c['table'])))
        sp.out = Rec()

        def src():
            for gap, i, f, sz in c['arrivals']:
                yield env.timeout(gap)
                sp.put(Packet(env.now, sz, i, src='src', flow_id=f))
        env.process(src())
        try:
            with quiet():
                env.run()
            tag = 'RET'
        except BaseException as x:        # noqa - the property says the run never raises
            tag = f'RAISED {type(x).__name__}'
        cur = sp.current_packet
        lines = [tag] + hist + [f'cells rc={sp.packets_received} cur={"None" if cur is None else cur.packet_id} '
                                f'tokens={len(sp.packets_available.items)}']
        for f in range(c['F']):
            st = sp.stores.get(f)
            lines.append(f'flow {f} count={sp.queue_count.get(f, 0)} bytes={sp.queue_byte_size.get(f, 0)} len={len(st.items) if st else 0}')
        return lines + [f'now {bits(env.now)}', 'oracle ok' if tag == 'RET' and not oracle_k(c, lines)[0] else 'oracle -' if tag != 'RET' else 'oracle REJECT']

    def oracle_k(c, lines):
        """C12/C13 restated over the implementation's own put / serve / out observations (exact float equalities: the kernel
        computes `now + delay` itself): the run returns; serve and out alternate on the same packet; out = serve + 8*size/rate;
        the j-th service starts at max(j-th arrival instant, previous departure) (never idle with a backlog); every packet
        leaves once, per flow in arrival order; at a service start no packet that arrived in an earlier instant and still waits
        has a strictly higher priority"""
        if lines[0] != 'RET':
            return [{'what': f'the run ended with {lines[0]}', 'signature': 'spk-raised'}], 0
        prio = dict(map(tuple, c['table']))
        info = {i: (f, sz) for _, i, f, sz in c['arrivals']}
        waiting, busy, served, outs, arrt, multi, tput = [], None, [], [], [], 0, {}
        for l in lines[1:]:
            w = l.split()
            if w[0] not in ('put', 'serve', 'out'):
                continue
            i, t = int(w[1]), unbits(int(w[2]))
            if w[0] == 'put':
                waiting.append(i); arrt.append(t); tput[i] = t
            elif w[0] == 'serve':
                if busy is not None:
                    return [{'what': f'packet {i} taken while {busy[0]} is in transmission', 'signature': 'spk-overlap'}], multi
                if i not in waiting:
                    return [{'what': f'packet {i} served but not waiting', 'signature': 'spk-not-waiting'}], multi
                f = info[i][0]
                if [x for x in waiting if info[x][0] == f][0] != i:
                    return [{'what': f'packet {i} overtakes an older packet of flow {f}', 'signature': 'spk-flow-order'}], multi
                # waiting at the start = put in an earlier instant (the decision burst precedes this observation within the instant)
                hi = [x for x in waiting if prio[info[x][0]] > prio[f] and tput[x] < t]
                if hi:
                    return [{'what': f'packet {i} (priority {prio[f]}) starts while packet {hi[0]} (priority {prio[info[hi[0]][0]]}) waits',
                             'signature': 'spk-priority'}], multi
                if len({prio[info[x][0]] for x in waiting if tput[x] < t}) > 1:
                    multi += 1
                j = len(served)
                want = arrt[j] if not outs else max(arrt[j], outs[-1][1])
                if t != want:
                    return [{'what': f'service {j} (packet {i}) starts at {t!r}, work conservation prescribes {want!r}', 'signature': 'spk-idle'}], multi
                waiting.remove(i); busy = (i, t); served.append(i)
            else:
                if busy is None or busy[0] != i:
                    return [{'what': f'packet {i} leaves but is not the one in transmission', 'signature': 'spk-out'}], multi
                if t != busy[1] + info[i][1] * 8.0 / c['rate']:
                    return [{'what': f'packet {i}: transmission {busy[1]!r} -> {t!r}, not 8*size/rate', 'signature': 'spk-tx-time'}], multi
                outs.append((i, t)); busy = None
        if busy is not None or waiting or sorted(i for i, _ in outs) != sorted(info):
            return [{'what': f'not every packet left: waiting {waiting[:6]}, in transmission {busy}', 'signature': 'spk-drain'}], multi
        return [], multi

    rng = random.Random(f'C13-spk-{ctx.seed}')
    cases = replay_cases() if ctx.replay else [gen(rng, i) for i in range(300 if ctx.quick else 5000)]
    txt, got = [], {}
    for c in cases:
        got[c['cid']] = impl(c)
        txt += text(c)
    model = split_cases(run_driver('spk', '\n'.join(txt) + '\n')) if cases else {}
    hist, nontriv = collections.Counter(), 0
    dis, orc = res['disagreements'], res['oracle_failures']
    for c in cases:
        a, b = got[c['cid']], model.get(c['cid'])
        if a != b:
            i = next((i for i in range(max(len(a), len(b or []))) if i >= len(a) or not b or i >= len(b) or a[i] != b[i]), 0)
            dis.append({'case': c, 'detail': f'spk line {i}: impl `{a[i] if i < len(a) else None}` model `{b[i] if b and i < len(b) else None}`',
                        'impl': a[:300], 'model': (b or [])[:300]})
        fails, multi = oracle_k(c, a)
        for f in fails:
            f['case'] = c; f['trace'] = a[:300]
            orc.append(f)
        ev = [l.split() for l in a if l.split()[0] in ('put', 'serve', 'out')]
        out_t = {w[2] for w in ev if w[0] == 'out'}
        coinc = sum(1 for w in ev if w[0] == 'put' and w[2] in out_t)
        hist['packets'] += len(c['arrivals']); hist['decisions with several priority levels waiting'] += multi
        hist['arrivals at a transmission end'] += coinc
        hist[f"flows:{c['F']}"] += 1
        if multi or coinc:
            nontriv += 1
    res['coverage']['sp_on_kernel_model'] = {
        'evaluations': len(cases), 'distinct_nontrivial': nontriv, 'lines_compared': sum(len(v) for v in got.values()),
        'rule': 'random priority tables over 1-5 flows (ties allowed, random dict order) x one source (bursts, arrivals on the grid of the '
                'transmission ends, sparse, random gaps) run by the K program at Float (driver mode spk) and by the real SP with a real '
                'source process under env.run(); non-trivial = a decision with two or more priority levels waiting or an arrival at a '
                'transmission end', 'histogram': dict(sorted(hist.items())), 'sample': cases[0] if cases else None}
    return None
# ---- END spk leg ----


def run(ctx):
    sk = run_spk(ctx)                        # spk leg: a replay of one of its cases runs only that leg
    if sk is not None:
        return sk
    rng = random.Random(f'C13-{ctx.seed}')
    cases = cases_from_replay(ctx.replay) if ctx.replay else gen(rng, 500 if ctx.quick else 10000)
    cases = [c for c in cases if not str(c.get('kind', '')).startswith('dyn:')]      # (a replay of an oracle-only case: see below)
    res = evaluate(
        cases, [oracle_c13, oracle_c12],
        nontrivial=lambda c, r, st, co: st.get('multi_level_decisions', 0) > 0,
        rule='seeded random priority tables (2-6 flows, priorities 1-9, ties allowed) x workloads (1-3 sources, same-instant bursts, '
             'front-loaded backlogs, arrivals at transmission ends, idle gaps); non-trivial = distinct case with at least one '
             'decision taken while packets of two or more priority levels were waiting')
    run_spk(ctx, res)                        # spk leg: appends its coverage, disagreements and oracle failures in place
    # oracle-only: the priority table re-bound / edited in place while the server is backlogged (strict priority with the table in force at the
    # start of service), the rate reassigned, re-entrant and re-labelling next hops
    d = dynsched.run_family(ctx, 'C13', ['sp'], ['priorities', 'priorities', 'priorities', 'rate', 'reflect', 'relabel'], ['priority', 'service'], 70, 1400)
    res['coverage']['reconfigured_and_reentrant_family_oracle_only'] = d['coverage']
    res['oracle_failures'] += d['oracle_failures']
    return res
