"""FilterStores whose filters raise (oracle-only cases of C07: plain Python on the real FilterStore, not replayed by the model -
the model's filters are a family of five total predicates, `filterOk` in lean/OnlVerif/Kernel/Ops.lean).

C07 quantifies over "histories of put / get / cancel operations with arbitrary ... filters".  A filter is user code that the store
runs inside its queue scans; a filter that looks its item up in a table raises KeyError while the table has no entry yet.  A
probe runs a seeded put / get / cancel history of a few processes on ONE FilterStore in which some `get(filter)` calls carry a
filter that raises KeyError the FIRST time it is consulted (and is an ordinary predicate, or matches nothing, from then on).
Such a filter is only handed over while the store holds items, so the exception comes out of the `get()` call itself, in the
process that issued it; that process catches it and goes on (sometimes it cancels the request the call left in `get_queue`).
The scan was at its last entry when the filter raised, so nothing behind it was skipped; from then on the store must work as
if nothing had happened.  After every call and every kernel step the public state is judged by a direct restatement of C07:

* bounds: never more than `capacity` items;
* exactly once: accepted items == items handed to getters (the requests left behind by a raising call included) + items held;
* whenever the clock is about to advance (and when the run is out of events) the oldest pending put finds no free slot and no
  pending get has a filter that matches a stored item (judged with the harness's own copy of each predicate - the store's
  filters are never called by the oracle; the request a raising call left behind is not judged, only counted).

All choices derive from random.Random(tag); a failing probe is replayed from its tag.
"""
import collections, random
from onl.sim import Environment, FilterStore
from onl.sim.core import EmptySchedule

INF = float('inf')
PREDS = [('any', lambda x: True), ('even', lambda x: x % 2 == 0), ('odd', lambda x: x % 2 == 1), ('>=5', lambda x: x >= 5),
         ('<3', lambda x: x < 3), ('none', lambda x: False)]


class StandDown(Exception):
    pass


class FilterProbe:
    def __init__(self, tag):
        self.tag = tag
        self.rng = rng = random.Random(tag)
        self.cap = rng.choice([1, 2, 2, 3, 4, INF])
        self.env = Environment()
        self.store = FilterStore(self.env, self.cap)
        self.puts, self.gets = [], []       # (request, item) / (request, predicate name, pure predicate)
        self.trace, self.fails = [], []
        self.raised_at = []
        self.left_behind = set()
        self.stats = {'calls': 0, 'filters_that_raised': 0, 'left_behind_cancelled': 0, 'steps': 0, 'calls_after_a_raise': 0}

    def fail(self, sig, what):
        if len(self.fails) < 3:
            after = f' (a filter raised KeyError out of get() at {self.raised_at[0]!r}; its caller caught it and went on)' if self.raised_at else ''
            self.fails.append({'what': f'FilterStore(capacity={self.cap!r}) at {self.env.now!r}: {what}{after}', 'signature': sig})

    # ---- judging ------------------------------------------------------------------------------------------
    def look(self, when):
        st = self.store
        if len(st.items) > self.cap:
            self.fail('store-bounds', f'{when}: the store holds {len(st.items)} items')
        acc = collections.Counter(i for r, i in self.puts if r.triggered and r.ok)
        out = collections.Counter(r.value for r, _, _ in self.gets if r.triggered and r.ok)
        held = collections.Counter(st.items)
        if acc != out + held:
            self.fail('store-exactly-once', f'{when}: accepted items {sorted(acc.elements())} but handed out {sorted(out.elements())} and still '
                                            f'holding {sorted(held.elements())}')

    def heads(self, when):
        st = self.store
        if st.put_queue and len(st.items) < self.cap:
            self.fail('strand-put', f'{when}: the oldest pending put (item {st.put_queue[0].item!r}) is still waiting although the store holds '
                                    f'{len(st.items)} of {self.cap!r} items')
        # the request a raising call left behind is not judged: its filter gave no answer when the store asked and answers
        # differently now, without any operation on the store - the store cannot know (it is served at the next scan, and counted)
        known = {id(r): (n, p) for r, n, p in self.gets if id(r) not in self.left_behind}
        for g in st.get_queue:
            if id(g) in known and not g.triggered:
                n, p = known[id(g)]
                hit = [i for i in st.items if p(i)]
                if hit:
                    self.fail('strand-get', f'{when}: a pending get whose filter ({n}) matches the stored item {hit[0]!r} is still waiting '
                                            f'(items {list(st.items)})')
                    break

    # ---- the program --------------------------------------------------------------------------------------
    def do_get(self, who):
        rng, st, env = self.rng, self.store, self.env
        name, pure = rng.choice(PREDS[:5])
        raising = bool(st.items) and rng.random() < 0.3
        if raising:
            name, pure = rng.choice([(name, pure), PREDS[5], PREDS[5]])      # afterwards: the same predicate, or "not mine" for ever
        state = {'n': 0}
        def flt(x, state=state, pure=pure, raising=raising):
            state['n'] += 1
            if raising and state['n'] == 1:
                raise KeyError(x)
            return pure(x)
        self.stats['calls'] += 1
        self.stats['calls_after_a_raise'] += int(bool(self.raised_at))
        try:
            req = st.get(flt)
        except KeyError:
            self.stats['filters_that_raised'] += 1
            self.raised_at.append(env.now)
            left = st.get_queue[-1] if st.get_queue and getattr(st.get_queue[-1], 'filter', None) is flt else None
            self.trace.append(f'{env.now!r}: process {who} get(filter that raises once, then "{name}") with items {list(st.items)} -> KeyError, caught')
            if left is not None:
                self.gets.append((left, name, pure))
                self.left_behind.add(id(left))
                if rng.random() < 0.3:
                    left.cancel()
                    self.stats['left_behind_cancelled'] += 1
                    self.trace.append(f'{env.now!r}: process {who} cancels the request that call left in get_queue')
            self.look(f'after a get() by process {who} whose filter raised')
            return None
        if raising and state['n'] == 0:
            state['n'] = 1          # never consulted by the call (somebody older took the items): it will not raise later, inside a kernel step
        self.gets.append((req, name, pure))
        self.trace.append(f'{env.now!r}: process {who} get({name}) with items {list(st.items)} -> {"got " + repr(req.value) if req.triggered else "waits"}')
        self.look(f'after get({name}) by process {who}')
        return req

    def do_put(self, who):
        st, env = self.store, self.env
        x = self.rng.randint(0, 9)
        self.stats['calls'] += 1
        self.stats['calls_after_a_raise'] += int(bool(self.raised_at))
        req = st.put(x)
        self.puts.append((req, x))
        self.trace.append(f'{env.now!r}: process {who} put({x}) -> {"accepted" if req.triggered else "waits"} (items {list(st.items)})')
        self.look(f'after put({x}) by process {who}')
        return req

    def proc(self, who, producer):
        env, rng = self.env, self.rng
        for _ in range(rng.randint(2, 7)):
            if rng.random() < 0.6:
                yield env.timeout(rng.choice([0, 0, 0.5, 1, 1, 2]))
            req = self.do_put(who) if rng.random() < (0.8 if producer else 0.25) else self.do_get(who)
            if req is None:
                continue
            pat = rng.random()
            if pat < 0.5:
                yield req
            elif pat < 0.8:
                yield req | env.timeout(rng.choice([0, 0.5, 1, 2]))
                if not req.triggered:
                    req.cancel()
                    self.trace.append(f'{env.now!r}: process {who} cancels its request')
                    self.look(f'after a cancel by process {who}')
            # else: fire and forget

    def run(self):
        env = self.env
        n = self.rng.randint(2, 5)
        for i in range(n):
            env.process(self.proc(i + 1, producer=(i % 2 == 0)))
        try:
            for _ in range(3000):
                if env.peek() > env.now:
                    self.heads(f'the clock is about to advance to {env.peek()!r}')
                try:
                    env.step()
                except EmptySchedule:
                    break
                except KeyError:
                    raise StandDown()      # a filter raised inside a kernel step: not the situation this probe is about
                except BaseException as x:
                    self.fail('store-raised', f'step() raised {x!r}')
                    break
                self.stats['steps'] += 1
                self.look('after a kernel step')
                if self.fails:
                    break
        except StandDown:
            self.stats['stood_down'] = 1
            return []
        return self.fails


def run_probe(case):
    p = FilterProbe(case['tag'])
    fails = p.run()
    for f in fails:
        f['case'] = case
        f['trace'] = p.trace[-60:]
    return fails, p.stats


def probes(ctx, prop='C07'):
    n = 800 if ctx.quick else 10000
    fails = []
    tot = {'probes': n, 'probes_in_which_a_filter_raised': 0, 'calls': 0, 'calls_after_a_raise': 0, 'filters_that_raised': 0,
           'left_behind_cancelled': 0, 'steps': 0, 'stood_down': 0}
    for k in range(n):
        f, st = run_probe({'probe': 'raising-filter', 'tag': f'{prop}-filter-{ctx.seed}-{k}'})
        fails += f
        tot['probes_in_which_a_filter_raised'] += int(st['filters_that_raised'] > 0)
        for key in ('calls', 'calls_after_a_raise', 'filters_that_raised', 'left_behind_cancelled', 'steps'):
            tot[key] += st[key]
        tot['stood_down'] += st.get('stood_down', 0)
    tot['rule'] = ('seeded put/get/cancel histories of 2-5 processes on one FilterStore; some get() calls carry a filter that raises KeyError the '
                   'first time it is consulted (inside that get() call), the caller catches it and the history goes on')
    return fails[:6], tot
