"""C04 - interrupts reach a live process once, in issue order, ahead of ordinary events."""
from harness import kprops, koracle, kbridge
from harness.kbridge import TRUSTED_EXTRA
EXTRA_MODULES = kbridge.MODULES['C04']      # this property's bridge modules only (py2lean/SCOPE.md)
prepare = kbridge.prepare_for('C04')    # regenerates only the generated files this property owns
ASSUMPTIONS = ['victims ignore, re-wait, wait for something else, terminate or raise in their handler (script handlers 0,1,10+k,2,3)']
SPEC = [(6, 'victim'), (2, 'intr'), (1, 'time'), (1, 'plan:victim')]
def run(ctx):
    res = kprops.run_kernel(ctx, 'C04', SPEC, 2000, 60000, attribute=kprops.stop_is_not_the_cause, oracles=[kprops.oracle_time_monotone, koracle.oracle_c04, koracle.oracle_c05, koracle.oracle_pending_discarded],
                             nontrivial=lambda c, lines: any(' exc Interrupt ' in l for l in lines),
                             rule='seeded random script programs; non-trivial = distinct script in which at least one Interrupt was delivered')
    res['coverage'].update(kbridge.coverage('C04'))
    return res
