"""C08 - packets are never lost, duplicated or invented between source and sink.

Three parts: (A) DistPacketGenerator against the generator model, (B) PacketSink against the sink model,
(C) random pipelines of real elements with recording taps at every element boundary, checked by a direct
conservation oracle (and, element by element, by the other properties' replays: C09-C15, C18).
"""
from vlib.util import guarded_leg
import collections, json, random
from onl.sim import Environment
from onl.packet import Packet, DistPacketGenerator, PacketSink
from onl.netdev import Port, Wire, TokenBucket, TwoRateTokenBucket
from onl.netdev.demux import FlowDemux, FIBDemux
from onl.scheduler import SP, WFQ, DRR, VC
from onl.scheduler.rr import RR
from onl.scheduler.wrr import WRR
import onl.netdev.wire as wire_mod
from vlib.util import bits, run_driver, split_cases, quiet
from harness import dynsched, dynport

ASSUMPTIONS = [
    'flows are configured in every scheduler of the pipeline; weights/priorities/vticks/rates > 0; sizes positive integers; `out` attached everywhere',
    'conservation for the non-Port elements is proved in Props/C10-C12/C18 by the same generic theorems; here it is checked on pipelines by the direct oracle',
    'generator draws (gaps, sizes) and wire loss draws are inputs',
]
INF = float('inf')


# ---------------------------------------------------------------------------------------------------
# (A) generator

class Rec:
    def __init__(self, env, log): self.env, self.log = env, log
    def put(self, p): self.log.append((self.env.now, p))


ASSUMPTIONS.append('generator cases: a second DistPacketGenerator with the same flow id (other source name, own draws) runs in the same Environment; '
                   'the model sees only the first, the oracle demands ids 1, 2, ... of each')
ASSUMPTIONS.append('pipelines: a port drop counts as "discarded by the documented rule" only if the tail-drop rule of C09, recomputed from the taps '
                   '(bytes/packets accepted minus forwarded), asks for it; in packet mode the taps cannot see whether the head packet is in transmission, '
                   'so the one ambiguous occupancy is accepted either way')


ASSUMPTIONS.append('sizes that are not whole numbers (ORACLE-ONLY, counted apart: the gensink / network models read sizes as naturals): about a quarter of the generator, '
                   'sink and pipeline cases draw sizes from a float-valued distribution - exponential-like floats, values below 1, exact binary fractions. "with the n-th drawn '
                   'size" / "byte counts ... exactly those of the packets delivered" are read on the drawn value itself: `packet.size == drawn`, and the sink counts the sum of '
                   'the drawn values (exactly for binary fractions, whose sums are exact in IEEE doubles; to 1e-9 relative otherwise, the order of summation being left open)')

FRAC8 = [0.125, 0.25, 0.375, 0.5, 0.625, 0.75, 0.875]
FRAC_STYLES = ['expo', 'small', 'dyadic', 'mixed']


def frac_size(rng, style):
    """one draw of a float-valued size distribution (> 0).  `dyadic` and `small-dyadic` values are multiples of 1/8 below 2**12: all their sums are exact"""
    if style == 'mixed':
        style = rng.choice(['expo', 'small', 'dyadic', 'int'])
    if style == 'expo':
        return rng.expovariate(1 / rng.choice([1.0, 200.0, 1000.0])) + 1e-9
    if style == 'small':
        return rng.choice([0.75, 0.5, 0.25, 0.999, 0.001, 0.875, round(rng.random() * 0.98 + 0.01, 4)])
    if style == 'dyadic':
        return float(rng.choice([0, 1, 40, 64, 100, 500, 1499, 1500])) + rng.choice(FRAC8)
    if style == 'small-dyadic':
        return rng.choice(FRAC8) + rng.choice([0, 0, 1, 2])
    return rng.choice([40, 100, 512, 1500])


def exact_sizes(sizes):
    return all(float(x) * 8 == int(float(x) * 8) and x < 4096 for x in sizes)


def same_total(a, b, exact):
    return a == b if exact else abs(a - b) <= 1e-9 * max(abs(a), abs(b), 1.0)


def gen_case(rng, cid):
    n = rng.randint(0, 12)
    gaps = [rng.choice([0, 0.5, 1, 1, 2, 0.25, round(rng.random() * 3, 3)]) for _ in range(n + 3)]
    sizes = [rng.choice([40, 100, 512, 1500, rng.randint(1, 2000)]) for _ in range(n + 3)]
    c = {'cid': f'g{cid}', 'kind': 'gen', 'initial': rng.choice([0, 0, 0.5, 1, 2.75]), 'finish': rng.choice([INF, 3, 5.5, 10, sum(gaps[:n])]),
         'gaps': gaps, 'sizes': sizes, 'flow': rng.randrange(4)}
    frac = rng.choice(FRAC_STYLES) if rng.random() < 0.25 else None
    if frac:
        # a float-valued size distribution (random.expovariate and the like): the n-th packet carries the n-th drawn value itself
        c['frac'] = frac
        c['sizes'] = [frac_size(rng, frac) for _ in sizes]
    # a second, independent generator lives in the same Environment with the SAME flow id (another source name, its own
    # draws, its own finish): "a DistPacketGenerator emits packet n (ids 1,2,...)" speaks of each generator by itself, so
    # the peer must not influence the generator under test (the model sees only the first). Its draws cycle and contain
    # a positive gap, its finish is finite: it never runs dry and it stops by itself.
    pg = [rng.choice([0, 0.5, 1, 0.25, 0.3, 2]) for _ in range(rng.randint(1, 5))]
    if not any(pg):
        pg.append(rng.choice([0.5, 1, 0.75]))
    c['peer'] = {'initial': rng.choice([0, 0, 0.5, 1, 0.25]), 'finish': rng.choice([2, 3.5, 6, 11]), 'gaps': pg,
                 'sizes': [rng.choice([40, 100, 1500]) for _ in range(rng.randint(1, 4))], 'first': rng.random() < 0.5}
    if frac and rng.random() < 0.6:
        c['peer']['sizes'] = [frac_size(rng, frac) for _ in c['peer']['sizes']]
    return c


def run_gen(c):
    env = Environment()
    gi, si = iter(c['gaps']), iter(c['sizes'])
    used = [0]
    def arr():
        used[0] += 1
        return next(gi)
    peer, plog = c.get('peer'), []
    def mkpeer():
        n = [0, 0]
        def parr():
            n[0] += 1
            return peer['gaps'][(n[0] - 1) % len(peer['gaps'])]
        def psize():
            n[1] += 1
            return peer['sizes'][(n[1] - 1) % len(peer['sizes'])]
        pgen = DistPacketGenerator(env, 'peer', parr, psize, initial_delay=peer['initial'], finish=peer['finish'], flow_id=c['flow'])
        pgen.out = Rec(env, plog)
    if peer and peer['first']:
        mkpeer()
    g = DistPacketGenerator(env, 'src', arr, lambda: next(si), initial_delay=c['initial'], finish=c['finish'], flow_id=c['flow'], rec_flow=True)
    log = []
    g.out = Rec(env, log)
    if peer and not peer['first']:
        mkpeer()
    raised = None
    try:
        env.run(until=1e9)
    except StopIteration:
        pass
    except RuntimeError as x:      # the scripted distribution ran dry: generator raised StopIteration inside
        if 'StopIteration' not in repr(x) and 'generator raised' not in str(x):
            raised = repr(x)
    except BaseException as x:
        raised = repr(x)
    impl = [f'pkt {p.packet_id} {bits(t)} {p.size}' for t, p in log]
    text = [f"CASE {c['cid']} gen {bits(c['initial'])} {'inf' if c['finish'] == INF else bits(c['finish'])}"]
    text += [f'd {bits(g_)} {s_}' for g_, s_ in zip(c['gaps'], c['sizes'])]
    text.append('END')
    fails = []
    # direct oracle: ids 1.., time = initial + partial sums (float accumulation as the clock does), loop test before the draw
    t = 0 + c['initial']; want = []; k = 0
    while t < c['finish'] and k < len(c['gaps']):
        t = t + c['gaps'][k]; want.append((k + 1, t, c['sizes'][k])); k += 1
    got = [(p.packet_id, t_, p.size) for t_, p in log]
    if got != want[:len(got)] or (len(got) < len(want) and raised is None and len(got) < len(c['gaps'])):
        fails.append({'what': f'generator emitted {got[:4]}..., expected {want[:4]}...', 'signature': 'generator-law'})
    for t_, p in log:
        if p.time != t_ or p.flow_id != c['flow'] or p.src != 'src':
            fails.append({'what': 'generator packet fields (time/flow/src) wrong', 'signature': 'generator-fields'})
            break
    # the same clause for the peer generator of the same flow id: ITS packets are numbered 1, 2, ... too, created at the
    # instant they are handed over, under its own source name
    pids = [p.packet_id for _, p in plog]
    if pids != list(range(1, len(pids) + 1)):
        fails.append({'what': f'a second generator with the same flow id in the same Environment numbered its packets {pids[:6]}..., expected 1, 2, ... '
                              f'(first generator: {[p.packet_id for _, p in log][:6]}...)', 'signature': 'generator-law-peer'})
    elif any(p.time != t_ or p.flow_id != c['flow'] or p.src != 'peer' for t_, p in plog):
        fails.append({'what': 'fields (time/flow/src) of the packets of a second generator with the same flow id are wrong', 'signature': 'generator-fields'})
    elif peer and [p.size for _, p in plog] != [peer['sizes'][i % len(peer['sizes'])] for i in range(len(plog))]:
        # "with the n-th drawn size", for the peer: its size draws cycle through peer['sizes']
        fails.append({'what': f'a second generator with the same flow id emitted sizes {[p.size for _, p in plog][:5]}..., its size draws were '
                              f'{[peer["sizes"][i % len(peer["sizes"])] for i in range(min(5, len(plog)))]}...', 'signature': 'generator-law-peer'})
    if c.get('frac'):
        # non-integer sizes: outside the gensink model (sizes are naturals there) - oracle only
        return None, [], fails
    return impl, text, fails


# ---------------------------------------------------------------------------------------------------
# (A') generator whose distributions are re-pointed while it runs - ORACLE-ONLY (the generator model takes one list of draws)

ASSUMPTIONS.append('generator cases with re-pointed distributions (oracle-only): another process assigns `arrival_dist` / `size_dist` during the run (now and then also once after '
                   'construction, before the run); "packet n at initial_delay plus the n-th partial sum of its inter-arrival draws with the n-th drawn size" is read with the '
                   'distribution installed at the instant each draw is made - the next gap is drawn when the previous packet is emitted (the first one when the initial '
                   'delay has passed), the size when the packet is emitted; a case in which an assignment falls into the very instant of a draw is not judged')


def genre_case(rng, cid):
    """profiles: scripted cyclic draw sequences with value ranges of their own (sizes of profile k lie in [1000k+40, 1000k+999]), so that a
    draw taken from the wrong profile shows; profile 0 is handed to the constructor"""
    nprof = rng.randint(2, 4)
    prof = []
    for k in range(nprof):
        gaps = [rng.choice([0.5, 1, 1, 2, 0.25, 0.125, 0.75, 3, round(rng.random() * 3 + 0.01, 3)]) for _ in range(rng.randint(1, 5))]
        if rng.random() < 0.2:
            gaps.append(0)
        prof.append({'gaps': gaps, 'sizes': [1000 * k + rng.randint(40, 999) for _ in range(rng.randint(1, 4))]})
    sw = []
    for _ in range(rng.randint(1, 4)):
        sw.append({'at': round(rng.choice([0.3, 1.1, 2.7, 3.2, 4.45, 6.9, 9.35, 12.6]) + rng.random() * 0.05, 4), 'what': rng.choice(['arrival', 'size', 'both', 'both']),
                   'profile': rng.randrange(nprof)})
    sw.sort(key=lambda x: x['at'])
    c = {'cid': f'gr{cid}', 'kind': 'genre', 'initial': rng.choice([0, 0, 0.5, 1, 2.75]), 'finish': rng.choice([5.5, 8, 10, 15, 20]), 'flow': rng.randrange(4),
         'profiles': prof, 'switches': sw, 'pre': None}
    if rng.random() < 0.2:
        c['pre'] = {'what': rng.choice(['arrival', 'size', 'both']), 'profile': rng.randrange(nprof)}      # assigned after construction, before the run
    return c


def run_genre(c):
    """-> (oracle failures, stats)"""
    env = Environment()
    draws = []                                   # (instant, 'arrival' | 'size', profile, value) in the order the generator took them

    class Dist:
        def __init__(self, what, k):
            self.what, self.k, self.n = what, k, 0
            self.vals = c['profiles'][k]['gaps' if what == 'arrival' else 'sizes']
        def __call__(self):
            v = self.vals[self.n % len(self.vals)]
            self.n += 1
            draws.append((env.now, self.what, self.k, v))
            return v

    dists = {(w, k): Dist(w, k) for w in ('arrival', 'size') for k in range(len(c['profiles']))}
    g = DistPacketGenerator(env, 'src', dists['arrival', 0], dists['size', 0], initial_delay=c['initial'], finish=c['finish'], flow_id=c['flow'])
    log = []
    g.out = Rec(env, log)

    def install(sw):
        if sw['what'] in ('arrival', 'both'):
            g.arrival_dist = dists['arrival', sw['profile']]
        if sw['what'] in ('size', 'both'):
            g.size_dist = dists['size', sw['profile']]
    if c.get('pre'):
        install(c['pre'])

    def operator():
        t0 = 0.0
        for sw in c['switches']:
            yield env.timeout(sw['at'] - t0)
            t0 = sw['at']
            install(sw)
    env.process(operator())
    raised = None
    try:
        env.run(until=1e6)
    except BaseException as x:
        raised = repr(x)
    stats = collections.Counter()
    if raised:
        return [{'what': f'the generator run raised {raised}', 'signature': 'generator-raised'}], stats

    # the law, with the distribution installed at the instant of each draw
    def installed(what, t):
        k = 0
        if c.get('pre') and c['pre']['what'] in (what, 'both'):
            k = c['pre']['profile']
        for sw in c['switches']:
            if sw['what'] not in (what, 'both'):
                continue
            if sw['at'] == t:
                return None
            if sw['at'] < t:
                k = sw['profile']
        return k
    used = collections.Counter()
    t = 0 + c['initial']
    want, n = [], 0
    while t < c['finish'] and n < 10000:
        ka = installed('arrival', t)
        if ka is None:
            stats['not judged: an assignment in the very instant of a draw'] += 1
            return [], stats
        vals = c['profiles'][ka]['gaps']
        gap = vals[used['arrival', ka] % len(vals)]; used['arrival', ka] += 1
        t = t + gap
        ks = installed('size', t)
        if ks is None:
            stats['not judged: an assignment in the very instant of a draw'] += 1
            return [], stats
        vals = c['profiles'][ks]['sizes']
        size = vals[used['size', ks] % len(vals)]; used['size', ks] += 1
        n += 1
        want.append((n, t, size, ka, ks))
    got = [(p.packet_id, t_, p.size) for t_, p in log]
    stats['packets'] += len(got)
    first_sw = min(sw['at'] for sw in c['switches'])
    stats['packets emitted after the first assignment'] += sum(1 for _, t_, _ in got if t_ > first_sw)
    stats['draws from a profile installed during the run'] += sum(1 for w in want if w[3] or w[4])
    fails = []
    if got != [w[:3] for w in want]:
        i = next((i for i in range(max(len(got), len(want))) if i >= len(got) or i >= len(want) or got[i] != want[i][:3]), 0)
        g_i, w_i = (got[i] if i < len(got) else None), (want[i] if i < len(want) else None)
        taken = [d for d in draws if w_i and d[0] in (w_i[1], want[i - 1][1] if i else 0 + c['initial'])]
        fails.append({'what': f'generator with distributions re-pointed while running (assignments: '
                              f'{[(sw["at"], sw["what"], "profile %d" % sw["profile"]) for sw in c["switches"]]}'
                              f'{", before the run: " + str(c["pre"]) if c.get("pre") else ""}): packet #{i + 1} was emitted as (id, time, size) = {g_i}; with the '
                              f'gap drawn from the arrival distribution installed at the instant the gap is drawn - the emission of the previous packet, the end of the initial delay for the first - (profile {w_i[3] if w_i else None}) and the size from '
                              f'the size distribution installed at the emission (profile {w_i[4] if w_i else None}) it is {w_i[:3] if w_i else None}; the draws the generator '
                              f'actually took around it (instant, which, profile, value): {taken[:4]}', 'signature': 'generator-law-reconfigured'})
    for t_, p in log:
        if p.time != t_ or p.flow_id != c['flow'] or p.src != 'src':
            fails.append({'what': 'generator packet fields (time/flow/src) wrong', 'signature': 'generator-fields'})
            break
    return fails, stats


# ---------------------------------------------------------------------------------------------------
# (B) sink

ASSUMPTIONS.append('sink cases: in 60% of them a second PacketSink (own recording flags, own deliveries over the same flow ids / source names, interleaved in time) '
                   'lives in the same Environment; each sink is replayed through the sink model and judged by the oracle on the packets delivered to IT')


def sink_case(rng, cid, peer=True):
    n = rng.randint(1, 15)
    ds = []
    for _ in range(n):
        ds.append({'gap': rng.choice([0, 0, 0.5, 1, 2, round(rng.random() * 2, 3)]), 'flow': rng.randrange(3), 'src': rng.randrange(2),
                   'ptime': rng.choice([0, 0.25, 1]), 'size': rng.choice([40, 100, 1500])})
    c = {'cid': f's{cid}', 'kind': 'sink', 'rec_arr': rng.random() < 0.8, 'absolute': rng.random() < 0.5, 'rec_waits': rng.random() < 0.8,
         'by_flow': rng.random() < 0.7, 'ds': ds}
    if rng.random() < 0.25:
        c['frac'] = rng.choice(FRAC_STYLES)           # packets of non-integer size are delivered (oracle-only, see ASSUMPTIONS)
        for d in ds:
            d['size'] = frac_size(rng, c['frac'])
    if peer and rng.random() < 0.6:
        # "a PacketSink's per-flow (or per-source) packet and byte counts, arrival times and waits are exactly those of the packets
        # delivered to IT": a second sink fed other packets of the same flows / sources in the same Environment
        c['peer'] = sink_case(rng, f'{cid}.p', peer=False)
        if c.get('frac') and not c['peer'].get('frac'):
            c['peer']['frac'] = 'int'                  # the whole case stays outside the replay
        if rng.random() < 0.5:
            for k in ('rec_arr', 'absolute', 'rec_waits', 'by_flow'):
                c['peer'][k] = c[k]
        c['peer']['first'] = rng.random() < 0.4
    return c


def run_sink(c):
    env = Environment()
    mk = lambda cc: PacketSink(env, rec_arrivals=cc['rec_arr'], absolute_arrivals=cc['absolute'], rec_waits=cc['rec_waits'], rec_flow_ids=cc['by_flow'])
    pc = c.get('peer')
    psink = mk(pc) if pc and pc.get('first') else None
    sink = mk(c)
    if pc and psink is None:
        psink = mk(pc)
    def drv(cc, sk, seen):
        for i, d in enumerate(cc['ds']):
            yield env.timeout(d['gap'])
            p = Packet(d['ptime'], d['size'], i + 1, src=d['src'], flow_id=d['flow'])
            seen.append((env.now, p, d['size']))
            sk.put(p)
    seen, pseen = [], []
    env.process(drv(c, sink, seen))
    if pc:
        env.process(drv(pc, psink, pseen))
    env.run()
    impl, text, fails = sink_report(c, sink, seen, c['cid'], '')
    if pc:
        a, t, f = sink_report(pc, psink, pseen, c['cid'] + '.p', 'the second of two PacketSinks in one Environment: ')
        impl.update(a); text += t; fails += f
        for x in fails:
            if not x['what'].startswith('the second'):
                x['what'] = 'the first of two PacketSinks in one Environment: ' + x['what']
    return impl, text, fails


def sink_report(c, sink, seen, base, label):
    keyof = (lambda p: p.flow_id) if c['by_flow'] else (lambda p: p.src)
    given = {id(p): s_ for _, p, s_ in seen}          # the size each delivered packet was created with
    seen = [(t, p) for t, p, _ in seen]
    keys = sorted({keyof(p) for _, p in seen})
    impl, text, fails = {}, [], []
    exact = exact_sizes(given.values())
    for k in keys:
        cid = f"{base}k{k}"
        mine = [(t, p) for t, p in seen if keyof(p) == k]
        nbytes = 0
        for _, p in mine:
            nbytes = nbytes + given[id(p)]
        if sink.packets_received[k] != len(mine) or not same_total(sink.bytes_received[k], nbytes, exact):
            fails.append({'what': f'{label}sink counts for key {k} wrong: {sink.packets_received[k]} packets / {sink.bytes_received[k]} bytes recorded, '
                                  f'{len(mine)} packets / {nbytes} bytes delivered to it (sizes {[given[id(p)] for _, p in mine][:6]}...)', 'signature': 'sink-counts'})
        if c.get('frac'):
            continue                                     # non-integer sizes: not replayed through the sink model
        first = sink.first_arrival[k] if (c['rec_arr'] and k in sink.first_arrival) else None
        impl[cid] = [f"count={sink.packets_received[k]} bytes={sink.bytes_received[k]} "
                     f"waits={','.join(str(bits(x)) for x in sink.waits[k])} sizes={list(sink.packet_sizes[k])} "
                     f"times={','.join(str(bits(x)) for x in sink.packet_times[k])} "
                     f"arrivals={','.join(str(bits(x)) for x in sink.arrivals[k])} "
                     f"first={'None' if first is None else bits(first)} last={bits(sink.last_arrival[k] if c['rec_arr'] else 0)}"]
        text.append(f"CASE {cid} sink {int(c['rec_arr'])} {int(c['absolute'])} {int(c['rec_waits'])} {k}")
        text += [f'v {keyof(p)} {bits(t)} {bits(p.time)} {p.size}' for t, p in seen]
        text.append('END')
    for k in keys:
        mine = [(t, p) for t, p in seen if keyof(p) == k]
        if c['rec_waits'] and list(sink.waits[k]) != [t - p.time for t, p in mine]:
            fails.append({'what': f'{label}sink waits for key {k} are not arrival - creation time', 'signature': 'sink-waits'})
        if c['rec_arr']:
            want = [t for t, _ in mine] if c['absolute'] else [t - (mine[i - 1][0] if i else 0.0) for i, (t, _) in enumerate(mine)]
            if list(sink.arrivals[k]) != want:
                fails.append({'what': f'{label}sink arrivals for key {k} wrong: recorded {list(sink.arrivals[k])[:8]}, delivered at {want[:8]} '
                                      f'({"absolute" if c["absolute"] else "inter-arrival"})', 'signature': 'sink-arrivals'})
    # keys the sink reports although nothing with that key was delivered to it
    for name in ('packets_received', 'bytes_received'):
        extra = sorted(k for k, v in getattr(sink, name).items() if k not in keys and v)
        if extra:
            fails.append({'what': f'{label}sink reports {name} for keys {extra} although no packet with such a key was delivered to it', 'signature': 'sink-counts'})
            break
    return impl, text, fails


# ---------------------------------------------------------------------------------------------------
# (C) pipelines

class LossDraws:
    def __init__(self, rng): self.rng = rng; self.taken = []
    def uniform(self, a, b):
        x = self.rng.uniform(a, b); self.taken.append(x); return x


FLOWS = [0, 1, 2]


def make_elem(env, kind, rng):
    rate = rng.choice([8.0, 64.0, 800.0, 1e4])
    if kind == 'port':
        mode = rng.choice(['none', 'bytes', 'packets'])
        q = None if mode == 'none' else (rng.choice([300, 1500, 4000]) if mode == 'bytes' else rng.choice([2, 4, 8]))
        return Port(env, rng.choice([0.0, rate]), q, mode == 'bytes', 'px')
    if kind == 'wire':
        d = rng.choice([0, 0.5, 1.0, 0.125])
        jit = rng.random() < 0.4
        r2 = random.Random(rng.randrange(1 << 30))
        return Wire(env, (lambda: d + r2.choice([0, 0.25, 0.5])) if jit else (lambda: d), loss_rate=rng.choice([None, None, 0.0, 0.2, 0.5]))
    if kind == 'tb':
        return TokenBucket(env, rate, rng.choice([100, 1500, 3000]), peak=rng.choice([None, None, rate * 4]))
    if kind == 'tworate':
        if rng.random() < 0.5:
            return TwoRateTokenBucket(env, int(rate), rng.choice([1500, 3000]), pir=int(rate * 2), pbs=rng.choice([1500, 4000]))
        return TwoRateTokenBucket(env, int(rate), rng.choice([1500, 3000]))
    w = {f: rng.choice([1, 2, 3]) for f in FLOWS}
    if kind == 'rr': return RR(env, rate, list(FLOWS))
    if kind == 'wrr': return WRR(env, rate, w)
    # several flows mapped onto one class (seeded C08-m15: a sub-queue filed under the flow id but served under the class id holds its
    # packets for ever): the class ids are flow ids too, so the full tables stay valid tables
    kw = {}
    if rng.random() < 0.4:
        ncls = rng.choice([1, 2])
        table = {f: FLOWS[(i + 1) % ncls] for i, f in enumerate(FLOWS)}
        kw = {'flow2class': (lambda fid, table=table: table[fid])}
    if kind == 'sp': return SP(env, rate, w, **kw)
    if kind == 'drr': return DRR(env, rate, w, **kw)
    if kind == 'wfq': return WFQ(env, rate, w, **kw)
    if kind == 'vc': return VC(env, rate, {f: rng.choice([0.5, 1.0, 2.0]) for f in FLOWS}, **kw)
    raise ValueError(kind)


KINDS = ['port', 'wire', 'tb', 'tworate', 'sp', 'rr', 'wrr', 'drr', 'wfq', 'vc']


class Tap:
    """sits on an element's output: records, then forwards to the real next hop"""
    def __init__(self, run, name, nxt): self.run, self.name, self.nxt = run, name, nxt
    def put(self, p):
        self.run.log.append((self.name, 'out', self.run.env.now, p))
        h = self.run.held.get(self.name)
        if h is not None:
            h[0] -= p.size; h[1] -= 1
        self.nxt.put(p)


class Call:
    def __init__(self, put): self.put = put


class SinkTap:
    """in front of the pipeline's PacketSink: keeps the harness's own list of what was delivered (not part of the tap log)"""
    def __init__(self, run, sink): self.run, self.sink = run, sink
    def put(self, p):
        self.run.delivered.append((self.run.env.now, p))
        self.sink.put(p)


class Pipe:
    def __init__(self, c):
        self.c = c
        rng = random.Random(c['seed'])
        self.env = env = Environment()
        self.log = []
        self.held = {}            # port name -> [bytes, packets] accepted and not yet forwarded, counted at the taps
        self.badrule = []         # port drops / admissions that are not by the documented tail-drop rule
        self.nrule = 0
        self.sink = PacketSink(env)
        self.delivered = []       # (instant, packet) handed to the pipeline's sink
        self.drawn = {}           # id(packet) -> the size its source drew for it
        self.gen_sourced = set()  # ids of packets made by a real DistPacketGenerator
        self.pending_draw = None
        if c['fan']:
            c['fan'] = {int(k): v for k, v in c['fan'].items()}          # (a replayed case comes back from JSON with string keys)
        # a second sink, not part of the pipeline, that receives a few packets of the same flows from a source of its own
        # (the sink of a neighbouring pipeline in the same Environment): what the pipeline's sink reports is what the pipeline delivered
        self.decoy = PacketSink(env) if c.get('decoy') else None
        self.elems = []
        # a chain; optionally a FlowDemux in the middle fanning out to per-flow branches that join at the sink
        names = []
        for i, k in enumerate(c['chain']):
            e = make_elem(env, k, rng); names.append(f'{k}{i}'); self.elems.append((names[-1], k, e))
        self.branches = []
        if c['fan']:
            for f in FLOWS:
                k = c['fan'][f]
                e = make_elem(env, k, rng); self.elems.append((f'b{f}{k}', k, e)); self.branches.append(e)
        # wiring with taps
        final = SinkTap(self, self.sink)
        if c['fan']:
            for (n, k, e) in self.elems[len(c['chain']):]:
                e.out = Tap(self, n, final)
            if c.get('fan_kind') in ('fib-ends', 'flow-default'):
                # a dispatcher with NO numbered outputs: a FIBDemux that routes through `ends` and/or `default_out` only (outs None or []),
                # a FlowDemux([]) with a default output.  Flows listed in c['ends'] have their own branch; all others share the branch of
                # the first flow that is not listed (the default output).  Nothing is without a route.
                if c['fan_kind'] == 'flow-default':
                    self.demux = FlowDemux([], default_out=self.branches[0])
                else:
                    ends = {f: self.branches[i] for i, f in enumerate(FLOWS) if f in c['ends']}
                    rest = [i for i, f in enumerate(FLOWS) if f not in c['ends']]
                    self.demux = FIBDemux(outs=None if c['outs_none'] else [], ends=ends if (ends or c['ends_dict']) else None,
                                          fib={int(k): v for k, v in c['fib0map']}, default_out=self.branches[rest[0]] if rest else None)
            elif c.get('fan_kind') == 'fib':
                # a FIBDemux whose table is incomplete at first and is replaced (setter) or completed (same dict) during
                # the run: while a flow has no route its packets are discarded by rule ("no route"), from the update on
                # they must be forwarded
                self.full = {f: i for i, f in enumerate(FLOWS)}
                self.table = {f: self.full[f] for f in c['fib0']}
                self.demux = FIBDemux(outs=self.branches, fib=self.table)
                self.noroute = []
                orig = self.demux.put
                def dput(p, orig=orig):
                    t = self.demux.fib
                    if not (p.flow_id in t and 0 <= t[p.flow_id] < len(self.branches)):
                        self.noroute.append(p)
                    orig(p)
                self.demux.put = dput
            else:
                self.demux = FlowDemux(self.branches)
            nxt = self.demux
        else:
            nxt = final
        for (n, k, e) in reversed(self.elems[:len(c['chain'])]):
            if c['fan'] and nxt is self.demux:
                # the dispatcher is wired DIRECTLY behind the last chain element (no harness object in between: the element sees, and
                # may test, the dispatcher itself); the tap record of the hand-over is made inside the dispatcher's put()
                e.out = nxt
                self.demux.put = Tap(self, n, Call(self.demux.put)).put
            else:
                e.out = Tap(self, n, nxt)
            nxt = e
        self.head = nxt
        for (n, k, e) in self.elems:
            self._tap_put(n, e)
        # what the sources hand to the head of the pipeline, with the size drawn for it
        self.sent = []
        orig_head = self.head.put
        def hput(p, orig=orig_head):
            self.sent.append(p)
            if self.pending_draw is not None:
                (self.drawn[id(p)], isgen), self.pending_draw = self.pending_draw, None
                if isgen:
                    self.gen_sourced.add(id(p))
            orig(p)
        self.head.put = hput
        self.draws = LossDraws(random.Random(c['seed'] + 1))

    def _tap_put(self, name, e):
        orig = e.put
        isport = type(e) is Port
        if isport:
            self.held[name] = [0, 0]
        def put(p, orig=orig, name=name, e=e):
            d0 = getattr(e, 'packets_dropped', 0)
            self.log.append((name, 'in', self.env.now, p, (p.packet_id, p.flow_id, p.src, p.size, p.time, p.payload)))
            orig(p)
            dropped = getattr(e, 'packets_dropped', 0) > d0
            if dropped:
                self.log.append((name, 'drop', self.env.now, p))
            if isport:
                # "discarded by that element's documented rule": a port drop is by rule only if the tail-drop rule (C09) asked
                # for it, recomputed here from what the taps saw. Bytes: refused iff bytes held + size > qlimit. Packets: the
                # taps cannot tell whether the head packet is already in transmission, so with `n` packets held (waiting or in
                # transmission) a refusal needs n >= qlimit - 1 and an admission n <= qlimit - 1; no limit: never refused.
                hb, hn = self.held[name]
                q = e.qlimit
                self.nrule += 1
                if q is None:
                    bad = dropped
                elif e.limit_bytes:
                    bad = dropped != (hb + p.size > q)
                else:
                    bad = (hn < q - 1) if dropped else (hn > q - 1)
                if bad:
                    self.badrule.append(f'{name} (qlimit {q} {"bytes" if e.limit_bytes else "packets"}): packet {p.packet_id} of {p.size} bytes was '
                                        f'{"refused" if dropped else "admitted"} with {hb} bytes / {hn} packets held')
                if not dropped:
                    self.held[name][0] += p.size; self.held[name][1] += 1
        e.put = put

    def run(self):
        env, c = self.env, self.c
        rng = random.Random(c['seed'] + 2)
        frac = c.get('frac')          # pipelines with non-integer sizes carry exact binary fractions only (every byte account of the taps stays exact)
        def size():
            return frac_size(rng, frac) if frac and rng.random() < 0.8 else rng.choice([40, 100, 500, 1500])
        def src(k):
            pid = 1000 * k
            for _ in range(c['npk']):
                yield env.timeout(rng.choice([0, 0, 0.5, 1, 2, 0.125]))
                for _ in range(rng.choice([1, 1, 2, 3])):
                    pid += 1
                    s_ = size()
                    p = Packet(env.now, s_, pid, src=f's{k}', flow_id=rng.choice(FLOWS), payload=('pl', pid))
                    self.pending_draw = (s_, False)
                    self.head.put(p)
        def gsrc(k):
            # a real DistPacketGenerator as the source (oracle-only pipelines): scripted draws, one flow, wired straight to the head
            gaps = [rng.choice([0, 0, 0.5, 1, 2, 0.125]) for _ in range(c['npk'] + 2)]
            t_end = 0
            for g_ in gaps[:c['npk']]:
                t_end = t_end + g_
            gi = iter(gaps + [1e6] * 4)
            def sdist():
                s_ = size()
                self.pending_draw = (s_, True)
                self.gen_draws.append(s_)
                return s_
            g = DistPacketGenerator(env, f's{k}', lambda: next(gi), sdist, initial_delay=rng.choice([0, 0, 0.5]), finish=t_end, flow_id=rng.choice(FLOWS))
            g.out = self.head
            self.gens.append(g)
        self.gen_draws, self.gens = [], []
        for k in range(c['nsrc']):
            if k < c.get('gensrc', 0):
                gsrc(k + 1)
            else:
                env.process(src(k + 1))
        if self.decoy is not None:
            def side():
                for i in range(c['decoy']):
                    yield env.timeout(rng.choice([0, 0.5, 1, 0.125]))
                    self.decoy.put(Packet(env.now, rng.choice([40, 100, 500, 1500]), 5000 + i, src='s1', flow_id=rng.choice(FLOWS)))
            env.process(side())
        if c['fan'] and c.get('fan_kind') == 'fib':
            def reroute():
                yield env.timeout(c['t_update'])
                if c['update'] == 'setter':
                    self.demux.fib = dict(self.full)
                else:
                    self.table.update(self.full)
            env.process(reroute())
        old = wire_mod.random
        wire_mod.random = self.draws
        self.raised = None
        try:
            with quiet():
                env.run(until=1e7)
        except BaseException as x:
            self.raised = f'{type(x).__name__}: {x}'
        finally:
            wire_mod.random = old
        return self


def pipe_oracle(c, pr):
    fails = []
    if pr.raised:
        return [{'what': f'the pipeline run raised {pr.raised} (chain {c["chain"]}, fan {c["fan"]})', 'signature': 'pipeline-raised'}]
    per = collections.defaultdict(lambda: {'in': [], 'out': [], 'drop': [], 'snap': {}})
    for rec in pr.log:
        name, what, t, p = rec[:4]
        per[name][what].append(p)
        if what == 'in':
            per[name]['snap'][id(p)] = rec[4]
    kinds = {n: k for n, k, _ in pr.elems}
    if pr.badrule:
        fails.append({'what': 'a port discarded (or kept) a packet against its documented tail-drop rule: ' + pr.badrule[0], 'signature': 'elem-drop-not-by-rule'})
    for name, d in per.items():
        k = kinds[name]
        ins, outs, drops = d['in'], d['out'], d['drop']
        cin = collections.Counter(id(p) for p in ins)
        cout = collections.Counter(id(p) for p in outs)
        cdrop = collections.Counter(id(p) for p in drops)
        if any(v > 1 for v in cout.values()):
            fails.append({'what': f'{name}: a packet was forwarded twice', 'signature': 'elem-duplicate'})
        if set(cout) - set(cin):
            fails.append({'what': f'{name}: forwarded a packet it never received', 'signature': 'elem-invented'})
        missing = [p for p in ins if id(p) not in cout and id(p) not in cdrop]
        if k == 'wire':
            e = [e for n, _, e in pr.elems if n == name][0]
            if not e.loss_rate and missing:
                fails.append({'what': f'{name}: {len(missing)} packets neither delivered nor lost by rule (no loss rate)', 'signature': 'elem-lost'})
        elif missing:
            fails.append({'what': f'{name} ({k}): {len(missing)} of {len(ins)} packets still held or lost after the simulation ran out of events',
                          'signature': 'elem-lost'})
        for p in outs:
            sn = d['snap'].get(id(p))
            if sn is not None and sn != (p.packet_id, p.flow_id, p.src, p.size, sn[4] if k is None else p.time, p.payload):
                fails.append({'what': f'{name}: identifying fields of packet {sn[0]} changed in transit', 'signature': 'elem-fields'})
                break
        # per-flow order
        for f in FLOWS:
            a = [id(p) for p in ins if p.flow_id == f and id(p) in cout]
            b = [id(p) for p in outs if p.flow_id == f]
            if a != b:
                fails.append({'what': f'{name} ({k}): packets of flow {f} left in a different order than they entered', 'signature': 'elem-flow-order'})
                break
    # end to end: everything sent is at the sink, dropped, or lost on a lossy wire
    got = sum(pr.sink.packets_received.values())
    ndrop = sum(len(d['drop']) for d in per.values())
    lossy = any(k == 'wire' and e.loss_rate for _, k, e in pr.elems)
    nnr = len(getattr(pr, 'noroute', []))
    if pr.decoy is not None and sum(pr.decoy.packets_received.values()) != c['decoy']:
        fails.append({'what': f'a second PacketSink in the Environment of the pipeline was handed {c["decoy"]} packets and reports '
                              f'{sum(pr.decoy.packets_received.values())}', 'signature': 'sink-counts'})
    if not lossy and got + ndrop + nnr != len(pr.sent):
        fails.append({'what': f'{len(pr.sent)} packets sent, {got} at the sink, {ndrop} dropped by ports, {nnr} discarded for lack of a route '
                              f'(chain {c["chain"]}, fan {c["fan"]}, {c.get("fan_kind", "flow")} demux)', 'signature': 'pipeline-conservation'})
    # "a DistPacketGenerator emits packet n ... with the n-th drawn size": the packet a source hands to the head of the pipeline carries the value drawn for it
    for p in pr.sent:
        if id(p) in pr.gen_sourced and not (p.size == pr.drawn[id(p)]):
            fails.append({'what': f'a DistPacketGenerator feeding the pipeline drew the size {pr.drawn[id(p)]!r} and emitted packet {p.packet_id} (source {p.src}) with size {p.size!r}',
                          'signature': 'generator-law'})
            break
    # "a PacketSink's per-flow packet and byte counts ... are exactly those of the packets delivered to it": per flow, against the harness's own list of
    # deliveries and the sizes the sources drew (binary fractions or whole numbers: every sum is exact)
    for f in sorted({p.flow_id for _, p in pr.delivered} | set(FLOWS)):
        mine = [p for _, p in pr.delivered if p.flow_id == f]
        if any(id(p) not in pr.drawn for p in mine):
            continue
        nbytes = 0
        for p in mine:
            nbytes = nbytes + pr.drawn[id(p)]
        if pr.sink.packets_received[f] != len(mine) or pr.sink.bytes_received[f] != nbytes:
            fails.append({'what': f'the sink of the pipeline reports {pr.sink.packets_received[f]} packets / {pr.sink.bytes_received[f]} bytes of flow {f}; delivered to it: '
                                  f'{len(mine)} packets whose sources drew the sizes {[pr.drawn[id(p)] for p in mine][:6]}... = {nbytes} bytes '
                                  f'(chain {c["chain"]}, fan {c["fan"]})', 'signature': 'pipeline-sink-counts'})
            break
    return fails[:4]


def pipe_case(rng, cid):
    chain = [rng.choice(KINDS) for _ in range(rng.randint(1, 4))]
    fan = None
    if rng.random() < 0.3:
        fan = {f: rng.choice(['port', 'wire', 'tb', 'sp', 'drr', 'wfq']) for f in FLOWS}
    c = {'cid': f'p{cid}', 'kind': 'pipe', 'chain': chain, 'fan': fan, 'seed': rng.randrange(1 << 30), 'nsrc': rng.randint(1, 3), 'npk': rng.randint(1, 10)}
    if rng.random() < 0.4:
        c['decoy'] = rng.randint(1, 6)
    if fan and rng.random() < 0.5:
        c.update(fan_kind='fib', fib0=[f for f in FLOWS if rng.random() < 0.5], t_update=rng.choice([0.5, 1, 2, 3, 5]),
                 update=rng.choice(['setter', 'inplace']))
    return c


ASSUMPTIONS.append('oracle-only pipelines (not replayed through the network model, counted apart): (i) sizes that are binary fractions; (ii) real DistPacketGenerators as '
                   'sources, wired straight to the head of the pipeline; (iii) a dispatcher with NO numbered outputs - FIBDemux(outs=None or [], ends=..., default_out=...), '
                   'FlowDemux([], default_out=...) - behind every kind of element and behind a generator (empty chain). The dispatcher is the `out` of the element before '
                   'it (no harness object in between). Only the dispatchers of the library are placed there: whether a device that is set but *falsy* counts as attached '
                   'is left open (DESIGN section 3; the unchanged Port / schedulers test `if self.out:`), so no artificial falsy device is generated')


def pipe_case_oo(rng, cid):
    """oracle-only pipeline shapes (see ASSUMPTIONS); judged by the same per-element conservation account as every pipeline"""
    c = pipe_case(rng, f'o{cid}')
    shape = rng.choice(['frac', 'frac', 'noouts', 'noouts', 'noouts', 'gens'])
    c['oracle_only'] = shape
    if shape == 'frac' or rng.random() < 0.3:
        c['frac'] = rng.choice(['dyadic', 'dyadic', 'small-dyadic'])
    if shape == 'gens' or rng.random() < 0.5:
        c['gensrc'] = rng.randint(1, c['nsrc'])
    if shape == 'noouts':
        c['chain'] = [rng.choice(KINDS) for _ in range(rng.choice([0, 1, 1, 1, 2, 3]))]
        if not c['chain']:
            c['gensrc'] = c['nsrc']                     # a generator wired straight to the dispatcher
        c['fan'] = {f: rng.choice(['port', 'wire', 'tb', 'sp', 'drr', 'wfq']) for f in FLOWS}
        for k in ('fib0', 't_update', 'update'):
            c.pop(k, None)
        if rng.random() < 0.3:
            c['fan_kind'] = 'flow-default'
        else:
            c.update(fan_kind='fib-ends', ends=[f for f in FLOWS if rng.random() < 0.6], outs_none=rng.random() < 0.5, ends_dict=rng.random() < 0.5,
                     fib0map=[[f, 0] for f in FLOWS if rng.random() < 0.3])
    return c


# ---------------------------------------------------------------------------------------------------
# (D) several packet switches alive in one process

ASSUMPTIONS.append('switch cases: 2-3 SimplePacketSwitch / FairPacketSwitch objects are built in one process (one Environment or one each), every switch '
                   'has its own sources and its own collectors behind its ports; oracle only (no replay): per switch, handed = out of ITS ports + counted '
                   'tail drops of ITS ports + no route, same objects, nothing foreign, per-flow order')
SWITCH_SERVERS = ['SP', 'VirtualClock', 'WFQ', 'DRR']


def switch_case(rng, cid):
    sws = []
    for _ in range(rng.choice([2, 2, 3])):
        n = rng.randint(1, 4)
        sw = {'type': rng.choice(['simple', 'simple', 'fair']), 'nports': n, 'buffer': rng.choice([2, 3, 8, 64]),
              'rate': rng.choice([800.0, 8000.0, 1e5]), 'npk': rng.randint(2, 8), 'env': rng.choice([0, 0, 0, 1])}
        if sw['type'] == 'fair':
            sw['server'] = rng.choice(SWITCH_SERVERS)
            flows = list(range(n + 1))
            sw['weights'] = {f: rng.choice([1, 2, 3]) for f in flows}
            sw['fib'] = {f: rng.randrange(n) for f in flows if rng.random() < 0.8}       # a flow without an entry: no route, discarded by rule
        sws.append(sw)
    return {'cid': f'w{cid}', 'kind': 'switches', 'switches': sws, 'seed': rng.randrange(1 << 30), 'wire_late': rng.random() < 0.5}


class Coll:
    def __init__(self, env, k, j, log): self.env, self.k, self.j, self.log = env, k, j, log
    def put(self, p): self.log.append((self.k, self.j, self.env.now, p))


def run_switches(c):
    """-> (oracle failures, packets handed in).  Clause restated (per switch): "each packet handed to an element is forwarded downstream
    (here: out of one of THAT switch's ports), discarded by the element's documented rule (tail drop, counted; no route) or still held;
    nothing is duplicated or invented, packets of one flow leave in the order they entered"."""
    from onl.netdev import SimplePacketSwitch, FairPacketSwitch
    rng = random.Random(c['seed'])
    envs = {}
    log, built, fails = [], [], []
    def wire(k, sw):
        for j, port in enumerate(sw.ports):
            port.out = Coll(sw.env, k, j, log)
    with quiet():
        for k, d in enumerate(c['switches']):
            env = envs.setdefault(d['env'], Environment())
            if d['type'] == 'simple':
                sw = SimplePacketSwitch(env, d['nports'], d['rate'], d['buffer'], element_id=f'sw{k}')
            else:
                sw = FairPacketSwitch(env, d['nports'], d['rate'], d['buffer'], {int(f): w for f, w in d['weights'].items()}, d['server'],
                                      element_id=f'sw{k}')
                sw.demux.fib = {int(f): p for f, p in d['fib'].items()}
            built.append(sw)
            if not c['wire_late']:
                wire(k, sw)
        if c['wire_late']:
            for k, sw in enumerate(built):
                wire(k, sw)
    handed = collections.defaultdict(list)
    stats = collections.Counter()
    def src(env, k, d, sw):
        pid = 1000 * (k + 1)
        for _ in range(d['npk']):
            yield env.timeout(rng.choice([0, 0, 0.5, 1, 0.125]))
            for _ in range(rng.choice([1, 2, 3, 5])):
                pid += 1
                p = Packet(env.now, rng.choice([40, 100, 500, 1500]), pid, src=f's{k}', flow_id=rng.randrange(d['nports'] + 1), payload=('pl', pid))
                handed[k].append((p, (p.packet_id, p.flow_id, p.src, p.size, p.time, p.payload)))
                sw.put(p)
    for k, (d, sw) in enumerate(zip(c['switches'], built)):
        envs[d['env']].process(src(envs[d['env']], k, d, sw))
    raised = None
    try:
        with quiet():
            for e in sorted(envs):
                envs[e].run(until=1e7)
    except BaseException as x:
        raised = f'{type(x).__name__}: {x}'
    if raised:
        return [{'what': f'a run with {len(built)} switches raised {raised}', 'signature': 'pipeline-raised'}], stats
    for k, (d, sw) in enumerate(zip(c['switches'], built)):
        name = f'switch {k} of {len(built)} ({d["type"]}{" " + d["server"] if d["type"] == "fair" else ""}, {d["nports"]} ports)'
        mine = handed[k]
        ids = {id(p) for p, _ in mine}
        outs = [p for kk, _, _, p in log if kk == k]
        foreign = [p for p in outs if id(p) not in ids]
        if len(sw.ports) != d['nports']:
            fails.append({'what': f'{name}: built with nports={d["nports"]} it has {len(sw.ports)} ports', 'signature': 'switch-invented'})
        if foreign:
            owner = next((kk for kk in handed if any(q is foreign[0] for q, _ in handed[kk])), None)
            fails.append({'what': f'{name}: {len(foreign)} packets came out of its ports that were never handed to it (the first was handed to switch {owner})',
                          'signature': 'switch-invented'})
        cnt = collections.Counter(id(p) for p in outs)
        if any(v > 1 for v in cnt.values()):
            fails.append({'what': f'{name}: a packet came out of its ports twice', 'signature': 'switch-duplicate'})
        if d['type'] == 'simple':
            noroute = [p for p, _ in mine if not p.flow_id < d['nports']]
            dropped = sum(pt.packets_dropped for pt in sw.ports)
        else:
            noroute = [p for p, _ in mine if str(p.flow_id) not in {str(f) for f in d['fib']}]
            dropped = sum(pt.packets_dropped for pt in sw.egress_ports)
        nr = {id(p) for p in noroute}
        stats.update(handed=len(mine), tail_dropped=dropped, no_route=len(noroute), came_out=len(outs))
        missing = [p for p, _ in mine if id(p) not in cnt and id(p) not in nr]
        if len(missing) != dropped or any(id(p) in cnt for p in noroute):
            fails.append({'what': f'{name}: {len(mine)} packets handed in, {len(set(cnt) & ids)} of them came out of its ports, {len(noroute)} had no route, '
                                  f'its ports count {dropped} tail drops: {len(missing) - dropped} packets lost (held nowhere: the run ran out of events)',
                          'signature': 'switch-lost'})
        for p, snap in mine:
            if (p.packet_id, p.flow_id, p.src, p.size, p.time, p.payload) != snap:
                fails.append({'what': f'{name}: identifying fields of packet {snap[0]} changed in transit', 'signature': 'elem-fields'})
                break
        for f in range(d['nports'] + 1):
            a = [id(p) for p, _ in mine if p.flow_id == f and id(p) in cnt]
            b = [id(p) for p in outs if p.flow_id == f and id(p) in ids]
            if a != b and not any(v > 1 for v in cnt.values()):
                fails.append({'what': f'{name}: packets of flow {f} left in a different order than they entered', 'signature': 'elem-flow-order'})
                break
    return fails[:4], stats


# ---------------------------------------------------------------------------------------------------
# (E) BEGIN network leg: whole pipelines replayed through the network-of-accounts model (driver mode `net`, Net/Network.lean)

ASSUMPTIONS.append('network leg: every pipeline of (C) is run once more (same seed) and, in addition, topologies with a Splitter / NSplitter (fan-out by copy) and '
                   'with two source chains joining in a common element (fan-in) are built from the same elements; the records of the taps (put / out.put / counted '
                   'drop of every element, in the order they were made) are grouped into global steps - inject, forward+accept|refuse|deliver, drop, copy - and '
                   'replayed through `Net.step`: every step must be a legal global step and the receiver the one the wiring function names; dispatchers are not '
                   'tapped: their accept is the upstream out.put, their forward the downstream put, a copy is booked when the splitter takes the packet (copy() '
                   'has no tap); a wire loss has no tap either and is booked at the end for packets a lossy wire took and never forwarded. The final place of '
                   'every packet object according to the model is compared with the harness\'s own account (last tap record of the object, PacketSink totals)')


@guarded_leg(lambda: ([], {}))
def net_leg(ctx, pipe_cases):
    """-> (disagreements, coverage dict).  One delimited function: builds the topologies, exports the global event lists, replays, compares."""
    from onl.netdev.splitter import Splitter, NSplitter
    rng = random.Random(f'C08-net-{ctx.seed}')
    NOWHERE = 9999

    class Topo:
        """node numbering and wiring of one built pipeline: kind[i] in elem|demux|split, out[i] = dest | {flow: dest} | [dest, ...]; dest = ('n', j) | ('s', k)"""
        def __init__(self): self.names, self.kind, self.out, self.lossy = [], [], [], set()
        def add(self, name, kind):
            self.names.append(name); self.kind.append(kind); self.out.append(None); return len(self.names) - 1
        def lines(self):
            L = []
            for i, (k, o) in enumerate(zip(self.kind, self.out)):
                d = lambda x: f'{x[0]} {x[1]}'
                if k == 'elem': L.append(f'nx {i} all {d(o)}')
                elif k == 'demux': L += [f'nx {i} flow {fl} {d(x)}' for fl, x in sorted(o.items())]
                else:                                   # two outputs: the original to the first, the copy to the second
                    L += [f'spl {i}', f'nx {i} orig {d(o[0])}', f'nx {i} copy {d(o[1])}']
            return L

    def from_pipe(c):
        pr = Pipe(c).run()
        t = Topo()
        for (n, k, e) in pr.elems:
            i = t.add(n, 'elem')
            if k == 'wire' and e.loss_rate: t.lossy.add(i)
        nch = len(c['chain'])
        if c['fan']:
            D = t.add('demux', 'demux')
            t.out[D] = {fl: ('n', nch + j) for j, fl in enumerate(FLOWS)}
            for j in range(len(FLOWS)): t.out[nch + j] = ('s', 1)
        for i in range(nch):
            t.out[i] = ('n', i + 1) if i + 1 < nch else (('n', D) if c['fan'] else ('s', 1))
        return pr, t, {1: pr.sink}

    def build_extra(c):
        """split: A -> Splitter/NSplitter -> branches -> sinks; join: chains A and B (a source each) -> common chain C -> sink"""
        r = random.Random(c['seed'])
        pr = Pipe.__new__(Pipe)
        pr.c, pr.env, pr.log, pr.held, pr.badrule, pr.nrule, pr.elems, pr.raised = c, Environment(), [], {}, [], 0, [], None
        env, t = pr.env, Topo()
        sinks = {1: PacketSink(env), 2: PacketSink(env)}
        def chain(kinds, tag, final_dev, final_dest):
            """build a chain ending in final_dev; -> (first device, first index) (or (final_dev, final_dest) for an empty chain)"""
            idxs = []
            for j, k in enumerate(kinds):
                e = make_elem(env, k, r); n = f'{tag}{j}{k}'; pr.elems.append((n, k, e)); i = t.add(n, 'elem'); idxs.append((i, n, e))
                if k == 'wire' and e.loss_rate: t.lossy.add(i)
            nxt, nd = final_dev, final_dest
            for (i, n, e) in reversed(idxs):
                e.out = Tap(pr, n, nxt); t.out[i] = nd
                nxt, nd = e, ('n', i)
            for (i, n, e) in idxs: pr._tap_put(n, e)
            return nxt, nd
        if c['shape'] == 'join':
            cdev, cd = chain(c['C'], 'c', sinks[1], ('s', 1))
            heads = [chain(c['A'], 'a', cdev, cd)[0], chain(c['B'], 'b', cdev, cd)[0]]
        else:
            outs = []
            for j, kinds in enumerate(c['branches']):
                k = 1 if c['same_sink'] else 1 + (j % 2)
                outs.append(chain(kinds, f'br{j}', sinks[k], ('s', k)))
            sp = Splitter() if len(outs) == 2 and c['two'] else NSplitter(len(outs))
            if isinstance(sp, Splitter): sp.out1, sp.out2 = outs[0][0], outs[1][0]
            else:
                for j, o in enumerate(outs): sp.outs[j] = o[0]
            S = t.add('splitter', 'split'); t.out[S] = [o[1] for o in outs]
            heads = [chain(c['A'], 'a', sp, ('n', S))[0]]
        r2 = random.Random(c['seed'] + 2)
        pr.sent = []
        def src(k, head):
            pid = 1000 * k
            for _ in range(c['npk']):
                yield env.timeout(r2.choice([0, 0, 0.5, 1, 2, 0.125]))
                for _ in range(r2.choice([1, 1, 2, 3])):
                    pid += 1
                    p = Packet(env.now, r2.choice([40, 100, 500, 1500]), pid, src=f's{k}', flow_id=r2.choice(FLOWS), payload=('pl', pid))
                    pr.sent.append(p); head.put(p)
        for k in range(c['nsrc']):
            env.process(src(k + 1, heads[k % len(heads)]))
        old = wire_mod.random
        wire_mod.random = LossDraws(random.Random(c['seed'] + 1))
        try:
            with quiet():
                env.run(until=1e7)
        except BaseException as x:
            pr.raised = f'{type(x).__name__}: {x}'
        finally:
            wire_mod.random = old
        return pr, t, sinks

    def export(cid, pr, t):
        """tap records -> (driver text lines, own account {(id, copy): place string}, number of events)"""
        log, idx = pr.log, {n: i for i, n in enumerate(t.names)}
        key, ncopy, ev = {}, collections.Counter(), []
        pos = [0]
        def K(p): return '%d %d' % key[id(p)]
        def handed(src, p, dest):
            """packet object p leaves node src towards dest: what did the taps see happen to it?"""
            if dest[0] == 's':
                ev.append(f'fwd {src} {K(p)} dlv {dest[1]}'); return
            j = dest[1]
            if t.kind[j] == 'elem':
                seen(src, p)
                return
            ev.append(f'fwd {src} {K(p)} acc {j}')
            if t.kind[j] == 'demux':
                i = pos[0]
                if i < len(log) and log[i][1] == 'in' and log[i][3] is p: seen(j, p)
                else: ev.append(f'drop {j} {K(p)} 3')            # no route: discarded by rule
            else:
                outs = t.out[j]
                pid = key[id(p)][0]
                nums = []
                for _ in outs[1:]:
                    ncopy[pid] += 1; nums.append(ncopy[pid]); ev.append(f'copy {j} {K(p)} {ncopy[pid]}')
                handed(j, p, outs[0])
                for k, d in zip(nums, outs[1:]):
                    i = pos[0]
                    if i < len(log) and log[i][1] == 'in' and id(log[i][3]) not in key and log[i][3].packet_id == pid:
                        q = log[i][3]; key[id(q)] = (pid, k); handed(j, q, d)
        def seen(src, p):
            """the next tap record must be the put of p at some element: accepted or refused there"""
            i = pos[0]
            if i < len(log) and log[i][1] == 'in' and log[i][3] is p:
                b = idx[log[i][0]]; pos[0] += 1
                if pos[0] < len(log) and log[pos[0]][1] == 'drop' and log[pos[0]][3] is p and idx[log[pos[0]][0]] == b:
                    pos[0] += 1; ev.append(f'fwd {src} {K(p)} ref {b} 1')
                else:
                    ev.append(f'fwd {src} {K(p)} acc {b}')
            else:
                ev.append(f'fwd {src} {K(p)} dlv {NOWHERE}')       # handed to nobody the taps could see
        while pos[0] < len(log):
            rec = log[pos[0]]; pos[0] += 1
            name, what, _, p = rec[:4]
            a = idx[name]
            if what == 'in':                                           # not part of a hand-over: a source's put
                if id(p) not in key: key[id(p)] = (p.packet_id, 0)
                sn = rec[4]
                fields = f'{sn[0]} {sn[1]} {int(str(sn[2])[1:])} {sn[3]} {bits(sn[4])} {sn[5][1]}'
                if pos[0] < len(log) and log[pos[0]][1] == 'drop' and log[pos[0]][3] is p and log[pos[0]][0] == name:
                    pos[0] += 1; ev.append(f'inj {a} {fields} ref 1')
                else:
                    ev.append(f'inj {a} {fields} acc')
            elif what == 'drop':
                if id(p) in key: ev.append(f'drop {a} {K(p)} 1')
            else:
                if id(p) not in key: key[id(p)] = (p.packet_id, 0); ev.append(f'fwd {a} {K(p)} acc {a}'); continue   # forwarded but never handed in: refused by the model
                o = t.out[a]
                handed(a, p, o)
        # own account: the last tap record of every packet object
        last, objs = {}, {}
        for rec in log:
            last[id(rec[3])] = rec; objs[id(rec[3])] = rec[3]
        own = {}
        for oid, rec in last.items():
            if oid not in key: continue
            a, what, p = idx[rec[0]], rec[1], rec[3]
            if what == 'drop': place = f'dropped {a} 1'
            elif what == 'in':
                if a in t.lossy:
                    place = f'dropped {a} 2'; ev.append(f'drop {a} {K(p)} 2')      # wire loss (no tap): booked at the end
                else: place = f'held {a}'
            else:
                d = t.out[a]
                if d[0] == 's': place = f'sink {d[1]}'
                elif t.kind[d[1]] == 'demux': place = f'dropped {d[1]} 3'
                else: place = f'sink {NOWHERE}'
            own[key[oid]] = place
        text = [f'CASE {cid} net {len(t.names)}'] + t.lines() + ev + ['END']
        return text, own, len(ev)

    def extra_case(i):
        shape = rng.choice(['split', 'split', 'join'])
        mk = lambda lo, hi: [rng.choice(KINDS) for _ in range(rng.randint(lo, hi))]
        c = {'cid': f'nt{i}', 'kind': 'net', 'shape': shape, 'seed': rng.randrange(1 << 30), 'nsrc': rng.randint(1, 3), 'npk': rng.randint(1, 8)}
        if shape == 'join': c.update(A=mk(1, 2), B=mk(1, 2), C=mk(1, 2), nsrc=rng.randint(2, 3))
        else: c.update(A=mk(1, 2), branches=[mk(1, 2) for _ in range(2)], two=rng.random() < 0.5, same_sink=rng.random() < 0.4)
        return c

    cases = [(c, from_pipe) for c in pipe_cases] + [(extra_case(i), build_extra) for i in range(max(1, len(pipe_cases) // 5))]
    text, meta, dis = [], {}, []
    cov = collections.Counter()
    for c, build in cases:
        pr, t, sinks = build(c)
        if pr.raised:
            cov['not replayed: the run raised (reported by the pipeline oracle)'] += 1
            continue
        cid = 'n' + c['cid']
        lines, own, nev = export(cid, pr, t)
        text += lines
        meta[cid] = (c, own, pr, t, sinks)
        cov['topologies'] += 1; cov['global steps'] += nev
        cov['topologies with fan-out through a demux'] += 1 if c.get('fan') else 0
        cov['topologies with a splitter'] += 1 if c.get('shape') == 'split' else 0
        cov['topologies with fan-in at an element'] += 1 if c.get('shape') == 'join' else 0
    model = split_cases(run_driver('net', '\n'.join(text) + '\n')) if text else {}
    for cid, (c, own, pr, t, sinks) in meta.items():
        out = model.get(cid) or []
        rej = [l for l in out if l.startswith('REJECT')]
        loc = {}
        for l in out:
            w = l.split()
            if w and w[0] == 'loc': loc[(int(w[1]), int(w[2]))] = ' '.join(w[3:])
        cov['steps refused by the model'] += len(rej)
        cov['packet objects located'] += len(loc)
        for k_, v in loc.items():
            cov['place:' + v.split()[0]] += 1
        bad = None
        if not out or not out[0].startswith('verdicts'):
            bad = f'no answer from the driver: {out[:2]}'
        elif rej:
            bad = f'{len(rej)} of the global steps the taps saw are not legal steps of the network model; first: {rej[0]}'
        elif loc != own:
            d = sorted(k_ for k_ in set(loc) | set(own) if loc.get(k_) != own.get(k_))[:3]
            bad = 'final place of packet objects (id, copy): ' + '; '.join(f'{k_}: model {loc.get(k_)}, taps {own.get(k_)}' for k_ in d)
        else:
            for k_, sk in sinks.items():
                n_model = sum(1 for v in loc.values() if v == f'sink {k_}')
                if sum(sk.packets_received.values()) != n_model:
                    bad = f'PacketSink {k_} reports {sum(sk.packets_received.values())} packets, the network model delivered {n_model} to it'
        if bad:
            dis.append({'case': c, 'detail': f'{cid} (nodes {t.names}): {bad}', 'impl': [f'{k_}: {v}' for k_, v in sorted(own.items())][:40],
                        'model': out[:40]})
    return dis, dict(sorted(cov.items()))

# (E) END network leg

# ---------------------------------------------------------------------------------------------------

def run(ctx):
    rng = random.Random(f'C08-{ctx.seed}')
    if ctx.replay:
        j = json.load(open(ctx.replay))
        cases = [j['case']] if j.get('case') else [d['case'] for d in j.get('broken_correspondence', [])]
    else:
        n = 300 if ctx.quick else 6000
        cases = [gen_case(rng, i) for i in range(n)] + [sink_case(rng, i) for i in range(n)] + [pipe_case(rng, i) for i in range(n)]
        cases += [switch_case(rng, i) for i in range(n // 3)]
        cases += [genre_case(rng, i) for i in range(n // 6)]          # oracle-only (counted apart below)
        cases += [pipe_case_oo(rng, i) for i in range(n // 3)]        # oracle-only
    impl, text, dis, orc = {}, [], [], []
    hist = collections.Counter()
    n_frac, n_oo = collections.Counter(), collections.Counter()
    owner = {}
    npk = 0
    cases_dyn = [c for c in cases if str(c.get('kind', '')).startswith('dyn:')]        # (a replay of a ring case: run by the families at the end)
    cases = [c for c in cases if c not in cases_dyn]
    for c in cases:
        hist['kind:' + c['kind']] += 1
        if c['kind'] == 'gen':
            a, t, f = run_gen(c)
            if a is not None:
                impl[c['cid']] = a; text += t; owner[c['cid']] = c
            hist['gen:with_peer_of_same_flow'] += 1 if c.get('peer') else 0
            if c.get('frac'):
                hist['gen:non-integer sizes (oracle-only):' + c['frac']] += 1
                n_frac['generator cases'] += 1
        elif c['kind'] == 'sink':
            a, t, f = run_sink(c); impl.update(a); text += t
            hist['sink:with_second_sink_in_the_same_environment'] += 1 if c.get('peer') else 0
            if c.get('frac'):
                hist['sink:non-integer sizes (oracle-only):' + c['frac']] += 1
                n_frac['sink cases'] += 1
            for k in a: owner[k] = c
        elif c['kind'] == 'genre':
            f, st = run_genre(c)
            for kk, v in st.items(): hist['genre:' + kk] += v
        elif c['kind'] == 'switches':
            f, st = run_switches(c)
            for kk, v in st.items(): hist['switch_packets:' + kk] += v
            hist['switches_in_one_process'] += len(c['switches'])
            for d in c['switches']: hist['switch:' + d['type'] + (':' + d['server'] if d['type'] == 'fair' else '')] += 1
            if len({d['env'] for d in c['switches']}) > 1: hist['switch_cases_over_two_environments'] += 1
        else:
            pr = Pipe(c).run()
            f = pipe_oracle(c, pr)
            npk += len(pr.sent)
            hist['port_puts_checked_against_tail_drop_rule'] += pr.nrule
            for k in c['chain']: hist['elem:' + k] += 1
            if c['fan']: hist['fan-out:' + c.get('fan_kind', 'flow')] += 1
            if c.get('decoy'): hist['pipelines_with_a_second_sink_in_the_environment'] += 1
            hist['pipeline_packets_delivered_and_checked_against_the_sink_counts'] += len(pr.delivered)
            if c.get('oracle_only'):
                n_oo[c['oracle_only']] += 1
                n_oo['packets'] += len(pr.sent)
                n_oo['packets made by a real DistPacketGenerator'] += len(pr.gen_sourced)
                n_oo['packets of non-integer size'] += sum(1 for p in pr.sent if pr.drawn.get(id(p)) != int(pr.drawn.get(id(p), 0)))
                if c.get('fan_kind') in ('fib-ends', 'flow-default'):
                    up = c['chain'][-1] if c['chain'] else 'generator'
                    n_oo[f'dispatcher without numbered outputs ({c["fan_kind"]}) behind: {up}'] += 1
                    n_oo['packets through a dispatcher without numbered outputs'] += pr.demux.packets_recevied
        for x in f:
            x['case'] = c
            orc.append(x)
    # rings (oracle-only): the element's next hop hands packets straight back to its put() from inside its own put() - a loop in the topology without a
    # Store in between, a reflector, a closed-loop source - or re-labels them; all six schedulers and the Port; conservation clause only
    # (and `out` re-pointed to another device while the element runs: "forwarded downstream" = to the device `out` names at the hand-over)
    ring_s = dynsched.run_family(ctx, 'C08', dynsched.KINDS, ['reflect', 'reflect', 'relabel', 'out'], ['conserve'], 60, 1200)
    ring_p = dynport.run_family(ctx, 'C08', ['reflect', 'reflect', 'out'], ['conserve'], 24, 480)
    orc += ring_s['oracle_failures'] + ring_p['oracle_failures']
    model = split_cases(run_driver('gensink', '\n'.join(text) + '\n'))
    for cid, a in impl.items():
        b = model.get(cid)
        if a != b:
            dis.append({'case': owner[cid], 'detail': f'{cid}: impl {a[:3]} model {(b or [])[:3]}', 'impl': a[:50], 'model': (b or [])[:50]})
    net_dis, net_cov = net_leg(ctx, [c for c in cases if c['kind'] == 'pipe' and not c.get('oracle_only')])        # (E) network leg: the one call
    dis += net_dis
    samples = [c for c in cases if c['kind'] == 'pipe'][:2]
    nontriv = len({json.dumps(c, sort_keys=True, default=str) for c in cases if c['kind'] != 'genre' and not c.get('oracle_only') and not (c['kind'] in ('gen', 'sink') and c.get('frac'))
                   and (c['kind'] != 'pipe' or len(c['chain']) > 1 or c['fan'])})
    n_genre = sum(1 for c in cases if c['kind'] == 'genre')
    n_oracle_only = n_genre + sum(1 for c in cases if c.get('oracle_only') or (c['kind'] in ('gen', 'sink') and c.get('frac')))
    cov = {'evaluations': len(cases) - n_oracle_only, 'distinct_nontrivial': nontriv,
           'rule': 'generator scripts, sink delivery scripts and random pipelines (chains of 1-4 elements from 10 kinds, SP/DRR/WFQ/VC with a many-to-one flow2class map in 40% of the draws, optional FlowDemux / FIBDemux fan-out/fan-in, the FIBDemux with a route update during the run); non-trivial = distinct case (pipelines: more than one element or a fan-out); oracle-only cases with 2-3 packet switches alive in one process',
           'samples': samples, 'traces_validated_against_impl': len(impl) - len(dis), 'packets_through_pipelines': npk,
           'operation_histogram': dict(sorted(hist.items())), 'network_replay': net_cov,
           'oracle_only': {'generators_with_distributions_re-pointed_while_running': n_genre,
                           'non-integer_sizes': dict(sorted(n_frac.items())), 'pipelines': dict(sorted(n_oo.items())),
                           'rings_schedulers': ring_s['coverage'], 'rings_port': ring_p['coverage']}}
    return {'coverage': cov, 'disagreements': dis, 'oracle_failures': orc}
