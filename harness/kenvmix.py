"""Refused conditions (oracle-only cases of C05: plain Python on the real kernel, two Environments alive, not replayed by the model).

C05: "mixing events of different environments is refused with ValueError".  A refused condition does not exist: besides the
ValueError itself, the attempt leaves nothing behind.  A probe builds a seeded operand list over events of environment 1 -
pending shared events, timeouts, events already processed, processes that return or raise, a condition of environment 1 - with
one or more operands of environment 2 at seeded positions, hands it to AllOf / AnyOf / env.all_of / env.any_of / `&` / `|`
(as list, tuple or generator), and then lets the simulation in environment 1 go on: every operand has a real waiter that
catches its outcome, the shared events are succeeded or FAILED later by another process.  Judged directly:

* the construction raises ValueError (every spelling, every position of the foreign operand);
* afterwards every operand is untouched: `callbacks` holds exactly the objects it held before (None stays None), and nothing was
  put on either environment's schedule (`peek()` unchanged);
* the continued run does not raise: each operand's outcome reaches its own waiter exactly once, with the value / exception it
  was given - a failure caught by its waiter is handled and must not come back out of `run()`.

All choices derive from random.Random(tag); a failing probe is replayed from its tag.
"""
import random
from onl.sim import Environment, AllOf, AnyOf

INF = float('inf')
EXCS = [KeyError, ValueError, RuntimeError, ZeroDivisionError]


class EnvMixProbe:
    def __init__(self, tag):
        self.tag = tag
        self.rng = random.Random(tag)
        self.fails = []
        self.trace = []
        self.stats = {'attempts': 0, 'own_operands_before_foreign': 0, 'later_failures_handled': 0, 'processed_operands': 0}

    def fail(self, sig, what):
        if len(self.fails) < 3:
            self.fails.append({'what': what, 'signature': sig})

    def run(self):
        rng = self.rng
        e1 = Environment(initial_time=rng.choice([0, 0, 0, 5, 2.5]))
        e2 = Environment()
        got = {}             # operand index -> list of (now, ok, value or exception)
        own = []             # (kind, event, plan)
        n_own = rng.randint(1, 3)
        kinds = [rng.choice(['event', 'event', 'event', 'timeout', 'done', 'proc', 'cond']) for _ in range(n_own)]
        # operands that are already processed when the condition is attempted: trigger them, drain the schedule
        for k in kinds:
            if k == 'done':
                ev = e1.event()
                ev.succeed(rng.randint(0, 9))
                own.append(['done', ev, None])
                self.stats['processed_operands'] += 1
        e1.run()

        def child(env, d, bad, v):
            yield env.timeout(d)
            if bad is not None:
                raise bad(v)
            return v

        for k in kinds:
            if k == 'event':
                bad = rng.choice(EXCS) if rng.random() < 0.65 else None
                own.append(['event', e1.event(), (rng.choice([0, 1, 1, 3]), bad, rng.randint(0, 9))])
            elif k == 'timeout':
                own.append(['timeout', e1.timeout(rng.choice([0, 1, 2]), rng.randint(0, 9)), None])
            elif k == 'proc':
                bad = rng.choice(EXCS) if rng.random() < 0.5 else None
                own.append(['proc', e1.process(child(e1, rng.choice([0, 1, 2]), bad, rng.randint(0, 9))), None])
            elif k == 'cond':
                inner = [e1.timeout(rng.choice([0, 1]), 3), e1.timeout(2, 4)]
                own.append(['cond', e1.all_of(inner) if rng.random() < 0.5 else e1.any_of(inner), None])
        rng.shuffle(own)
        foreign = []
        for _ in range(rng.choice([1, 1, 1, 2])):
            f = rng.random()
            foreign.append(e2.event() if f < 0.4 else e2.timeout(1, 'foreign') if f < 0.8 else (e2.timeout(1) & e2.timeout(2)))
        # positions: mostly at least one own operand BEFORE the first foreign one
        ops = [('own', i) for i in range(len(own))]
        for j in range(len(foreign)):
            pos = rng.randint(1, len(ops)) if rng.random() < 0.8 else rng.randint(0, len(ops))
            ops.insert(pos, ('foreign', j))
        first_foreign = next(i for i, o in enumerate(ops) if o[0] == 'foreign')
        self.stats['own_operands_before_foreign'] = first_foreign
        evs = [own[i][1] if w == 'own' else foreign[i] for w, i in ops]
        desc = [f'{own[i][0]} of environment 1' + (' (already processed)' if own[i][1].callbacks is None else '') if w == 'own' else 'event of environment 2' for w, i in ops]

        def snapshot():
            return ([None if e.callbacks is None else list(e.callbacks) for e in evs], e1.peek(), e2.peek())

        for attempt in range(rng.choice([1, 1, 2])):
            before = snapshot()
            spell = rng.choice(['AllOf', 'AnyOf', 'all_of', 'any_of'] + (['&', '|'] if len(evs) == 2 else []))
            form = rng.choice(['list', 'tuple', 'generator'])
            arg = {'list': lambda: list(evs), 'tuple': lambda: tuple(evs), 'generator': lambda: (e for e in evs)}[form]()
            self.stats['attempts'] += 1
            self.trace.append(f'{spell} over {desc} handed over as {form}')
            try:
                if spell == 'AllOf': AllOf(e1, arg)
                elif spell == 'AnyOf': AnyOf(e1, arg)
                elif spell == 'all_of': e1.all_of(arg)
                elif spell == 'any_of': e1.any_of(arg)
                elif spell == '&': evs[0] & evs[1]
                else: evs[0] | evs[1]
                self.fail('cond-env-mismatch', f'{spell} of environment 1 accepted events of another environment (operands: {desc})')
                return self.fails
            except ValueError:
                pass
            after = snapshot()
            for i, (a, b) in enumerate(zip(before[0], after[0])):
                same = (a is None and b is None) or (a is not None and b is not None and len(a) == len(b) and all(x is y for x, y in zip(a, b)))
                if not same:
                    self.fail('cond-env-refusal-left-callback',
                              f'{spell} over {desc} was refused with ValueError, but operand {i} ({desc[i]}) is not as it was: it had '
                              f'{"no callback list (processed)" if a is None else str(len(a)) + " callback(s)"} before the attempt and has '
                              f'{"none" if b is None else len(b)} after it ({[getattr(c, "__qualname__", type(c).__name__) for c in (b or [])]}): '
                              f'a refused condition does not exist and must not stay attached to its would-be operands')
                    break
            if (before[1], before[2]) != (after[1], after[2]):
                self.fail('cond-env-refusal-scheduled',
                          f'{spell} over {desc} was refused with ValueError, but the attempt put something on a schedule: peek() of environment '
                          f'1 / 2 was {before[1]!r} / {before[2]!r} before and is {after[1]!r} / {after[2]!r} after it')
        # the simulation in environment 1 goes on: every operand has a real waiter; shared events are triggered later
        def waiter(env, i, ev):
            try:
                v = yield ev
                got.setdefault(i, []).append((env.now, True, v))
            except Exception as x:
                got.setdefault(i, []).append((env.now, False, x))
            yield env.timeout(1)

        def breaker(env, ev, d, bad, v):
            yield env.timeout(d)
            if bad is None: ev.succeed(v)
            else: ev.fail(bad(v))

        t0 = e1.now
        expect = {}
        for i, (k, ev, plan) in enumerate(own):
            if rng.random() < 0.9 or k in ('event', 'proc'):
                e1.process(waiter(e1, i, ev))
            if k == 'event':
                d, bad, v = plan
                e1.process(breaker(e1, ev, d, bad, v))
                expect[i] = (t0 + d, bad, v)
                if bad is not None:
                    self.stats['later_failures_handled'] += 1
        try:
            e1.run()
        except BaseException as x:
            self.fail('cond-env-refusal-crashes-later',
                      f'after a refused mixed-environment condition over {desc}, the run of environment 1 went on: every operand had a '
                      f'waiter of its own that catches its outcome, yet run() raised {x!r} at {e1.now!r} (a failure that its waiter handled '
                      f'must not come back; the refused condition must not take part in anything)')
            return self.fails
        for i, (t, bad, v) in expect.items():
            g = got.get(i, [])
            ok = len(g) == 1 and g[0][0] == t and g[0][1] == (bad is None) and \
                (g[0][2] == v if bad is None else (type(g[0][2]) is bad and g[0][2].args == (v,)))
            if not ok:
                self.fail('cond-env-refusal-waiter', f'after a refused condition over {desc}: the waiter of operand {i} should have received '
                                                     f'{"value" if bad is None else bad.__name__} {v} at {t}; it received {g}')
        try:
            e2.run()
        except BaseException as x:
            self.fail('cond-env-refusal-crashes-later', f'after a refused condition over {desc}, run() of environment 2 raised {x!r}')
        return self.fails


def run_probe(case):
    p = EnvMixProbe(case['tag'])
    fails = p.run()
    for f in fails:
        f['case'] = case
        f['trace'] = p.trace[-20:]
    return fails, p.stats


def probes(ctx, prop='C05'):
    n = 400 if ctx.quick else 6000
    fails = []
    tot = {'probes': n, 'attempts': 0, 'with_own_operand_before_the_foreign_one': 0, 'later_failures_handled': 0, 'processed_operands': 0}
    for k in range(n):
        f, st = run_probe({'probe': 'env-mix', 'tag': f'{prop}-envmix-{ctx.seed}-{k}'})
        fails += f
        tot['attempts'] += st['attempts']
        tot['with_own_operand_before_the_foreign_one'] += int(st['own_operands_before_foreign'] > 0)
        tot['later_failures_handled'] += st['later_failures_handled']
        tot['processed_operands'] += st['processed_operands']
    tot['rule'] = ('seeded operand lists over two Environments (pending / processed events, timeouts, processes, conditions of environment 1; '
                   'one or two operands of environment 2 at seeded positions) refused by AllOf / AnyOf / all_of / any_of / & / |, then the run '
                   'of environment 1 continued with a catching waiter per operand')
    return fails[:6], tot
