"""C14 - WFQ and VirtualClock transmit in virtual-finish-stamp order."""
import random, collections, json
from fractions import Fraction
from harness.stamp import gen_case, replay, expected_stamps, order_oracle, first_diff

ASSUMPTIONS = [
    'flows are configured in flow2class and their classes in the weight / vtick table; weights, vticks, rate > 0; sizes are positive integers; an `out` is attached',
    'in 30% of the cases the packets carry a creation time (`Packet.time`) earlier than their arrival at the scheduler (ages 0 - 64 transmission times, as behind a wire); the model and the oracles order equal stamps by the arrival instant at the scheduler',
    'theorems are over exact rationals; the replay compares IEEE doubles bit for bit (stamps, vtime, last_time, aux_vc, vc, clock)',
    'family `longbusy` (about 4% of the cases): one busy period of few, very large packets in which WFQ\'s virtual time passes 1e6 and more, with a light class that is idle '
    'while its finish stamp is ahead of V and returns before V has caught up; replayed through the model like every other case (magnitudes up to 1e8 s / 1e11 bytes)',
    'WFQ accumulates weight_sum in the iteration order of a Python set; the model adds in ascending class order. The workloads use integer or dyadic weights '
    '(every partial sum exact, so the order cannot matter) and arbitrary floats only with at most two classes (a + b = b + a); '
    'with three or more non-dyadic weights the last bit of vtime could depend on the hash-table order, which is outside the model',
    'which of several items with an equal (stamp, arrival instant) key heapq returns is not modelled: the hand-off action carries the packet the implementation '
    'chose and the model verifies that its key is minimal (DESIGN section 3: such packets may leave in either order)',
    'WFQ: an arrival finds the scheduler empty when no packet is waiting or in transmission (total_packets == 0), also in the instant in which the last '
    'transmission ended and the loop has not yet resumed; the virtual clock advances at service-end bursts with the classes that were in the scheduler '
    'during the elapsed interval (the packet that has just left included)',
    'the scheduler loop on the real kernel refines the StampServer LTS: checked by replay (labels from Process.target / StoreGet.triggered), not proved',
    'the static-backlog fairness oracle is evaluated in exact rationals (weights and sizes are exact); no tolerance is needed because the proved bound '
    'has a slack of one maximum packet, rounding of the stamps can only reorder two packets whose exact stamps differ by a few ulps',
]
TRUSTED_EXTRA = ['the kernel guarantees (G1-G3) that make `tick` admissible only at quiescence are theorems of model K (C01), assumed for the device LTS',
                 'heapq returns an item that is minimal under PriorityItem.__lt__ (checked on every hand-off by the model, which rejects a non-minimal choice)',
                 'py2lean/elem.py + elements.py (typed AST-subset translator; hand-written per-class field schema of WFQ / VC objects, declared effects '
                 '`add_packet_to_queue`, `active_set.add`, `store.put(PriorityItem((stamp, now), packet))`, the active-set loop as a fold over the '
                 'list of active weights); the bridge theorems C14.wfq_put_/wfq_vtime_/vc_put_generated_eq_model tie its output to the model']
BRIDGES = ['C14.wfq_put_generated_eq_model', 'C14.wfq_vtime_generated_eq_model', 'C14.vc_put_generated_eq_model']
HAND_MODELLED = ['WFQ.run / VC.run (generator control flow and WFQ\'s bookkeeping after a transmission: class_count, active_set.remove, reset)',
                 'Scheduler.send_packet (control flow, per-flow counters; its transmission delay is translated for C12: Generated/SchedTx.lean)', 'Scheduler.add_packet_to_queue', 'WFQ.__init__ / VC.__init__',
                 'the dict / set containers themselves (association lists in the model; the translated code sees one class)']
_PREP = {}


def prepare(ctx):
    """regenerate lean/OnlVerif/Generated/Sched.lean (WFQ / VC stamp code; the transmission delay of `send_packet` is C12's
    `SchedTx.lean`) from the source under $ONL_REPO (a translator failure or a bridge theorem that no longer compiles is a
    broken obligation)"""
    from py2lean import translate, elements
    _PREP['translated'] = elements.TRANSLATED['Sched']
    _PREP['rewritten'] = translate.regenerate_all(only=('Sched',))
    _PREP['diff_vs_pinned'] = translate.diff_vs_pinned('Sched')


def fairness_oracle(c, run):
    """static backlog (all arrivals at one instant, before the first service decision): for classes i, j that still
    have a packet waiting, |S_i/w_i - S_j/w_j| <= Lmax/w_i + Lmax/w_j (bits; S = service started resp. completed)"""
    if c['kind'] != 'wfq' or not run.arrivals:
        return [], 0
    hist = [e for e in run.hist if e[0] in ('arr', 'choose', 'dep')]
    first_choose = next((i for i, e in enumerate(hist) if e[0] == 'choose'), len(hist))
    if any(e[0] == 'arr' for e in hist[first_choose:]) or len({e[1] for e in hist if e[0] == 'arr'}) != 1:
        return [], 0
    w = {int(k): Fraction(v) for k, v in c['table']}
    f2c = {int(f): int(k) for f, k in c['f2c']}
    lmax = 8 * max(p.size for _, p in run.arrivals)
    waiting = collections.Counter(f2c[p.flow_id] for _, p in run.arrivals)
    started, done = collections.Counter(), collections.Counter()
    fails, checked = [], 0
    for e in hist[first_choose:]:
        k = f2c[e[2].flow_id]
        if e[0] == 'choose':
            waiting[k] -= 1
            started[k] += 8 * e[2].size
        else:
            done[k] += 8 * e[2].size
        back = [x for x in waiting if waiting[x] > 0]
        for i in back:
            for j in back:
                if i < j:
                    checked += 1
                    for name, S in (('started', started), ('completed', done)):
                        if abs(S[i] / w[i] - S[j] / w[j]) > lmax / w[i] + lmax / w[j]:
                            fails.append({'what': f'static backlog: classes {i} (w={w[i]}) and {j} (w={w[j]}) both backlogged, service {name} '
                                                  f'{S[i]} vs {S[j]} bits, normalised difference {float(abs(S[i] / w[i] - S[j] / w[j]))} > '
                                                  f'Lmax/w_i + Lmax/w_j = {float(lmax / w[i] + lmax / w[j])}', 'signature': 'wfq-fairness'})
                            return fails, checked
    return fails, checked


def oracle(c, run):
    fails = []
    exp, f1 = expected_stamps(c, run)
    f2, ties, full = order_oracle(run, exp)
    fails += f2         # a packet transmitted ahead of one with a smaller stamp: the consequence first, then the stamps themselves
    fails += f1
    f3, pairs = fairness_oracle(c, run)
    fails += f3
    if run.raised:
        where, typ, msg, pid, flow = run.raised
        expected_bad = c.get('bad_flow') is not None and where == 'put' and flow == c['bad_flow'] and typ == 'KeyError'
        if not expected_bad:
            fails.append({'what': f'the run raised {typ}: {msg} ({"in put of packet %s" % pid if where == "put" else "inside a scheduler process"})',
                          'signature': f'{c["kind"]}-raised-{typ}'})
    elif c.get('bad_flow') is not None:
        pass    # what happens with an unconfigured flow is outside the property; the model says KeyError and the replay compares
    return fails, {'ties': ties, 'full_ties': full, 'fair_pairs': pairs}


def run(ctx, prop='C14', n_quick=3000, n_thorough=50000):
    rng = random.Random(f'{prop}-{ctx.seed}')
    if ctx.replay:
        j = json.load(open(ctx.replay))
        cases = [j['case']] if j.get('case') else [d['case'] for d in j.get('broken_correspondence', [])]
    else:
        cases = [gen_case(rng, i, aged=0.3 if prop == 'C14' else 0.0) for i in range(n_quick if ctx.quick else n_thorough)]
    dis, orc, hist = [], [], collections.Counter()
    distinct, nontriv, samples, lines = set(), 0, [], 0
    for c, r, model in replay(cases):
        lines += len(r.acts)
        for l in r.acts:
            hist[l.split(' ')[0]] += 1
        hist['kind:' + c['kind']] += 1
        hist['family:' + c.get('family', '?')] += 1
        hist['map:' + ('default' if c.get('f2c_default') else 'identity' if all(f == k for f, k in c['f2c']) else 'many-to-one')] += 1
        d = first_diff(r.obs, model)
        if d:
            dis.append({'case': c, 'detail': f'line {d[0]}: impl `{d[1]}` model `{d[2]}`', 'impl': r.obs[:300], 'model': (model or [])[:300]})
        fails, st = oracle(c, r)
        for f in fails[:3]:
            f['case'] = c; f['trace'] = r.obs[:300]
            orc.append(f)
        if c.get('ages'):
            hist['cases whose packets were created before they arrive (Packet.time < arrival instant)'] += 1
            hist['equal-stamp pairs at a decision, arrival instants differ, packets created before arrival'] += st['ties'] - st['full_ties']
        hist['equal-stamp pairs at a decision'] += st['ties']
        hist['equal-stamp-and-instant pairs at a decision'] += st['full_ties']
        hist['fairness pairs checked'] += st['fair_pairs']
        ev3 = [e for e in r.hist if e[0] in ('arr', 'dep', 'done')]
        hist['arrivals to an empty scheduler before the loop booked the last packet out'] += sum(
            1 for i, e in enumerate(ev3) if e[0] == 'arr' and i > 0 and ev3[i - 1][0] == 'dep' and sum(n for n, _ in e[5].values()) == 1)
        resets = sum(1 for e in r.hist if e[0] == 'done' and e[2].get('active') == [])
        hist['busy periods ended (vtime reset)'] += resets
        multi = any(e[0] == 'choose' and len({x.flow_id for x in e[3]}) > 1 for e in r.hist)
        key = json.dumps({k: v for k, v in c.items() if k != 'cid'}, sort_keys=True)
        nt = multi or st['ties'] > 0
        if nt and key not in distinct:
            nontriv += 1
        distinct.add(key)
        if nt and len(samples) < 2:
            samples.append({'config': {k: v for k, v in c.items() if k != 'sources'}, 'sources': c['sources'], 'actions': r.acts[:40]})
    cov = {'evaluations': len(cases), 'distinct_nontrivial': nontriv,
           'rule': 'seeded WFQ / VirtualClock configurations (weight / vtick tables, identity and many-to-one class maps) x arrival workloads '
                   '(random, static backlog, deliberately equal stamps, idle periods, arrivals at transmission ends and at the very end of a busy period, unconfigured flow, one very long busy period with V beyond 1e6); '
                   'non-trivial = distinct case with a service decision taken among packets of at least two flows, or among equal stamps',
           'samples': samples, 'traces_validated_against_impl': len(cases) - len(dis), 'action_lines_replayed': lines,
           'operation_histogram': dict(sorted(hist.items()))}
    if prop == 'C14':
        cov.update({'translated': _PREP.get('translated', []), 'generated_files_rewritten': _PREP.get('rewritten', []),
                    'generated_diff_vs_pinned': _PREP.get('diff_vs_pinned', []), 'bridge_theorems': BRIDGES,
                    'hand_modelled': HAND_MODELLED})
    return {'coverage': cov, 'disagreements': dis, 'oracle_failures': orc}
