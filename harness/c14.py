"""C14 - WFQ and VirtualClock transmit in virtual-finish-stamp order."""
from vlib.util import guarded_leg
import random, collections, json
from fractions import Fraction
from harness.stamp import gen_case, replay, expected_stamps, order_oracle, start_oracle, first_diff

ASSUMPTIONS = [
    'flows are configured in flow2class and their classes in the weight / vtick table; weights, vticks, rate > 0; sizes are positive integers; an `out` is attached',
    'in 30% of the cases the packets carry a creation time (`Packet.time`) earlier than their arrival at the scheduler (ages 0 - 64 transmission times, as behind a wire); the model and the oracles order equal stamps by the arrival instant at the scheduler',
    'oracle `stamp-order-at-start`: "transmits next the waiting packet with the smallest stamp" is also judged at the start of every transmission (the call of '
    'send_packet) against the harness\'s own account of the waiting packets (put() returned, send_packet not yet called) instead of the contents of the '
    'scheduler\'s store; compared are the packets handed over up to the end of the kernel step in which the chosen packet arrived, or in which the previous '
    'transmission ended, whichever is later (the puts of one kernel step are one burst: the scheduler cannot decide in the middle of it); packets arriving '
    'in later steps, between the decision and the call of send_packet, are not judged (DESIGN section 3, decision burst)',
    'theorems are over exact rationals; the replay compares IEEE doubles bit for bit (stamps, vtime, last_time, aux_vc, vc, clock)',
    'family `longbusy` (about 4% of the cases): one busy period of few, very large packets in which WFQ\'s virtual time passes 1e6 and more, with a light class that is idle '
    'while its finish stamp is ahead of V and returns before V has caught up; replayed through the model like every other case (magnitudes up to 1e8 s / 1e11 bytes)',
    # b-fixwfq BEGIN
    'WFQ accumulates weight_sum over the weight table in its key order (`for i in self.weights: if i in self.active_set`, repaired in /repo: it used to follow the '
    'iteration order of the set); the model adds in ascending class order. The workloads use integer or dyadic weights (every partial sum exact, so the order cannot '
    'matter), arbitrary floats with at most two classes (a + b = b + a), and arbitrary floats (0.1, 0.3, 0.6, 0.7, 1.1, 2.5, 1/3) with three or four classes when the '
    'table lists the classes in ascending order (style `anyasc`, about 12% of the WFQ cases with three or more classes: table order = the model\'s order); a shuffled '
    'table with three or more non-dyadic weights is outside the model\'s Float replay (the bridge theorem covers it over exact rationals). The Python stamp oracle '
    'adds in table order',
    # b-fixwfq END
    'which of several items with an equal (stamp, arrival instant) key heapq returns is not modelled: the hand-off action carries the packet the implementation '
    'chose and the model verifies that its key is minimal (DESIGN section 3: such packets may leave in either order)',
    'WFQ: an arrival finds the scheduler empty when no packet is waiting or in transmission (total_packets == 0), also in the instant in which the last '
    'transmission ended and the loop has not yet resumed; the virtual clock advances at service-end bursts with the classes that were in the scheduler '
    'during the elapsed interval (the packet that has just left included)',
    'the scheduler loop on the real kernel refines the StampServer LTS: checked by replay (labels from Process.target / StoreGet.triggered); for VC and WFQ written as processes on the kernel MODEL it is a theorem (Props/C14K.lean: one source, identity flow2class, whole WFQ weights), and those programs are compared bit for bit with the real classes (vck / wfqk legs; workloads without two packets of equal stamp and equal arrival instant)',
    'the static-backlog fairness oracle is evaluated in exact rationals (weights and sizes are exact); no tolerance is needed because the proved bound '
    'has a slack of one maximum packet, rounding of the stamps can only reorder two packets whose exact stamps differ by a few ulps',
]
TRUSTED_EXTRA = ['the kernel guarantees (G1-G3) that make `tick` admissible only at quiescence are theorems of model K (C01), assumed for the device LTS',
                 'heapq returns an item that is minimal under PriorityItem.__lt__ (checked on every hand-off by the model, which rejects a non-minimal choice)',
                 'py2lean/elem.py + elements.py (typed AST-subset translator; hand-written per-class field schema of WFQ / VC objects, declared effects '
                 '`add_packet_to_queue`, `active_set.add`, `store.put(PriorityItem((stamp, now), packet))`, the weight-sum loop in table order `for i in self.weights: if i in self.active_set` as a fold over the '
                 'weight table paired with the membership answers)  # b-fixwfq; the bridge theorems C14.wfq_put_/wfq_vtime_/vc_put_generated_eq_model tie its output to the model']
BRIDGES = ['C14.wfq_put_generated_eq_model', 'C14.wfq_vtime_generated_eq_model', 'C14.vc_put_generated_eq_model']
HAND_MODELLED = ['WFQ.run / VC.run (generator control flow and WFQ\'s bookkeeping after a transmission: class_count, active_set.remove, reset)',
                 'Scheduler.send_packet (control flow, per-flow counters; its transmission delay is translated for C12: Generated/SchedTx.lean)', 'Scheduler.add_packet_to_queue', 'WFQ.__init__ / VC.__init__',
                 'the dict / set containers themselves (association lists in the model; the translated code sees one class)']
EXTRA_MODULES = ('OnlVerif.Props.C14K',)
_PREP = {}


def prepare(ctx):
    """regenerate lean/OnlVerif/Generated/Sched.lean (WFQ / VC stamp code; the transmission delay of `send_packet` is C12's
    `SchedTx.lean`) from the source under $ONL_REPO (a translator failure or a bridge theorem that no longer compiles is a
    broken obligation)"""
    from py2lean import translate, elements
    _PREP['translated'] = elements.TRANSLATED['Sched']
    _PREP['rewritten'] = translate.regenerate_all(only=('Sched',))
    _PREP['diff_vs_pinned'] = translate.diff_vs_pinned('Sched')


def fairness_oracle(c, run):
    """static backlog (all arrivals at one instant, before the first service decision): for classes i, j that still
    have a packet waiting, |S_i/w_i - S_j/w_j| <= Lmax/w_i + Lmax/w_j (bits; S = service started resp. completed)"""
    if c['kind'] != 'wfq' or not run.arrivals:
        return [], 0
    hist = [e for e in run.hist if e[0] in ('arr', 'choose', 'dep')]
    first_choose = next((i for i, e in enumerate(hist) if e[0] == 'choose'), len(hist))
    if any(e[0] == 'arr' for e in hist[first_choose:]) or len({e[1] for e in hist if e[0] == 'arr'}) != 1:
        return [], 0
    w = {int(k): Fraction(v) for k, v in c['table']}
    f2c = {int(f): int(k) for f, k in c['f2c']}
    lmax = 8 * max(p.size for _, p in run.arrivals)
    waiting = collections.Counter(f2c[p.flow_id] for _, p in run.arrivals)
    started, done = collections.Counter(), collections.Counter()
    fails, checked = [], 0
    for e in hist[first_choose:]:
        k = f2c[e[2].flow_id]
        if e[0] == 'choose':
            waiting[k] -= 1
            started[k] += 8 * e[2].size
        else:
            done[k] += 8 * e[2].size
        back = [x for x in waiting if waiting[x] > 0]
        for i in back:
            for j in back:
                if i < j:
                    checked += 1
                    for name, S in (('started', started), ('completed', done)):
                        if abs(S[i] / w[i] - S[j] / w[j]) > lmax / w[i] + lmax / w[j]:
                            fails.append({'what': f'static backlog: classes {i} (w={w[i]}) and {j} (w={w[j]}) both backlogged, service {name} '
                                                  f'{S[i]} vs {S[j]} bits, normalised difference {float(abs(S[i] / w[i] - S[j] / w[j]))} > '
                                                  f'Lmax/w_i + Lmax/w_j = {float(lmax / w[i] + lmax / w[j])}', 'signature': 'wfq-fairness'})
                            return fails, checked
    return fails, checked


def oracle(c, run):
    fails = []
    exp, f1 = expected_stamps(c, run)
    f2, ties, full = order_oracle(run, exp)
    f0, st0 = start_oracle(run, exp)        # the same clause at the start of each transmission, waiting set from the harness's own account
    fails += f0
    fails += f2         # a packet transmitted ahead of one with a smaller stamp: the consequence first, then the stamps themselves
    fails += f1
    f3, pairs = fairness_oracle(c, run)
    fails += f3
    if run.raised:
        where, typ, msg, pid, flow = run.raised
        expected_bad = c.get('bad_flow') is not None and where == 'put' and flow == c['bad_flow'] and typ == 'KeyError'
        if not expected_bad:
            fails.append({'what': f'the run raised {typ}: {msg} ({"in put of packet %s" % pid if where == "put" else "inside a scheduler process"})',
                          'signature': f'{c["kind"]}-raised-{typ}'})
    elif c.get('bad_flow') is not None:
        pass    # what happens with an unconfigured flow is outside the property; the model says KeyError and the replay compares
    return fails, {'ties': ties, 'full_ties': full, 'fair_pairs': pairs, 'start': st0}


# ---- BEGIN vck leg: VC as processes on the kernel MODEL (lean/OnlVerif/Net/VCOnK.lean, driver mode `vck`) ----
@guarded_leg(None)
def run_vck(ctx, res=None):
    """Extra leg for Props/C14K.lean: the K program of the VirtualClock scheduler (put / send_packet / run + a source process),
    run at Float by the compiled driver, against the real VC with a real source process on the real kernel under env.run()
    (a subclass taps put() and send_packet(), the store's get is wrapped, a recording `out`), compared line for line (every
    put / stamp / get / serve / out with the clock resp. the stamp as bit patterns, final counters, vc / aux_vc, dict key orders);
    plus C12/C14 restated over the implementation's own observations.  Called twice from run(): without `res` it answers
    whether ctx.replay is a replay of this leg (then only this leg runs); with the result dict of the main leg it appends its
    coverage / disagreements / failures."""
    from vlib.util import bits, unbits, quiet, run_driver, split_cases
    from onl.sim import Environment
    from onl.packet import Packet
    from onl.scheduler import VC

    def replay_cases():
        j = json.load(open(ctx.replay))
        cs = ([j['case']] if j.get('case') else []) + [d['case'] for d in (j.get('broken_correspondence') or []) if d.get('case')]
        return [c for c in cs if isinstance(c, dict) and c.get('kind') == 'vck']

    if res is None:
        if not (ctx.replay and replay_cases()):
            return None
        res = {'coverage': {'evaluations': 0, 'distinct_nontrivial': 0, 'rule': 'replay of a vck case', 'samples': []},
               'disagreements': [], 'oracle_failures': []}
        run_vck(ctx, res)
        k = res['coverage']['vc_on_kernel_model']
        res['coverage'].update(evaluations=k['evaluations'], distinct_nontrivial=k['distinct_nontrivial'], samples=[k['sample']])
        return res

    def keys_of(c):
        """the (stamp, arrival instant) key of every packet, by the stamp rule"""
        vt = dict(map(tuple, c['vticks']))
        aux, t, ks = {k: 0 for k in vt}, 0.0, []
        for gap, i, f, sz in c['arrivals']:
            t = t + gap
            aux[f] = max(t, aux[f]) + vt[f]
            ks.append((aux[f], t))
        return ks

    def gen1(rng, cid):
        F = rng.randint(1, 4)
        classes = list(range(F))
        rng.shuffle(classes)                             # insertion order of the vticks dict
        pool = rng.choice([[1.0, 0.5, 2.0], [1.0, 1.0, 2.0, 0.5], [0.25, 0.75, 1.5, 3.0], None])
        vticks = [(k, rng.choice(pool) if pool else round(rng.uniform(0.05, 3.0), 3)) for k in classes]
        rate = rng.choice([8.0, 8.0, 8.0, 16.0, 4.0, 1000.0, 12345.678, 1e6 / 3])
        n = rng.randint(0, 14)
        shape = rng.choice(['burst', 'coincide', 'coincide', 'mixed', 'mixed', 'sparse', 'random', 'idle-return', 'ties', 'ties'])
        if shape == 'ties':                              # stamps on a coarse grid under a standing backlog: equal stamps, different instants
            vticks = [(k, rng.choice([0.5, 1.0, 1.0, 2.0])) for k in classes]
        arr = []
        for i in range(n):
            if shape == 'burst':
                gap = 0.0 if i else rng.choice([0.0, 1.0])
            elif shape == 'coincide':                    # unit-size packets at rate 8: transmissions last 1.0, arrivals on the grid
                gap = float(rng.choice([0, 0, 1, 1, 1, 2]))
            elif shape == 'sparse':
                gap = float(rng.choice([5, 10, 50]))
            elif shape == 'ties':
                gap = rng.choice([0.0, 0.5, 0.5, 1.0])
            elif shape == 'random':
                gap = rng.random() * 3
            elif shape == 'idle-return':                 # a burst, a long silence (the class's aux_vc falls behind the clock), a burst
                gap = 40.0 if i == n // 2 else rng.choice([0.0, 0.0, 0.5])
            else:
                gap = rng.choice([0.0, 0.0, 0.5, 1.0, 1.0, 2.0, 3.0, round(rng.random() * 4, 3)])
            size = 1 if shape == 'coincide' else rng.choice([2, 4]) if shape == 'ties' else rng.choice([1, 1, 2, 3, 4, 100, 1500])
            f = rng.randrange(F) if shape != 'idle-return' or F == 1 else (0 if rng.random() < 0.6 else rng.randrange(F))
            arr.append([gap, i, f, size])
        if shape in ('coincide', 'ties'):
            rate = 8.0
        return {'cid': f'v{cid}', 'kind': 'vck', 'F': F, 'vticks': vticks, 'rate': rate, 'arrivals': arr, 'shape': shape}

    def gen(rng, cid):
        # two packets with the same stamp AND the same arrival instant leave in an order that depends on heapq's layout (outside the
        # model, DESIGN section 3); such workloads are left to the main leg, which accepts either order
        for _ in range(200):
            c = gen1(rng, cid)
            ks = keys_of(c)
            if len(set(ks)) == len(ks):
                return c
        c['arrivals'] = []
        return c

    def text(c):
        return ([f"CASE {c['cid']} {bits(c['rate'])} {c['F']}"] + [f'vt {k} {bits(v)}' for k, v in c['vticks']]
                + [f'arr {bits(g)} {i} {f} {sz}' for g, i, f, sz in c['arrivals']] + ['END'])

    def impl(c):
        env = Environment()
        hist = []

        class TapVC(VC):
            def put(self, packet):
                hist.append(f'put {packet.packet_id} {bits(env.now)}')
                r = super().put(packet)
                hist.append(f'stamp {bits(self.aux_vc[packet.flow_id])}')
                return r

            def send_packet(self, packet):
                hist.append(f'serve {packet.packet_id} {bits(env.now)}')
                return super().send_packet(packet)

        class Rec:
            def put(self, packet):
                hist.append(f'out {packet.packet_id} {bits(env.now)}')
        with quiet():
            vc = TapVC(env, c['rate'], dict(map(tuple, c['vticks'])))
        vc.out = Rec()
        real_get = vc.store.get

        def tapped_get(*a, **k):
            hist.append(f'get {bits(env.now)}')
            return real_get(*a, **k)
        vc.store.get = tapped_get                        # run() has not started yet: its first burst is the Initialize event

        def src():
            for gap, i, f, sz in c['arrivals']:
                yield env.timeout(gap)
                vc.put(Packet(env.now, sz, i, src='src', flow_id=f))
        env.process(src())
        try:
            with quiet():
                env.run()
            tag = 'RET'
        except BaseException as x:        # noqa - the property says the run never raises
            tag = f'RAISED {type(x).__name__}'
        lines = [tag] + hist
        try:                              # a changed implementation may lack an attribute: that is a disagreement, not a crash of the check
            cur = vc.current_packet
            lines += [f'cells rc={vc.packets_received} cur={"None" if cur is None else cur.packet_id} len={len(vc.store.items)}']
            for f in range(c['F']):
                lines.append(f'flow {f} count={vc.queue_count.get(f, 0)} bytes={vc.queue_byte_size.get(f, 0)}')
            if list(vc.vc.keys()) != [k for k, _ in c['vticks']] or list(vc.aux_vc.keys()) != [k for k, _ in c['vticks']]:
                lines.append(f'key order of vc / aux_vc: {list(vc.vc.keys())} {list(vc.aux_vc.keys())}')
            for k, _ in c['vticks']:
                lines.append(f'class {k} vc={bits(vc.vc[k])} aux={bits(vc.aux_vc[k])}')
            lines.append(f'keys {list(vc.queue_count.keys())}')
        except Exception as x:            # noqa
            lines.append(f'final state unreadable: {type(x).__name__}')
        return lines + [f'now {bits(env.now)}', 'oracle ok' if tag == 'RET' and not oracle_k(c, lines)[0] else 'oracle -' if tag != 'RET' else 'oracle REJECT']

    def oracle_k(c, lines):
        """C12/C14 (VirtualClock) restated over the implementation's own put / stamp / get / serve / out observations (exact float
        equalities: Python computes max(now, aux) + vtick and the kernel now + delay itself): the run returns; every arrival is
        stamped max(now, aux_vc[class]) + vtick[class]; the server asks for the next packet at instant 0 and then in the very
        instant of each departure (never idle with a backlog); the packet handed to send_packet is one of those waiting when the
        server asked (if none was: the first to arrive afterwards), none of them has a smaller (stamp, arrival instant), and it is the
        oldest of its flow; it is handed over in the instant of the request resp. of its arrival; one packet at a time; out =
        serve + 8*size/rate exactly; every packet leaves once"""
        if lines[0] != 'RET':
            return [{'what': f'the run ended with {lines[0]}', 'signature': 'vck-raised'}], {}
        vt = dict(map(tuple, c['vticks']))
        info = {i: (f, sz) for _, i, f, sz in c['arrivals']}
        aux = {k: 0 for k in vt}
        waiting, cand, busy, last_out, pend, outs = [], None, None, None, None, []
        st = collections.Counter()
        for l in lines[1:]:
            w = l.split()
            if w[0] not in ('put', 'stamp', 'get', 'serve', 'out'):
                continue
            if w[0] == 'put':
                pend = (int(w[1]), unbits(int(w[2])))
            elif w[0] == 'stamp':
                x = unbits(int(w[1]))
                if pend is None:
                    return [{'what': 'a stamp without a put', 'signature': 'vck-shape'}], st
                i, t = pend
                k = info[i][0]
                if x != max(t, aux[k]) + vt[k]:
                    return [{'what': f'packet {i} of class {k} arriving at {t!r} is stamped {x!r}; max(now, aux_vc) + vtick = {max(t, aux[k]) + vt[k]!r}',
                             'signature': 'vck-stamp'}], st
                if aux[k] < t and aux[k] != 0:
                    st['arrivals of a class whose aux_vc had fallen behind the clock'] += 1
                aux[k] = x
                waiting.append((i, x, t))
                if cand is not None and not cand[0]:
                    cand = ([(i, x, t)], t)
                pend = None
            elif w[0] == 'get':
                t = unbits(int(w[1]))
                if busy is not None or cand is not None:
                    return [{'what': f'the server asks for a packet at {t!r} while it holds one', 'signature': 'vck-overlap'}], st
                if t != (0.0 if last_out is None else last_out):
                    return [{'what': f'the server asks for the next packet at {t!r}; the last transmission ended at {last_out!r}',
                             'signature': 'vck-idle'}], st
                cand = (list(waiting), t)
            elif w[0] == 'serve':
                i, t = int(w[1]), unbits(int(w[2]))
                if busy is not None:
                    return [{'what': f'packet {i} taken while {busy[0]} is in transmission', 'signature': 'vck-overlap'}], st
                if cand is None or not [y for y in cand[0] if y[0] == i]:
                    return [{'what': f'packet {i} is served but was not waiting when the store handed a packet over', 'signature': 'vck-not-waiting'}], st
                me = [y for y in cand[0] if y[0] == i][0]
                if t != cand[1]:
                    return [{'what': f'packet {i} is handed over at {cand[1]!r} but its service starts at {t!r}', 'signature': 'vck-idle'}], st
                lower = [y for y in cand[0] if (y[1], y[2]) < (me[1], me[2])]
                if lower:
                    return [{'what': f'packet {i} (stamp {me[1]!r}, arrived {me[2]!r}) is served while packet {lower[0][0]} '
                                     f'(stamp {lower[0][1]!r}, arrived {lower[0][2]!r}) waits', 'signature': 'vck-min-stamp'}], st
                if [y for y in waiting if info[y[0]][0] == info[i][0]][0][0] != i:
                    return [{'what': f'packet {i} overtakes an older packet of its flow', 'signature': 'vck-flow-order'}], st
                if len({info[y[0]][0] for y in cand[0]}) > 1:
                    st['decisions among several classes'] += 1
                if [y for y in cand[0] if y[0] != i and y[1] == me[1]]:
                    st['decisions with an equal stamp waiting'] += 1
                waiting = [y for y in waiting if y[0] != i]
                busy, cand = (i, t), None
            else:
                i, t = int(w[1]), unbits(int(w[2]))
                if busy is None or busy[0] != i:
                    return [{'what': f'packet {i} leaves but is not the one in transmission', 'signature': 'vck-out'}], st
                if t != busy[1] + info[i][1] * 8.0 / c['rate']:
                    return [{'what': f'packet {i}: transmission {busy[1]!r} -> {t!r}, not 8*size/rate', 'signature': 'vck-tx-time'}], st
                outs.append(i); busy = None; last_out = t
        if busy is not None or waiting or sorted(outs) != sorted(info) or not (cand is not None and not cand[0]):
            return [{'what': f'not every packet left: waiting {waiting[:6]}, in transmission {busy}', 'signature': 'vck-drain'}], st
        return [], st

    rng = random.Random(f'C14-vck-{ctx.seed}')
    cases = replay_cases() if ctx.replay else [gen(rng, i) for i in range(300 if ctx.quick else 5000)]
    txt, got = [], {}
    for c in cases:
        got[c['cid']] = impl(c)
        txt += text(c)
    model = split_cases(run_driver('vck', '\n'.join(txt) + '\n')) if cases else {}
    hist, nontriv = collections.Counter(), 0
    dis, orc = res['disagreements'], res['oracle_failures']
    for c in cases:
        a, b = got[c['cid']], model.get(c['cid'])
        if a != b:
            i = next((i for i in range(max(len(a), len(b or []))) if i >= len(a) or not b or i >= len(b) or a[i] != b[i]), 0)
            dis.append({'case': c, 'detail': f'vck line {i}: impl `{a[i] if i < len(a) else None}` model `{b[i] if b and i < len(b) else None}`',
                        'impl': a[:300], 'model': (b or [])[:300]})
        fails, st = oracle_k(c, a)
        for f in fails:
            f['case'] = c; f['trace'] = a[:300]
            orc.append(f)
        ev = [l.split() for l in a if l.split()[0] in ('put', 'serve', 'out')]
        out_t = {w[2] for w in ev if w[0] == 'out'}
        coinc = sum(1 for w in ev if w[0] == 'put' and w[2] in out_t)
        hist['packets'] += len(c['arrivals']); hist['arrivals at a transmission end'] += coinc
        hist.update(st)
        hist[f"classes:{c['F']}"] += 1
        hist[f"shape:{c.get('shape')}"] += 1
        if st.get('decisions among several classes') or coinc:
            nontriv += 1
    res['coverage']['vc_on_kernel_model'] = {
        'evaluations': len(cases), 'distinct_nontrivial': nontriv, 'lines_compared': sum(len(v) for v in got.values()),
        'rule': 'random vtick tables over 1-4 classes (equal vticks allowed, random dict order) x one source (bursts, arrivals on the grid of the '
                'transmission ends, sparse, random gaps, a class going idle and returning) without two packets of equal stamp and equal '
                'arrival instant, run by the K program at Float (driver mode vck) and by the real VC with a real source process under '
                'env.run(); non-trivial = a decision among packets of several classes or an arrival at a transmission end',
        'histogram': dict(sorted(hist.items())), 'sample': cases[0] if cases else None}
    return None
# ---- END vck leg ----


# ---- BEGIN wfqk leg: WFQ as processes on the kernel MODEL (lean/OnlVerif/Net/WFQOnK.lean, driver mode `wfqk`) ----
@guarded_leg(None)
def run_wfqk(ctx, res=None):
    """Extra leg for Props/C14KWfqExamples.lean: the K program of the WFQ scheduler (put / update_vtime / reset_vtime / send_packet /
    run with its bookkeeping + a source process), run at Float by the compiled driver, against the real WFQ with a real source
    process on the real kernel under env.run() (a subclass taps put(), update_vtime() / reset_vtime() inside put, and send_packet();
    the store's get is wrapped - the loop calls it right after its bookkeeping, so the wrapper also reports the virtual time at the
    end of each pass; a recording `out`), compared line for line (every put / vtime / stamp / get / serve / out / done with the clock
    resp. the stamp / the virtual time as bit patterns, final counters, vtime, last_time, finish_times, class_count, active_set, dict
    key orders); plus C14 for WFQ restated over the implementation's own observations.  Called twice from run(): without `res` it
    answers whether ctx.replay is a replay of this leg (then only this leg runs); with the result dict of the main leg it appends
    its coverage / disagreements / failures."""
    from vlib.util import bits, unbits, quiet, run_driver, split_cases
    from onl.sim import Environment
    from onl.packet import Packet
    from onl.scheduler import WFQ

    def replay_cases():
        j = json.load(open(ctx.replay))
        cs = ([j['case']] if j.get('case') else []) + [d['case'] for d in (j.get('broken_correspondence') or []) if d.get('case')]
        return [c for c in cs if isinstance(c, dict) and c.get('kind') == 'wfqk']

    if res is None:
        if not (ctx.replay and replay_cases()):
            return None
        res = {'coverage': {'evaluations': 0, 'distinct_nontrivial': 0, 'rule': 'replay of a wfqk case', 'samples': []},
               'disagreements': [], 'oracle_failures': []}
        run_wfqk(ctx, res)
        k = res['coverage']['wfq_on_kernel_model']
        res['coverage'].update(evaluations=k['evaluations'], distinct_nontrivial=k['distinct_nontrivial'], samples=[k['sample']])
        return res

    def gen1(rng, cid):
        F = rng.randint(1, 4)
        classes = list(range(F))
        rng.shuffle(classes)                             # insertion order of the weights dict
        pool = rng.choice([[1, 2, 3, 4], [1, 1, 2], [1.0, 2.0, 4.0, 0.5], [1, 3], [0.25, 0.5, 1.5, 2.0]])
        weights = [(k, rng.choice(pool)) for k in classes]
        rate = rng.choice([8.0, 8.0, 8.0, 16.0, 4.0, 1000.0, 12345.678, 1e6 / 3])
        n = rng.randint(0, 14)
        shape = rng.choice(['burst', 'coincide', 'coincide', 'mixed', 'mixed', 'sparse', 'sparse', 'random', 'idle-return', 'ties', 'ties'])
        if shape == 'ties':                              # finish times on a coarse grid under a standing backlog: equal stamps, different instants
            weights = [(k, rng.choice([1, 1, 2])) for k in classes]
        arr = []
        for i in range(n):
            if shape == 'burst':
                gap = 0.0 if i else rng.choice([0.0, 1.0])
            elif shape == 'coincide':                    # unit-size packets at rate 8: transmissions last 1.0, arrivals on the grid
                gap = float(rng.choice([0, 0, 1, 1, 1, 2]))
            elif shape == 'sparse':                      # busy periods that end and restart: the vtime reset
                gap = float(rng.choice([0, 0, 1, 3, 5, 10, 50]))
            elif shape == 'ties':                        # the classes start together (V = 0), later arrivals are stamped F + d while V lags behind
                gap = 0.0 if i < min(F, 3) else rng.choice([0.25, 0.5, 0.5, 1.0])
            elif shape == 'random':
                gap = rng.random() * 3
            elif shape == 'idle-return':                 # a burst, a long silence (the busy period ends), a burst
                gap = 40.0 if i == n // 2 else rng.choice([0.0, 0.0, 0.5])
            else:
                gap = rng.choice([0.0, 0.0, 0.5, 1.0, 1.0, 2.0, 3.0, round(rng.random() * 4, 3)])
            size = (1 if shape == 'coincide' else rng.choice([2, 4]) if shape == 'ties' else rng.choice([1, 1, 2]) if shape == 'sparse'
                    else rng.choice([1, 1, 2, 3, 4, 100, 1500]))
            f = (i if shape == 'ties' and i < min(F, 3) else rng.randrange(F) if shape != 'idle-return' or F == 1
                 else (0 if rng.random() < 0.6 else rng.randrange(F)))
            if shape == 'ties' and i < min(F, 3):        # the first packet of class i is stamped 2(i + 1)
                size = 2 * (i + 1) * dict(weights)[f]
            arr.append([gap, i, f, size])
        if shape in ('coincide', 'ties', 'sparse'):
            rate = 8.0
        return {'cid': f'w{cid}', 'kind': 'wfqk', 'F': F, 'weights': weights, 'rate': rate, 'arrivals': arr, 'shape': shape}

    def text(c):
        return ([f"CASE {c['cid']} {bits(c['rate'])} {c['F']}"] + [f'w {k} {bits(v)}' for k, v in c['weights']]
                + [f'arr {bits(g)} {i} {f} {sz}' for g, i, f, sz in c['arrivals']] + ['END'])

    def impl(c):
        env = Environment()
        hist = []
        state = {'in_put': False, 'gets': 0}

        class TapWFQ(WFQ):
            def put(self, packet):
                hist.append(f'put {packet.packet_id} {bits(env.now)}')
                state['in_put'] = True
                try:
                    r = super().put(packet)
                finally:
                    state['in_put'] = False
                hist.append(f'stamp {bits(self.finish_times[packet.flow_id])}')
                return r

            def update_vtime(self):
                super().update_vtime()
                if state['in_put']:
                    hist.append(f'vtime {bits(self.vtime)}')

            def reset_vtime(self):
                super().reset_vtime()
                if state['in_put']:
                    hist.append(f'vtime {bits(self.vtime)}')

            def send_packet(self, packet):
                hist.append(f'serve {packet.packet_id} {bits(env.now)}')
                return super().send_packet(packet)

        class Rec:
            def put(self, packet):
                hist.append(f'out {packet.packet_id} {bits(env.now)}')
        with quiet():
            wfq = TapWFQ(env, c['rate'], dict(map(tuple, c['weights'])))
        wfq.out = Rec()
        real_get = wfq.store.get

        def tapped_get(*a, **k):
            if state['gets']:                            # the loop calls store.get() right after its bookkeeping (last_time = env.now)
                hist.append(f'done {bits(wfq.vtime)}')
            state['gets'] += 1
            hist.append(f'get {bits(env.now)}')
            return real_get(*a, **k)
        wfq.store.get = tapped_get                       # run() has not started yet: its first burst is the Initialize event

        def src():
            for gap, i, f, sz in c['arrivals']:
                yield env.timeout(gap)
                wfq.put(Packet(env.now, sz, i, src='src', flow_id=f))
        env.process(src())
        try:
            with quiet():
                env.run()
            tag = 'RET'
        except BaseException as x:        # noqa - the property says the run never raises
            tag = f'RAISED {type(x).__name__}'
        lines = [tag] + hist
        try:                              # a changed implementation may lack an attribute: that is a disagreement, not a crash of the check
            cur = wfq.current_packet
            lines += [f'cells rc={wfq.packets_received} cur={"None" if cur is None else cur.packet_id} len={len(wfq.store.items)}']
            for f in range(c['F']):
                lines.append(f'flow {f} count={wfq.queue_count.get(f, 0)} bytes={wfq.queue_byte_size.get(f, 0)}')
            lines.append(f'vtime {bits(wfq.vtime)} last_time {bits(wfq.last_time)}')
            if wfq.finish_times and list(wfq.finish_times.keys()) != [k for k, _ in c['weights']]:
                lines.append(f'key order of finish_times: {list(wfq.finish_times.keys())}')
            for k, _ in c['weights']:
                lines.append(f'class {k} finish={bits(wfq.finish_times[k]) if k in wfq.finish_times else "-"} '
                             f'count={wfq.class_count.get(k, "-")} active={1 if k in wfq.active_set else 0}')
            lines.append(f'keys {list(wfq.queue_count.keys())}')
            lines.append(f'ckeys {list(wfq.class_count.keys())}')
        except Exception as x:            # noqa
            lines.append(f'final state unreadable: {type(x).__name__}')
        return lines + [f'now {bits(env.now)}', 'oracle ok' if tag == 'RET' and not oracle_k(c, lines)[0] else 'oracle -' if tag != 'RET' else 'oracle REJECT']

    def full_tie(lines):
        """two packets with the same (stamp, arrival instant) key in the implementation's own run"""
        ks, t = [], None
        for l in lines:
            w = l.split()
            if w[0] == 'put':
                t = w[2]
            elif w[0] == 'stamp':
                ks.append((w[1], t))
        return len(set(ks)) != len(ks)

    def gen(rng, cid):
        # two packets with the same finish time AND the same arrival instant leave in an order that depends on heapq's layout (outside
        # the model, DESIGN section 3); such workloads are left to the main leg, which accepts either order.  The keys are those of the
        # implementation's own run
        for _ in range(200):
            c = gen1(rng, cid)
            lines = impl(c)
            if not full_tie(lines):
                return c, lines
        c['arrivals'] = []
        return c, impl(c)

    def oracle_k(c, lines):
        """C14 (WFQ) restated over the implementation's own put / vtime / stamp / get / serve / out / done observations (exact float
        equalities: Python computes the expressions itself): the run returns; at every arrival virtual time is 0 (and all finish
        times are 0) when no packet is waiting or in transmission, else it has advanced by (now - last event instant) / sum of the
        weights of the active classes (classes with a packet waiting, in transmission, or just departed and not yet booked out by
        the loop); every arrival is stamped max(F_class, V) + 8*size/(rate*w_class); the server asks for the next packet at instant
        0 and then in the very instant of each departure (never idle with a backlog); the packet handed to send_packet is one of
        those waiting when the server asked (if none was: the first to arrive afterwards), none of them has a smaller (stamp,
        arrival instant), and it is the oldest of its flow; it is handed over in the instant of the request resp. of its arrival;
        one packet at a time; out = serve + 8*size/rate exactly; at the end of each pass of the loop virtual time has advanced to
        the departure instant by the same rule and is 0 (with all finish times) when no packet is waiting any more; every packet
        leaves once"""
        if lines[0] != 'RET':
            return [{'what': f'the run ended with {lines[0]}', 'signature': 'wfqk-raised'}], {}
        wt = dict(map(tuple, c['weights']))
        info = {i: (f, sz) for _, i, f, sz in c['arrivals']}
        fin = {k: 0.0 for k in wt}
        V, last = 0.0, 0.0
        waiting, cand, busy, leaving, last_out, pend, outs = [], None, None, None, None, None, []
        st = collections.Counter()

        def advance(t):
            act = {info[y[0]][0] for y in waiting} | ({info[busy[0]][0]} if busy else set()) | ({info[leaving][0]} if leaving is not None else set())
            ws = 0.0
            for k in sorted(act):
                ws += wt[k]
            return V + (t - last) / ws
        for l in lines[1:]:
            w = l.split()
            if w[0] not in ('put', 'vtime', 'stamp', 'get', 'serve', 'out', 'done'):
                continue
            if w[0] == 'vtime' and len(w) != 2:          # the final `vtime … last_time …` line
                continue
            if w[0] == 'put':
                if pend is not None:
                    return [{'what': 'a put inside a put', 'signature': 'wfqk-shape'}], st
                pend = (int(w[1]), unbits(int(w[2])), False)
            elif w[0] == 'vtime':
                v = unbits(int(w[1]))
                if pend is None or pend[2]:
                    return [{'what': 'a vtime observation without a put', 'signature': 'wfqk-shape'}], st
                i, t, _ = pend
                if not waiting and busy is None:
                    if v != 0.0:
                        return [{'what': f'packet {i} arrives at {t!r} at an empty scheduler and sees virtual time {v!r}, not 0', 'signature': 'wfqk-vtime-reset'}], st
                    if leaving is not None:
                        st['arrivals to an empty scheduler in the instant the last transmission ended (before the loop booked the packet out)'] += 1
                    fin = {k: 0.0 for k in wt}
                else:
                    e = advance(t)
                    if v != e:
                        return [{'what': f'packet {i} arrives at {t!r} and sees virtual time {v!r}; V + (now - last)/sum of active weights = {e!r}',
                                 'signature': 'wfqk-vtime'}], st
                V = v
                pend = (i, t, True)
            elif w[0] == 'stamp':
                x = unbits(int(w[1]))
                if pend is None or not pend[2]:
                    return [{'what': 'a stamp without a put / vtime', 'signature': 'wfqk-shape'}], st
                i, t, _ = pend
                k, sz = info[i]
                e = max(fin[k], V) + sz * 8.0 / (c['rate'] * wt[k])
                if x != e:
                    return [{'what': f'packet {i} of class {k} arriving at {t!r} is stamped {x!r}; max(F, V) + 8*size/(rate*w) = {e!r}',
                             'signature': 'wfqk-stamp'}], st
                fin[k] = x
                waiting.append((i, x, t))
                if cand is not None and not cand[0]:
                    cand = ([(i, x, t)], t)
                last = t
                pend = None
            elif w[0] == 'get':
                t = unbits(int(w[1]))
                if busy is not None or cand is not None or leaving is not None:
                    return [{'what': f'the server asks for a packet at {t!r} while it holds one', 'signature': 'wfqk-overlap'}], st
                if t != (0.0 if last_out is None else last_out):
                    return [{'what': f'the server asks for the next packet at {t!r}; the last transmission ended at {last_out!r}',
                             'signature': 'wfqk-idle'}], st
                cand = (list(waiting), t)
            elif w[0] == 'serve':
                i, t = int(w[1]), unbits(int(w[2]))
                if busy is not None:
                    return [{'what': f'packet {i} taken while {busy[0]} is in transmission', 'signature': 'wfqk-overlap'}], st
                if cand is None or not [y for y in cand[0] if y[0] == i]:
                    return [{'what': f'packet {i} is served but was not waiting when the store handed a packet over', 'signature': 'wfqk-not-waiting'}], st
                me = [y for y in cand[0] if y[0] == i][0]
                if t != cand[1]:
                    return [{'what': f'packet {i} is handed over at {cand[1]!r} but its service starts at {t!r}', 'signature': 'wfqk-idle'}], st
                lower = [y for y in cand[0] if (y[1], y[2]) < (me[1], me[2])]
                if lower:
                    return [{'what': f'packet {i} (stamp {me[1]!r}, arrived {me[2]!r}) is served while packet {lower[0][0]} '
                                     f'(stamp {lower[0][1]!r}, arrived {lower[0][2]!r}) waits', 'signature': 'wfqk-min-stamp'}], st
                if [y for y in waiting if info[y[0]][0] == info[i][0]][0][0] != i:
                    return [{'what': f'packet {i} overtakes an older packet of its flow', 'signature': 'wfqk-flow-order'}], st
                if len({info[y[0]][0] for y in cand[0]}) > 1:
                    st['decisions among several classes'] += 1
                if [y for y in cand[0] if y[0] != i and y[1] == me[1]]:
                    st['decisions with an equal stamp waiting'] += 1
                waiting = [y for y in waiting if y[0] != i]
                busy, cand = (i, t), None
            elif w[0] == 'out':
                i, t = int(w[1]), unbits(int(w[2]))
                if busy is None or busy[0] != i:
                    return [{'what': f'packet {i} leaves but is not the one in transmission', 'signature': 'wfqk-out'}], st
                if t != busy[1] + info[i][1] * 8.0 / c['rate']:
                    return [{'what': f'packet {i}: transmission {busy[1]!r} -> {t!r}, not 8*size/rate', 'signature': 'wfqk-tx-time'}], st
                outs.append(i); busy = None; leaving = i; last_out = t
            else:
                v = unbits(int(w[1]))
                if leaving is None or pend is not None:
                    return [{'what': 'the loop books a packet out that has not left', 'signature': 'wfqk-shape'}], st
                e = advance(last_out)
                if not waiting:
                    st['busy periods ended (vtime reset)'] += 1
                    if v != 0.0:
                        return [{'what': f'the busy period ends at {last_out!r} and virtual time is {v!r}, not 0', 'signature': 'wfqk-vtime-reset'}], st
                    fin = {k: 0.0 for k in wt}
                elif v != e:
                    return [{'what': f'after the departure of packet {leaving} at {last_out!r} virtual time is {v!r}; V + (now - last)/sum of active weights = {e!r}',
                             'signature': 'wfqk-vtime'}], st
                V, last, leaving = v, last_out, None
        if busy is not None or waiting or leaving is not None or sorted(outs) != sorted(info) or not (cand is not None and not cand[0]):
            return [{'what': f'not every packet left: waiting {waiting[:6]}, in transmission {busy}', 'signature': 'wfqk-drain'}], st
        return [], st

    rng = random.Random(f'C14-wfqk-{ctx.seed}')
    if ctx.replay:
        cases = replay_cases()
        got = {c['cid']: impl(c) for c in cases}
    else:
        cases, got = [], {}
        for i in range(300 if ctx.quick else 5000):
            c, lines = gen(rng, i)
            cases.append(c); got[c['cid']] = lines
    txt = []
    for c in cases:
        txt += text(c)
    model = split_cases(run_driver('wfqk', '\n'.join(txt) + '\n')) if cases else {}
    hist, nontriv = collections.Counter(), 0
    # counted, and 0 by construction in this leg: with ONE timeout-driven source the arrival would have to be scheduled after the
    # sender's timeout, i.e. from a put during that transmission - whose packet is then still waiting.  The main leg reaches it.
    hist['arrivals to an empty scheduler in the instant the last transmission ended (before the loop booked the packet out)'] = 0
    dis, orc = res['disagreements'], res['oracle_failures']
    for c in cases:
        a, b = got[c['cid']], model.get(c['cid'])
        if a != b:
            i = next((i for i in range(max(len(a), len(b or []))) if i >= len(a) or not b or i >= len(b) or a[i] != b[i]), 0)
            dis.append({'case': c, 'detail': f'wfqk line {i}: impl `{a[i] if i < len(a) else None}` model `{b[i] if b and i < len(b) else None}`',
                        'impl': a[:300], 'model': (b or [])[:300]})
        fails, st = oracle_k(c, a)
        for f in fails:
            f['case'] = c; f['trace'] = a[:300]
            orc.append(f)
        ev = [l.split() for l in a if l.split()[0] in ('put', 'serve', 'out')]
        out_t = {w[2] for w in ev if w[0] == 'out'}
        coinc = sum(1 for w in ev if w[0] == 'put' and w[2] in out_t)
        hist['packets'] += len(c['arrivals']); hist['arrivals at a transmission end'] += coinc
        hist.update(st)
        hist[f"classes:{c['F']}"] += 1
        hist[f"shape:{c.get('shape')}"] += 1
        if st.get('decisions among several classes') or coinc:
            nontriv += 1
    res['coverage']['wfq_on_kernel_model'] = {
        'evaluations': len(cases), 'distinct_nontrivial': nontriv, 'lines_compared': sum(len(v) for v in got.values()),
        'rule': 'random weight tables (integers 1-4 or dyadic) over 1-4 classes (equal weights allowed, random dict order) x one source (bursts, '
                'arrivals on the grid of the transmission ends, sparse traffic whose busy periods end and restart, random gaps, a long silence, '
                'equal finish times) without two packets of equal finish time and equal arrival instant (judged on the implementation\'s own '
                'run), run by the K program at Float (driver mode wfqk) and by the real WFQ with a real source process under env.run(); '
                'non-trivial = a decision among packets of several classes or an arrival at a transmission end',
        'histogram': dict(sorted(hist.items())), 'sample': cases[0] if cases else None}
    return None
# ---- END wfqk leg ----


def run(ctx, prop='C14', n_quick=3000, n_thorough=50000):
    if prop == 'C14':
        vk = run_vck(ctx)                    # vck leg: a replay of one of its cases runs only that leg
        if vk is not None:
            return vk
        wk = run_wfqk(ctx)                   # wfqk leg: likewise
        if wk is not None:
            return wk
    rng = random.Random(f'{prop}-{ctx.seed}')
    if ctx.replay:
        j = json.load(open(ctx.replay))
        cases = [j['case']] if j.get('case') else [d['case'] for d in j.get('broken_correspondence', [])]
    else:
        cases = [gen_case(rng, i, aged=0.3 if prop == 'C14' else 0.0) for i in range(n_quick if ctx.quick else n_thorough)]
    dis, orc, hist = [], [], collections.Counter()
    distinct, nontriv, samples, lines = set(), 0, [], 0
    for c, r, model in replay(cases):
        lines += len(r.acts)
        for l in r.acts:
            hist[l.split(' ')[0]] += 1
        hist['kind:' + c['kind']] += 1
        hist['family:' + c.get('family', '?')] += 1
        if c.get('style') == 'anyasc':          # b-fixwfq
            hist['WFQ cases with three or more classes and weights that are neither whole nor dyadic (table in ascending class order)'] += 1
        hist['map:' + ('default' if c.get('f2c_default') else 'identity' if all(f == k for f, k in c['f2c']) else 'many-to-one')] += 1
        d = first_diff(r.obs, model)
        if d:
            dis.append({'case': c, 'detail': f'line {d[0]}: impl `{d[1]}` model `{d[2]}`', 'impl': r.obs[:300], 'model': (model or [])[:300]})
        fails, st = oracle(c, r)
        for f in fails[:3]:
            f['case'] = c; f['trace'] = r.obs[:300]
            orc.append(f)
        if c.get('ages'):
            hist['cases whose packets were created before they arrive (Packet.time < arrival instant)'] += 1
            hist['equal-stamp pairs at a decision, arrival instants differ, packets created before arrival'] += st['ties'] - st['full_ties']
        hist['equal-stamp pairs at a decision'] += st['ties']
        hist['equal-stamp-and-instant pairs at a decision'] += st['full_ties']
        hist['fairness pairs checked'] += st['fair_pairs']
        for k_, v_ in st['start'].items():
            hist['start-of-transmission oracle: ' + k_] += v_
        ev3 = [e for e in r.hist if e[0] in ('arr', 'dep', 'done')]
        hist['arrivals to an empty scheduler before the loop booked the last packet out'] += sum(
            1 for i, e in enumerate(ev3) if e[0] == 'arr' and i > 0 and ev3[i - 1][0] == 'dep' and sum(n for n, _ in e[5].values()) == 1)
        resets = sum(1 for e in r.hist if e[0] == 'done' and e[2].get('active') == [])
        hist['busy periods ended (vtime reset)'] += resets
        multi = any(e[0] == 'choose' and len({x.flow_id for x in e[3]}) > 1 for e in r.hist)
        key = json.dumps({k: v for k, v in c.items() if k != 'cid'}, sort_keys=True)
        nt = multi or st['ties'] > 0
        if nt and key not in distinct:
            nontriv += 1
        distinct.add(key)
        if nt and len(samples) < 2:
            samples.append({'config': {k: v for k, v in c.items() if k != 'sources'}, 'sources': c['sources'], 'actions': r.acts[:40]})
    cov = {'evaluations': len(cases), 'distinct_nontrivial': nontriv,
           'rule': 'seeded WFQ / VirtualClock configurations (weight / vtick tables, identity and many-to-one class maps) x arrival workloads '
                   '(random, static backlog, deliberately equal stamps, idle periods, arrivals at transmission ends and at the very end of a busy period, unconfigured flow, one very long busy period with V beyond 1e6); '
                   'non-trivial = distinct case with a service decision taken among packets of at least two flows, or among equal stamps',
           'samples': samples, 'traces_validated_against_impl': len(cases) - len(dis), 'action_lines_replayed': lines,
           'operation_histogram': dict(sorted(hist.items()))}
    if prop == 'C14':
        cov.update({'translated': _PREP.get('translated', []), 'generated_files_rewritten': _PREP.get('rewritten', []),
                    'generated_diff_vs_pinned': _PREP.get('diff_vs_pinned', []), 'bridge_theorems': BRIDGES,
                    'hand_modelled': HAND_MODELLED})
    res = {'coverage': cov, 'disagreements': dis, 'oracle_failures': orc}
    if prop == 'C14':
        run_vck(ctx, res)                    # vck leg: appends its coverage, disagreements and oracle failures in place
        run_wfqk(ctx, res)                   # wfqk leg: likewise
    return res
