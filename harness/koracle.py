"""Direct oracles for the kernel properties: predicates over the implementation's own behaviour that restate the
property, independent of the Lean model.  They use a subclass of Environment that overrides the PUBLIC methods
`schedule` and `step` to keep its own record of what was scheduled and what was processed."""
from onl.sim import Environment
from onl.sim.core import EmptySchedule
from onl.sim.events import Timeout, Initialize, Interruption, Process, Condition, URGENT, NORMAL
from harness import kscript


class RecEnv(Environment):
    """records every schedule() call and every processed event (public API only)"""

    def __init__(self, *a, **k):
        super().__init__(*a, **k)
        self.pending = []     # dicts: ev, time, prio, seq, typ, at
        self.seq = 0
        self.popped = []      # (record, now after the pop)
        self.problems = []

    def schedule(self, event, priority=NORMAL, delay=0):
        rec = {'ev': event, 'time': self.now + delay, 'prio': int(priority), 'seq': self.seq, 'typ': type(event).__name__,
               'at': self.now, 'delay': delay}
        self.seq += 1
        self.pending.append(rec)
        super().schedule(event, priority, delay)

    def step(self):
        before = self.now
        cands = [r for r in self.pending if r['ev'].callbacks is not None]
        try:
            super().step()
        finally:
            done = [r for r in cands if r['ev'].callbacks is None]
            if len(done) == 1:
                r = done[0]
                self.pending.remove(r)
                best = min(cands, key=lambda x: (x['time'], x['prio'], x['seq']))
                if best is not r:
                    self.problems.append(f"processed {r['typ']} due at {r['time']} (priority {r['prio']}, trigger #{r['seq']}) although "
                                         f"{best['typ']} due at {best['time']} (priority {best['prio']}, trigger #{best['seq']}) was pending")
                if self.now != r['time']:
                    self.problems.append(f"{r['typ']} scheduled for {r['time']} took effect at {self.now}")
                if self.now < before:
                    self.problems.append(f'time went back from {before} to {self.now}')
                self.popped.append((r, self.now))


def run_recorded(case):
    """run `case` on a RecEnv; returns (runner, env)"""
    orig = kscript.Environment
    kscript.Environment = RecEnv
    try:
        r = kscript.Runner(case)
        r.run()
    finally:
        kscript.Environment = orig
    return r, r.env


def oracle_c01(case, lines, runner=None):
    """time order / urgent first / trigger order / exact due time / priority classes, from the recorded schedule"""
    if case.mode != 'step' or any(l.startswith('X TypeError') for l in lines):
        return []
    r, env = run_recorded(case)
    fails = [{'what': p, 'signature': 'c01-order'} for p in env.problems[:2]]
    for rec in env.pending + [x for x, _ in env.popped]:
        t = rec['typ']
        if t in ('Initialize', 'Interruption') and (rec['prio'] != int(URGENT) or rec['delay'] != 0):
            fails.append({'what': f'{t} scheduled with priority {rec["prio"]} delay {rec["delay"]}', 'signature': 'c01-urgent-class'}); break
        if t not in ('Initialize', 'Interruption') and rec['prio'] != int(NORMAL):
            fails.append({'what': f'{t} scheduled with priority {rec["prio"]}', 'signature': 'c01-normal-class'}); break
        if t == 'Timeout' and rec['time'] != rec['at'] + rec['ev']._delay:
            fails.append({'what': f'Timeout({rec["ev"]._delay}) created at {rec["at"]} is due at {rec["time"]}', 'signature': 'c01-due'}); break
    # negative delays must have been refused
    for p in case.progs:
        for ins in p:
            if ins[0] == 'timeout' and ins[2] < 0:
                pass
    return fails
