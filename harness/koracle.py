"""Direct oracles for the kernel properties: predicates over the implementation's own behaviour that restate the
property, independent of the Lean model.  They use a subclass of Environment that overrides the PUBLIC methods
`schedule` and `step` to keep its own record of what was scheduled and what was processed."""
from onl.sim import Environment
from onl.sim.core import EmptySchedule
from onl.sim.events import Timeout, Initialize, Interruption, Process, Condition, URGENT, NORMAL
from harness import kscript


class RecEnv(Environment):
    """records every schedule() call and every processed event (public API only)"""

    def __init__(self, *a, **k):
        super().__init__(*a, **k)
        self.pending = []     # dicts: ev, time, prio, seq, typ, at
        self.seq = 0
        self.popped = []      # (record, now after the pop)
        self.problems = []
        self.on_done = None   # called with every processed event (after its callbacks)
        self.nstep = 0        # number of step() calls entered so far: schedule() calls made during step k carry 'step': k

    def schedule(self, event, priority=NORMAL, delay=0):
        rec = {'ev': event, 'time': self.now + delay, 'prio': int(priority), 'seq': self.seq, 'typ': type(event).__name__,
               'at': self.now, 'delay': delay, 'step': self.nstep}
        self.seq += 1
        self.pending.append(rec)
        super().schedule(event, priority, delay)

    def step(self):
        before = self.now
        self.nstep += 1
        cands = [r for r in self.pending if r['ev'].callbacks is not None]
        try:
            super().step()
        finally:
            done = [r for r in cands if r['ev'].callbacks is None]
            if len(done) == 1:
                r = done[0]
                self.pending.remove(r)
                best = min(cands, key=lambda x: (x['time'], x['prio'], x['seq']))
                if best is not r:
                    self.problems.append(f"processed {r['typ']} due at {r['time']} (priority {r['prio']}, trigger #{r['seq']}) although "
                                         f"{best['typ']} due at {best['time']} (priority {best['prio']}, trigger #{best['seq']}) was pending")
                if self.now != r['time']:
                    self.problems.append(f"{r['typ']} scheduled for {r['time']} took effect at {self.now}")
                if self.now < before:
                    self.problems.append(f'time went back from {before} to {self.now}')
                self.popped.append((r, self.now))
                if self.on_done is not None:
                    self.on_done(r['ev'])


def run_recorded(case):
    """run `case` on a RecEnv; returns (runner, env)"""
    orig = kscript.Environment
    kscript.Environment = RecEnv
    try:
        r = kscript.Runner(case)
        r.run()
    finally:
        kscript.Environment = orig
    return r, r.env


def is_interrupt_delivery(rec, y):
    """`rec` = ('resumed', …) with an Interrupt thrown at the yield recorded in `y`: a delivered interrupt, unless the awaited
    event itself failed with an Interrupt (a process that re-raised its Interrupt): the kernel then throws a copy whose
    __cause__ is the awaited event's own exception"""
    if rec[3] or type(rec[4]).__name__ != 'Interrupt':
        return False
    if y is not None and getattr(y[6], '_ok', True) is False and getattr(rec[4], '__cause__', None) is y[6]._value:
        return False
    return True


def urgent_trigger_order(r):
    """restates C01 "process starts, interrupts … take effect … within each of these two classes strictly in the order in which
    they were triggered", on what the program itself observes: occurrences of the urgent class have no delay, so over a whole
    run the process starts and interrupt deliveries (of DIFFERENT processes too) must happen in the order in which the
    program called env.process() / interrupt().  Interrupts discarded because the victim had ended are simply absent."""
    trig, starts, issued = [], {}, {}
    for rec in r.rec:
        if rec[0] == 'spawned':
            starts[rec[2]] = len(trig); trig.append(('start of process', rec[2][0], None, rec[3]))
        elif rec[0] == 'interrupt' and not rec[7]:
            issued.setdefault(rec[3], []).append(len(trig)); trig.append(('interrupt of process', rec[3][0], rec[4], rec[8]))
    order, waiting, ndeliv = [], {}, {}
    for rec in r.rec:
        if rec[0] == 'yield':
            waiting[rec[2]] = rec
        elif rec[0] == 'started':
            if rec[2] in starts:
                order.append((starts[rec[2]], rec[3]))
        elif rec[0] == 'resumed':
            y = waiting.pop(rec[2], None)
            if is_interrupt_delivery(rec, y) and type(rec[4].cause).__name__ != 'Preempted':
                k = ndeliv.get(rec[2], 0); ndeliv[rec[2]] = k + 1
                mine = issued.get(rec[2], [])
                if k >= len(mine) or trig[mine[k]][2] != rec[4].cause:
                    return []          # which interrupt this is cannot be told (per-victim order is the subject of C04)
                order.append((mine[k], rec[5]))
    for (a, ta), (b, tb) in zip(order, order[1:]):
        if b < a:
            d = lambda i: f'{trig[i][0]} {trig[i][1]}' + (f' (cause {trig[i][2]})' if trig[i][2] is not None else '') + f' triggered at {trig[i][3]} as urgent occurrence #{i}'
            return [{'what': f'urgent occurrences took effect out of trigger order: {d(a)} took effect (at {ta}) before {d(b)} (at {tb})',
                     'signature': 'c01-urgent-trigger-order'}]
    return []


def ordinary_overtakes(r):
    """restates C01 "whatever is scheduled for time t takes effect at exactly t ... within each of these two classes strictly in the
    order in which they were triggered" on what the program observes: an event the program triggers with succeed()/fail() is
    an ordinary occurrence due now; it takes effect (a process that yields it continues with its outcome, a condition counts it)
    only when its turn comes, i.e. after every occurrence triggered earlier for this instant (urgent ones included).  Seeing
    it processed within the very burst that triggered it, while earlier-triggered occurrences due now are still pending, is an
    overtaking."""
    for lab, by, at, how, ahead, now in r.overtakes:
        d = ', '.join(f'{typ} e{l} (trigger #{seq}, due at {time})' if l else f'{typ} (trigger #{seq}, due at {time})' for typ, l, seq, time in ahead)
        return [{'what': f'event e{lab} was triggered by process {by} at {at} and took effect in the same burst ({how}) although '
                         f'occurrences triggered earlier and due at that instant were still pending: {d}; ordinary occurrences take '
                         f'effect strictly in trigger order, after the urgent ones', 'signature': 'c01-ordinary-trigger-order'}]
    return []


def oracle_c01(case, lines, runner=None):
    """time order / urgent first / trigger order / exact due time / priority classes, from the recorded schedule"""
    if case.mode != 'step':
        return []
    ri = instrumented(case)
    if externally_triggered(ri):
        return []
    r, env = run_recorded(case)
    fails = [{'what': p, 'signature': 'c01-order'} for p in env.problems[:2]]
    fails += urgent_trigger_order(ri)
    fails += ordinary_overtakes(ri)
    for rec in env.pending + [x for x, _ in env.popped]:
        t = rec['typ']
        if t in ('Initialize', 'Interruption') and (rec['prio'] != int(URGENT) or rec['delay'] != 0):
            fails.append({'what': f'{t} scheduled with priority {rec["prio"]} delay {rec["delay"]}', 'signature': 'c01-urgent-class'}); break
        if t not in ('Initialize', 'Interruption') and rec['prio'] != int(NORMAL):
            fails.append({'what': f'{t} scheduled with priority {rec["prio"]}', 'signature': 'c01-normal-class'}); break
        if t == 'Timeout' and rec['time'] != rec['at'] + rec['ev']._delay:
            fails.append({'what': f'Timeout({rec["ev"]._delay}) created at {rec["at"]} is due at {rec["time"]}', 'signature': 'c01-due'}); break
    # negative delays must have been refused
    for p in case.progs:
        for ins in p:
            if ins[0] == 'timeout' and ins[2] < 0:
                pass
    return fails


# =====================================================================================================
# instrumented oracle runs for C02 / C04 / C05

class OracleRunner(kscript.Runner):
    """a second, instrumented execution of the same case (the kernel is deterministic): records what every process
    waited for and received, every trigger / interrupt attempt, every condition, and when each event was processed"""

    def __init__(self, case):
        orig = kscript.Environment
        kscript.Environment = RecEnv          # observe processing through the public step(), not through extra callbacks
        try:
            super().__init__(case)
        finally:
            kscript.Environment = orig
        self.env.on_done = self._done
        self.rec = []           # chronological records
        self.processed = {}     # label -> (seqno, now, ok, value)
        self.conds = {}         # label -> (kind, [operand events])
        self.cond_pre = {}      # label -> [operand already processed at construction]
        self.cond_at = {}       # label -> (step in which it was constructed, already triggered when the constructor returned)
        self.pstep = {}         # label -> step in which the event was processed
        self.keepcb = []
        self.ended = []         # (Process, name, returned normally?, value or exception, now): how each script generator ended
        self.seqno = 0
        self.cond_obj = {}      # label -> the condition object
        self.cond_form = {}     # label -> how the operands were handed to the constructor (list, generator, iterator, tuple, filter, operator)
        self.trig_at = {}       # label -> (kernel step, RecEnv trigger count) at the accepted succeed()/fail() call of the program
        self.overtakes = []     # events that took effect in the very burst that triggered them (see ordinary_overtakes)
        self.lines_done = {}    # label -> number of observation lines when the kernel step that processed the event had ended
        self.until_returns = [] # (label, already processed at the call, observation lines at the return, returned normally?)
        self._yielded = {}      # id(Process) -> the event of its current yield

    def _tick(self):
        self.seqno += 1
        return self.seqno

    def _done(self, e):
        lab = self.lab(e)
        if lab and lab not in self.processed:
            self.pstep[lab] = self.env.nstep
            self.lines_done[lab] = len([l for l in self.lines if l[0] in 'PB'])
            self.processed[lab] = (self._tick(), self.env.now, e._ok, e._value,
                                   [self.lab(x) for x in e._value.events] if type(e._value).__name__ == 'ConditionValue' else None)

    def hook(self, what, *a):
        # processes are identified by the Process object the script generator runs in (handed to it by the interpreter): static
        # names can be shared by several spawned processes, and env.active_process is part of what is being checked
        if what == 'yield':
            name, ev, me = a
            self.rec.append(('yield', self._tick(), (name, id(me)), self.lab(ev), self.env.now, ev.callbacks is None, ev))
            self._yielded[id(me)] = ev
            self._took_effect(ev, f'process {name} yielded it and continued at once as if it had been processed')
        elif what == 'resumed':
            name, ok, v, me = a
            self.rec.append(('resumed', self._tick(), (name, id(me)), ok, v, self.env.now, self._cond_states(self._yielded.get(id(me)))))
        elif what == 'trigger':
            name, ev, was, raised = a
            self.rec.append(('trigger', self._tick(), name, self.lab(ev), was, raised))
            if not was and not raised:
                self.trig_at[self.lab(ev)] = (self.env.nstep, self.env.seq, name, self.env.now)
        elif what == 'until-return':
            ev, was_done, normal = a
            crashed = any(l.startswith('X ') and not (l.split(' ')[1] in ('ValueError', 'RuntimeError', 'EmptySchedule') and l.split(' ')[2] in ('s*', ''))
                          for l in self.lines)      # an exception other than a refusal came out of an earlier piece of the run
            self.until_returns.append((self.lab(ev), was_done, len([l for l in self.lines if l[0] in 'PB']), normal and ev.processed and not crashed,
                                       self.env.now))
        elif what == 'interrupt':
            name, victim, cause, alive, selfi, raised, me, busy = a
            self.rec.append(('interrupt', self._tick(), name, (self.pnames.get(id(victim)), id(victim)), cause, alive, selfi, raised, self.env.now, busy))
        elif what == 'cond-form':
            self._form = a[0]
        elif what == 'cond':
            ev, kind, evs = a
            self.cond_form[self.lab(ev)] = getattr(self, '_form', None) or 'pair of operands of & / |'
            self._form = None
            self.conds[self.lab(ev)] = (kind, list(evs), self.env.now, self._tick())
            self.cond_pre[self.lab(ev)] = [e.callbacks is None for e in evs]      # what the constructor saw
            self.cond_at[self.lab(ev)] = (self.env.nstep, ev.triggered)
            self.cond_obj[self.lab(ev)] = ev
            for e in evs:
                self._took_effect(e, f'{kind} e{self.lab(ev)} was built over it and counted it as processed')
        elif what == 'spawned':
            p, name = a
            self.rec.append(('spawned', self._tick(), (name, id(p)), self.env.now))
        elif what == 'started':
            p, name = a
            self.rec.append(('started', self._tick(), (name, id(p)), self.env.now))
        elif what == 'ended':
            p, name, ok, v = a
            self.ended.append((p, name, ok, v, self.env.now))
        elif what == 'probe':
            ev, cb = a
            self.keepcb.append(cb)      # keeps id(cb) unique for the whole run
            self.rec.append(('probe', self._tick(), id(cb), self.lab(ev)))
        elif what == 'probed':
            ev, cb = a
            self.rec.append(('probed', self._tick(), id(cb), self.lab(ev), self._cond_states(ev)))

    def _cond_states(self, ev):
        """(label, triggered?) of every condition built so far that has `ev` as a direct operand - read through the public
        attribute `triggered` at the moment a waiter of `ev` is invoked"""
        if ev is None:
            return []
        return [(lab, self.cond_obj[lab].triggered) for lab, (kind, ops, _, _) in self.conds.items()
                if lab in self.cond_obj and any(o is ev for o in ops)]

    def _took_effect(self, ev, how):
        """`ev` is seen as processed (callbacks is None) by the program.  If the program itself triggered it with succeed()/fail()
        and no kernel step has processed it - it is not the event whose turn it is right now either - its turn cannot have come:
        everything triggered earlier for this instant and still pending has been overtaken"""
        lab = self.lab(ev)
        t = self.trig_at.get(lab)
        if ev.callbacks is not None or t is None or lab in self.processed or t[3] != self.env.now:
            return
        if any(r['ev'] is ev for r in self.env.pending):
            return          # popped by the step that is running: its callbacks are being invoked right now
        ahead = [r for r in self.env.pending if r['seq'] < t[1] and r['time'] <= self.env.now and r['ev'].callbacks is not None
                 and r['prio'] <= int(NORMAL)]
        if ahead:
            self.overtakes.append((lab, t[2], t[3], how, [(r['typ'], self.lab(r['ev']), r['seq'], r['time']) for r in ahead[:4]], self.env.now))


def same_outcome(ev_ok, ev_val, got_ok, got):
    if ev_ok != got_ok:
        return False
    if ev_ok:
        return got is ev_val or got == ev_val
    return type(got) is type(ev_val) and got.args == ev_val.args


def externally_triggered(r):
    """labels of Process / Condition / request events that a program triggered by hand (outside the quantifier)"""
    by_label = {r.lab(e): e for e in r.keep}
    out = set()
    for rec in r.rec:
        if rec[0] == 'trigger' and type(by_label.get(rec[3])).__name__ not in ('Event',):
            out.add(rec[3])
    return out


def instrumented(case):
    r = OracleRunner(case)
    try:
        r.run()
    except BaseException:
        pass
    r.out_of_scope = False
    return r


def lost_waiters(r, waiting, ext):
    """processes still suspended at the end of the run on an event that was processed after they yielded it"""
    for name, y in waiting.items():
        _, yseq, _, lab, ynow, was_processed, ev = y
        p = r.processed.get(lab)
        if p is not None and not was_processed and p[0] > yseq and lab not in ext:
            return [{'what': f'process {name[0]} yielded event e{lab} at {ynow}; the event was processed at {p[1]} but the process was never '
                             f'resumed (a waiter registered at that moment was not invoked)', 'signature': 'c02-waiter-lost'}]
    return []


def registration_order(r, ext):
    """restates C02 "every callback and every process waiting on it at that moment is invoked …, in registration order": among
    the processes resumed and the probe callbacks invoked by ONE event, the order of invocation is the order of their current
    registrations (for a process: its latest yield of that event - an interrupt cancels the earlier registration)"""
    waiting, probes, invoked = {}, {}, {}
    for rec in r.rec:
        if rec[0] == 'yield':
            waiting[rec[2]] = rec
        elif rec[0] == 'resumed':
            y = waiting.pop(rec[2], None)
            if y is not None and not y[5] and not is_interrupt_delivery(rec, y):
                invoked.setdefault(y[3], []).append((y[1], f'process {rec[2][0]} (yielded it at {y[4]})'))
        elif rec[0] == 'probe':
            probes[rec[2]] = rec
        elif rec[0] == 'probed' and rec[2] in probes:
            invoked.setdefault(rec[3], []).append((probes[rec[2]][1], 'a probe callback'))
    for lab, lst in invoked.items():
        if lab in ext:
            continue
        for (sa, wa), (sb, wb) in zip(lst, lst[1:]):
            if sb < sa:
                return [{'what': f'event e{lab}: {wa} registered after {wb} but was invoked before it (waiters are invoked in '
                                 f'registration order)', 'signature': 'c02-registration-order'}]
    return []


def trigger_steps(r):
    """id(event) -> kernel step during which it was triggered (first schedule() call seen by the recording environment)"""
    out = {}
    for rec in [x for x, _ in r.env.popped] + r.env.pending:
        out.setdefault(id(rec['ev']), rec['step'])
    return out


def nested_conditions(r):
    """labels of conditions that are operands of other conditions: a parent that fires detaches their checks"""
    out = set()
    for c in r.cond_obj.values():
        out |= {r.lab(e) for e in nodes(c)}
    return out


def condition_registration_order(r, ext):
    """restates C02 "every callback and every process waiting on it at that moment is invoked exactly once, in registration
    order" for the case where one of the waiters of event E is a condition C built over E (`E | x`, all_of([... E ...])): C waits
    on E from its construction on.  What being invoked means for C is observable through the public `C.triggered`:
    * a process (or plain callback) that registered on E BEFORE C was built is invoked before C: when it runs, C - still
      undecided when E's turn came - cannot have been triggered yet;
    * one that registered AFTER C was built is invoked after C: if E decides C (E failed; C is an any_of; C is an all_of whose
      other operands had all been processed), C is already triggered when it runs.
    Stands down for conditions decided before E was processed, nested in other conditions, or triggered by hand."""
    tstep = trigger_steps(r)
    nested = nested_conditions(r)
    waiting, probes = {}, {}
    seen = []          # (registration tick, event label, who, condition states when invoked)
    for rec in r.rec:
        if rec[0] == 'yield':
            waiting[rec[2]] = rec
        elif rec[0] == 'resumed':
            y = waiting.pop(rec[2], None)
            if y is not None and not y[5] and not is_interrupt_delivery(rec, y):
                seen.append((y[1], y[3], f'process {rec[2][0]} (yielded e{y[3]} at {y[4]})', rec[6]))
        elif rec[0] == 'probe':
            probes[rec[2]] = rec
        elif rec[0] == 'probed' and rec[2] in probes:
            seen.append((probes[rec[2]][1], rec[3], f'a plain callback appended to e{rec[3]}', rec[4]))
    for s1, lab, who, states in seen:
        pe = r.pstep.get(lab)
        if lab in ext or pe is None or not lab:
            continue
        e_ok = r.processed[lab][2]
        for clab, trig in states:
            kind, ops, _, s2 = r.conds[clab]
            c = r.cond_obj[clab]
            if clab in ext or clab in nested or any(r.lab(o) in ext for o in ops):
                continue
            if any(r.cond_pre[clab][i] for i, o in enumerate(ops) if r.lab(o) == lab):
                continue          # E was already processed when C was built: C does not wait on it
            tc = tstep.get(id(c))
            if tc is not None and tc < pe:
                continue          # decided before E's turn came: inert
            if s2 > s1 and trig:
                return [{'what': f'{who} registered on event e{lab} before {kind} e{clab} (operands {[r.lab(o) for o in ops]}) was built over '
                                 f'it; when e{lab} was processed at {r.processed[lab][1]} the condition had already been notified (it was '
                                 f'triggered) by the time that earlier waiter was invoked: waiters are invoked in registration order',
                         'signature': 'c02-registration-order-condition'}]
            others = [o for o in ops if r.lab(o) != lab]
            decides = (not e_ok) or kind == 'anyof' or all(r.pstep.get(r.lab(o)) is not None and r.pstep[r.lab(o)] < pe for o in others)
            if s2 < s1 and decides and not trig:
                return [{'what': f'{kind} e{clab} (operands {[r.lab(o) for o in ops]}) was built over event e{lab} before {who} registered on it; '
                                 f'e{lab} decides the condition, yet when that later waiter was invoked at {r.processed[lab][1]} the condition '
                                 f'had not been notified (not triggered): waiters are invoked in registration order',
                         'signature': 'c02-registration-order-condition'}]
    return []


def unhandled_failures(r, ext, xs, late_only=False):
    """restates C02 "a failed event that no waiter handles makes run()/step() raise that exception at that instant instead of
    continuing silently".  Who handled a failure is decided from what the harness saw, not from the event's `defused` mark:
    a process that was waiting on the event received the exception, or a condition that had the event as operand was still
    undecided when the event was processed (C05: it then fails with that exception and the failure counts as handled).  A
    condition that had been triggered in an EARLIER kernel step is out of the game (DESIGN section 3, C05 "operands completing
    after the condition triggered change nothing").  Stands down whenever a condition that might have handled it exists."""
    tstep = trigger_steps(r)
    got = set()
    waiting = {}
    for rec in r.rec:
        if rec[0] == 'yield':
            waiting[rec[2]] = rec
        elif rec[0] == 'resumed':
            y = waiting.pop(rec[2], None)
            if y is not None and not rec[3] and not is_interrupt_delivery(rec, y):
                got.add(y[3])
    for ev in r.keep:
        lab = r.lab(ev)
        if ev.callbacks is not None or getattr(ev, '_ok', True) is not False or lab in ext or lab in got or lab not in r.pstep:
            continue
        if type(ev).__name__ not in ('Event', 'Process', 'AllOf', 'AnyOf', 'Condition'):
            continue
        pe = r.pstep[lab]
        inert = []
        for clab, (kind, ops, _, _) in r.conds.items():
            c = r.cond_obj.get(clab)
            idx = [i for i, o in enumerate(ops) if o is ev]
            if not idx or c is None:
                continue
            tc = tstep.get(id(c))
            if clab in ext or tc is None or tc >= pe:
                inert = None; break        # a condition that was (or may have been) undecided: it handles the failure
            inert.append((clab, kind, tc))
        if inert is None or (late_only and not inert):
            continue
        if not any(l.split(' ')[1] == type(ev._value).__name__ for l in xs):
            if late_only:
                clab, kind, tc = inert[0]
                return [{'what': f'operand e{lab} of {kind} e{clab} (operands {[r.lab(o) for o in r.conds[clab][1]]}) failed with {ev._value!r} and was '
                                 f'processed at {r.processed[lab][1]} in kernel step {pe}, after the condition had been triggered (kernel step {tc}, by '
                                 f'another operand): an operand completing after the condition triggered changes nothing - the condition does not '
                                 f'take care of this failure, no process was waiting on e{lab}, so the run must raise it; it went on'
                                 f'{" and the event is marked defused" if ev.defused else ""}', 'signature': 'c05-late-failure-swallowed'}]
            why = ('; '.join(f'{kind} e{clab} has it as operand but had already been triggered in kernel step {tc}, before e{lab} was processed '
                             f'in step {pe}' for clab, kind, tc in inert)) or 'no condition has it as operand'
            return [{'what': f'event e{lab} failed with {ev._value!r} and was processed at {r.processed[lab][1]}; no process was waiting on it '
                             f'({why}), so nobody handled the failure - and the run did not raise it (it went on'
                             f'{" and the event is marked defused" if ev.defused else ""})', 'signature': 'c02-failure-lost'}]
    return []


def termination_events(r, ext):
    """restates C02 "a process's own termination is such an event carrying its return value or its uncaught exception": once the
    generator of a process has returned / died, the Process event is triggered with exactly that outcome"""
    for p, name, ok, v, now in r.ended:
        if r.lab(p) in ext:
            continue
        show = lambda x: (f'the event object e{r.lab(x)} (a {type(x).__name__}' + (f', process {r.pnames.get(id(x))}' if id(x) in r.pnames else '') + ')') \
            if hasattr(x, 'callbacks') and hasattr(x, 'env') else repr(x)
        what = f'returned {show(v)}' if ok else f'died with {v!r}'
        if not p.triggered:
            return [{'what': f'the generator of process {name} {what} at {now} but its Process event was never triggered (is_alive is '
                             f'still {p.is_alive}): nobody waiting for that process can be resumed', 'signature': 'c02-termination-event'}]
        if not same_outcome(p.ok, p.value, ok, v):
            return [{'what': f'the generator of process {name} {what} at {now} but its Process event carries '
                             f'{"value" if p.ok else "exception"} {show(p.value)}', 'signature': 'c02-termination-event'}]
        # ... and the termination is an occurrence of that very instant: the Process event is processed (its waiters invoked) at
        # the instant at which the generator ended, whatever the returned value is (a Process / Event object is a value too)
        q = r.processed.get(r.lab(p))
        if q is not None and q[1] != now:
            return [{'what': f'the generator of process {name} {what} at {now} but its Process event was processed (its waiters were resumed) '
                             f'only at {q[1]}', 'signature': 'c02-termination-event'}]
    return []


def oracle_c02(case, lines, runner=None):
    """every waiter receives the awaited event's outcome exactly once, at the instant it is processed (or at once if it
    already was); second triggers are refused; an unhandled failure surfaces"""
    r = instrumented(case)
    if r.out_of_scope:
        return []
    fails = []
    waiting = {}
    ext = externally_triggered(r)
    if case.mode != 'step':
        # split plans: only the clause that no stop may lose a waiter (every process waiting on an event when it is
        # processed is invoked); the other clauses are judged on uninterrupted runs
        for rec in r.rec:
            if rec[0] == 'yield':
                waiting[rec[2]] = rec
            elif rec[0] == 'resumed':
                waiting.pop(rec[2], None)
        return lost_waiters(r, waiting, ext)
    for rec in r.rec:
        if rec[0] == 'yield':
            waiting[rec[2]] = rec
        elif rec[0] == 'resumed':
            _, seq, name, ok, v, now = rec[:6]
            y = waiting.pop(name, None)
            if y is None:
                fails.append({'what': f'process {name} was resumed twice for one yield', 'signature': 'c02-double-resume'}); break
            if (not ok) and type(v).__name__ == 'Interrupt':
                continue
            _, yseq, _, lab, ynow, was_processed, ev = y
            p = r.processed.get(lab)
            if p is None or lab in ext:
                continue
            eok, eval_ = p[2], p[3]
            if type(ev).__name__ in ('AllOf', 'AnyOf', 'Condition'):
                if eok and ok:
                    continue          # the value of a condition is the subject of C05
            if not same_outcome(eok, eval_ if type(eval_).__name__ != 'ConditionValue' else v, ok, v):
                fails.append({'what': f'process {name} waited for event e{lab} whose outcome is '
                                      f'{"ok " + repr(eval_) if eok else "fail " + repr(eval_)} but received '
                                      f'{"value" if ok else "exception"} {v!r}', 'signature': 'c02-wrong-outcome'}); break
            if was_processed and now != ynow:
                fails.append({'what': f'process {name} yielded the processed event e{lab} at {ynow} but continued at {now}', 'signature': 'c02-processed-not-immediate'}); break
            if not was_processed and p[1] != now:
                fails.append({'what': f'process {name} was resumed at {now} by event e{lab} processed at {p[1]}', 'signature': 'c02-resume-time'}); break
        elif rec[0] == 'trigger':
            _, seq, name, lab, was, raised = rec
            if was != raised:
                fails.append({'what': f'succeed/fail on e{lab} (already triggered: {was}) {"raised" if raised else "did not raise"} RuntimeError',
                              'signature': 'c02-trigger-once'}); break
    fails += lost_waiters(r, waiting, ext)
    fails += registration_order(r, ext)
    fails += condition_registration_order(r, ext)
    fails += termination_events(r, ext)
    # failures are never lost: a processed failed event is either defused or made the run raise its exception
    xs = [l for l in lines if l.startswith('X ')]
    failed_types = {type(ev._value).__name__ for ev in r.keep if getattr(ev, '_ok', True) is False}
    for l in xs:
        t = l.split(' ')[1]
        if t not in failed_types and not (t == 'TypeError' and ext):
            fails.append({'what': f'step() raised {t}, which is not the exception of any failed event of the program', 'signature': 'c02-kernel-raised'})
            break
    for ev in r.keep:
        if ev.callbacks is None and getattr(ev, '_ok', True) is False and not ev.defused and r.lab(ev) not in ext:
            if not any(l.split(' ')[1] == type(ev._value).__name__ for l in xs):
                fails.append({'what': f'event e{r.lab(ev)} failed with {ev._value!r}, nobody handled it, and the run did not raise it',
                              'signature': 'c02-failure-lost'}); break
    if not any(f['signature'] == 'c02-failure-lost' for f in fails):
        fails += unhandled_failures(r, ext, xs)
    return fails[:3]


def oracle_c04(case, lines, runner=None):
    """interrupts: refused iff the victim is dead or the caller itself; delivered once, at the issue instant, in issue order"""
    r = instrumented(case)
    if externally_triggered(r) or r.out_of_scope:
        return []
    fails = []
    issued = {}      # victim name -> list of (cause, now)
    got = {}
    waiting = {}
    owed = {}        # victim -> the accepted interrupt it must receive before anything else resumes it
    for rec in r.rec:
        if rec[0] == 'yield':
            waiting[rec[2]] = rec
        if rec[0] == 'resumed':
            # restates "receive Interrupt(cause) at its current yield at the current simulated time, before any ordinary event of that
            # instant": a suspended process whose awaited event is not already being processed is resumed next by the interrupt
            # (or by an interrupt issued earlier), never by something else first - an interrupt is urgent and due at once
            y = waiting.get(rec[2])
            o = None if (y is not None and y[5]) else owed.pop(rec[2], None)      # continuing after an already processed event is no resumption
            if o is not None and not is_interrupt_delivery(rec, y):
                fails.append({'what': f'process {rec[2][0]} was interrupted (cause {o[4]}) at {o[8]} while it was waiting, but the next thing it '
                                      f'received, at {rec[5]}, is {"the value" if rec[3] else "the exception"} {rec[4]!r} of the event it was waiting for, '
                                      f'not the Interrupt: an ordinary event overtook the interrupt', 'signature': 'c04-overtaken'}); break
        if rec[0] == 'resumed' and (not rec[3]) and type(rec[4]).__name__ == 'Interrupt':
            y = waiting.get(rec[2])
            if y is not None and getattr(y[6], '_ok', True) is False and getattr(rec[4], '__cause__', None) is y[6]._value:
                continue      # not an interrupt: the awaited event (a process that re-raised its Interrupt) failed with this
                              # exception - the kernel throws a copy whose __cause__ is the awaited event's own exception
        if rec[0] == 'interrupt':
            _, seq, by, victim, cause, alive, selfi, raised, now, busy = rec
            if not raised and not busy and not selfi:
                owed.setdefault(victim, rec)
            should = (not alive) or selfi
            if should != raised:
                fails.append({'what': f'interrupt() called at {now} by process {by} on process {victim[0]} (alive: {alive}, itself: {selfi}) '
                                      f'{"raised" if raised else "did not raise"} RuntimeError', 'signature': 'c04-refusal'}); break
            if not raised:
                issued.setdefault(victim, []).append((cause, now))
        elif rec[0] == 'resumed' and (not rec[3]) and type(rec[4]).__name__ == 'Interrupt' and not type(rec[4].cause).__name__ == 'Preempted':
            got.setdefault(rec[2], []).append((rec[4].cause, rec[5]))
    for victim, g in got.items():
        want = issued.get(victim, [])
        if g != want[:len(g)]:
            fails.append({'what': f'process {victim[0]} received interrupts {g}, issued (cause, instant) were {want}', 'signature': 'c04-delivery-order'})
            break
    return fails[:3]


def leaves(r, ev):
    if type(ev).__name__ in ('AllOf', 'AnyOf', 'Condition'):
        out = []
        for e in ev._events:
            out += leaves(r, e)
        return out
    return [ev]


def nodes(ev):
    """all operands of a condition at every nesting level (conditions and leaves)"""
    out = []
    if type(ev).__name__ in ('AllOf', 'AnyOf', 'Condition'):
        for e in ev._events:
            out.append(e)
            out += nodes(e)
    return out


def oracle_c05(case, lines, runner=None):
    """conditions: processed at the instant the predicate first holds; value = processed leaves in operand order"""
    r = instrumented(case)
    if r.out_of_scope:
        return []
    fails = []
    by_label = {r.lab(e): e for e in r.keep}
    ext = externally_triggered(r)
    nested = set()      # conditions that are operands of other conditions: a parent that fires detaches their checks
    for lab2 in r.conds:
        c2 = by_label.get(lab2)
        if c2 is not None:
            nested |= {r.lab(e) for e in nodes(c2)}
    for lab, (kind, ops, t_created, seq_created) in r.conds.items():
        c = by_label.get(lab)
        p = r.processed.get(lab)
        if c is None or lab in ext or any(r.lab(e) in ext for e in nodes(c)):
            continue
        if p is None:
            # never processed: then its predicate must never have held (and no operand failed) by the end of the run
            if not any(l.startswith('X ') for l in lines) and case.mode == 'step' and not ext and lab not in nested:
                qs = [r.processed.get(r.lab(e)) for e in ops]
                done = [q for q in qs if q is not None]
                holds = (len(done) == len(ops)) if kind == 'allof' else (len(done) > 0 or not ops)
                if holds or any(not q[2] for q in done):
                    fails.append({'what': f'{kind} e{lab} over operands {[r.lab(e) for e in ops]} (handed to the constructor as a '
                                          f'{r.cond_form.get(lab)}) never fired although {len(done)} of {len(ops)} operands were processed'
                                          + (' (an empty operand list triggers immediately)' if not ops else ''),
                                  'signature': 'c05-never-fired'}); break
            # "if an operand fails before the condition is met the condition fails with that operand's exception": the run was
            # cut short by an exception that is not the failure of any event of the program, while this still pending,
            # untriggered condition had an operand that was processed as a failure - forwarding the failure itself raised
            if case.mode == 'step' and not ext and lab not in nested and getattr(c, '_value', None) is not None and not c.triggered:
                xs = [l.split(' ')[1] for l in lines if l.startswith('X ')]
                failed_types = {type(ev._value).__name__ for ev in r.keep if getattr(ev, '_ok', True) is False}
                bad = [e for e in ops if r.processed.get(r.lab(e)) is not None and not r.processed[r.lab(e)][2]]
                if bad and xs and xs[-1] not in failed_types:
                    fails.append({'what': f'{kind} e{lab}: operand e{r.lab(bad[0])} failed with {type(bad[0]._value).__name__} before the condition was met; '
                                          f'the condition did not fail with that exception - the run raised {xs[-1]}, which no event of the program failed with',
                                  'signature': 'c05-failure-forwarding-raised'}); break
            continue
        pseq, pnow, pok, pval, pkeys = p
        # instants at which the operands were processed (operands processed before construction count from construction)
        times = []
        for e in ops:
            q = r.processed.get(r.lab(e))
            if q is None:
                times.append(None)
            else:
                times.append((max(q[1], t_created), q[2], e))
        done = [x for x in times if x is not None]
        fail_first = min([x[0] for x in done if not x[1]], default=None)
        if kind == 'allof':
            want = max([x[0] for x in done], default=t_created) if len(done) == len(ops) else None
        else:
            want = min([x[0] for x in done], default=t_created) if (done or not ops) else None
        if not ops:
            want = t_created
        # sequence keys: operands processed before construction are checked by the constructor in operand order
        keyed = []
        for i, e in enumerate(ops):
            q = r.processed.get(r.lab(e))
            if q is not None:
                keyed.append(((0, i) if r.cond_pre[lab][i] else (1, q[0]), q[2], e))
        if kind == 'allof':
            sat = max([k for k, _, _ in keyed], default=(0, -1)) if len(keyed) == len(ops) else None
        else:
            sat = min([k for k, _, _ in keyed], default=None) if ops else (0, -1)
        early = [(k, e) for k, okk, e in keyed if not okk and (sat is None or k <= sat)]
        if pok and early and not any(type(e).__name__ in ('AllOf', 'AnyOf', 'Condition') for e in ops):
            k, e = min(early, key=lambda t: t[0])
            fails.append({'what': f'{kind} e{lab} over operands {[r.lab(x) for x in ops]} succeeded although operand e{r.lab(e)} had failed '
                                  f'before the condition was met (the condition must fail with that exception)',
                          'signature': 'c05-failure-not-forwarded'}); break
        if pok:
            if want is None or pnow != want:
                fails.append({'what': f'{kind} e{lab} over operands {[r.lab(e) for e in ops]} was processed at {pnow}; its predicate first holds at {want}',
                              'signature': 'c05-trigger-instant'}); break
            lv = [r.lab(e) for e in leaves(r, c) if r.lab(e) in r.processed and r.processed[r.lab(e)][0] < pseq] if ops else []
            if pkeys is not None and pkeys != lv:
                fails.append({'what': f'{kind} e{lab}: value has keys {pkeys}, the leaf operands processed by then are {lv}', 'signature': 'c05-value'}); break
        else:
            if fail_first is None:
                fails.append({'what': f'{kind} e{lab} failed although no operand failed', 'signature': 'c05-spurious-fail'}); break
    fails += operand_failure_handled(r, by_label, ext, nested)
    if case.mode == 'step':
        # "operands completing after the condition triggered change nothing": an operand that FAILS after the condition was
        # triggered (in an earlier kernel step) - also in the same instant, before the condition itself is processed - is not
        # the condition's business any more: unless a process waiting on that operand receives the failure, the run raises it
        fails += unhandled_failures(r, ext, [l for l in lines if l.startswith('X ')], late_only=True)
    return fails[:3]


def operand_failure_handled(r, by_label, ext, nested):
    """restates C05 "if an operand fails before the condition is met the condition fails with that operand's exception (the
    operand's failure then counts as handled)", for the operands as the program gave them (a nested condition is ONE operand):
    an operand E of a condition C built before E was processed, that is processed as failed, must end up handled (`defused`),
    unless C was out of the game by then - met, or failed because another of its operands had failed before (DESIGN section 3:
    operands completing after the condition triggered change nothing), or detached by a parent condition that fired first."""
    trig_step = {}
    for rec in [x for x, _ in r.env.popped] + r.env.pending:
        trig_step.setdefault(id(rec['ev']), rec['step'])
    for lab, (kind, ops, t_created, seq_created) in r.conds.items():
        c = by_label.get(lab)
        built, pre = r.cond_at.get(lab, (None, True))
        if c is None or pre or lab in ext or lab in nested or any(r.lab(e) in ext for e in nodes(c)):
            continue
        tc = trig_step.get(id(c))
        for e in ops:
            le = r.lab(e)
            pe = r.pstep.get(le)
            if pe is None or pe <= built or r.processed[le][2] or e.defused:
                continue
            if tc is not None and tc < pe:
                # C was triggered before E was processed: fine if it was met, or failed on an operand that had failed by then
                if c.ok or any(r.pstep.get(r.lab(f)) is not None and r.pstep[r.lab(f)] <= tc and not r.processed[r.lab(f)][2] for f in ops):
                    continue
                why = (f'e{lab} itself had failed earlier (in kernel step {tc}) although none of its operands had failed by then')
            else:
                why = f'e{lab} had not been triggered when e{le} was processed (kernel step {pe})'
            return [{'what': f'operand e{le} of {kind} e{lab} (operands {[r.lab(x) for x in ops]}) failed with {r.processed[le][3]!r} at '
                             f'{r.processed[le][1]} before the condition was met, but its failure was not counted as handled (not defused: '
                             f'the run raises it); {why}', 'signature': 'c05-operand-failure-unhandled'}]
    return []


def oracle_until_failed(case, lines, runner=None):
    """run(until=event) must not return normally when that event failed and nobody handled the failure"""
    if runner is None:
        return []
    for n in runner.notes:
        if n[0] == 'until-event' and n[1] and n[2] is False and not n[4] and not n[6]:
            return [{'what': f'run(until=e{n[5]}) returned normally although e{n[5]} failed and no waiter handled the failure',
                     'signature': 'c02-until-failed-returned'}]
    return []


def oracle_until_event_return(case, lines, runner=None):
    """restates C03 "run(until=event) returns that event's value right after it is processed": when run(until=E) is entered
    with E not yet processed and returns normally, it returns right behind the kernel step that processed E - nothing that the
    waiters of E set going in that instant (the first statement of a process they started, the delivery of an interrupt they
    issued, the waiters of an event they triggered) has been observed by then.  Observations = what process bodies and probe
    callbacks see (the P and B lines of the trace); counted at the end of the kernel step that processed E and at the return.
    Stands down when E is not processed at the return (oracle_split reports that) and after an exception escaped from an earlier
    piece of the run (a stop left behind by the aborted piece may end this one: outside the statement)."""
    if case.mode != 'plan':
        return []
    r = instrumented(case)
    for lab, was_done, nobs, normal, now in r.until_returns:
        if was_done or not normal or lab not in r.lines_done or lab in externally_triggered(r):
            continue
        if nobs != r.lines_done[lab]:
            obs = [l for l in r.lines if l[0] in 'PB']
            extra = obs[r.lines_done[lab]:nobs]
            return [{'what': f'run(until=e{lab}) did not return right after e{lab} was processed (at {r.processed[lab][1]}): by the time it '
                             f'returned, {len(extra)} further observation(s) had already happened: {extra[:4]} (plan {case.plan})',
                     'signature': 'until-event-returns-late'}]
    return []


def oracle_pending_discarded(case, lines, runner=None):
    """restates C04 "interrupts still pending when the process ends are discarded without error": the only exception step() may
    let out is the exception of a failed event that nobody handled (C02) - the very object's type and arguments.  An exception
    of another kind coming out of step() after a process ended with accepted interrupts still undelivered means a pending
    interrupt was not discarded quietly.  (Judged on uninterrupted step-mode runs; programs that trigger Process / Condition
    objects by hand are outside the quantifier.)"""
    x = getattr(runner, 'raised', None)
    if case.mode != 'step' or x is None:
        return []
    r = instrumented(case)
    if externally_triggered(r) or r.out_of_scope:
        return []
    for ev in r.keep:
        v = getattr(ev, '_value', None)
        if getattr(ev, '_ok', True) is False and isinstance(v, BaseException) and type(v) is type(x) and v.args == x.args:
            return []          # the failure of an event of the program, re-raised by the kernel: C02's business
    # accepted interrupts and deliveries per victim, and how each victim ended
    issued, got, waiting = {}, {}, {}
    for rec in r.rec:
        if rec[0] == 'yield':
            waiting[rec[2]] = rec
        elif rec[0] == 'interrupt' and not rec[7]:
            issued.setdefault(rec[3], []).append((rec[4], rec[8]))
        elif rec[0] == 'resumed':
            y = waiting.pop(rec[2], None)
            if is_interrupt_delivery(rec, y) and type(rec[4].cause).__name__ != 'Preempted':
                got[rec[2]] = got.get(rec[2], 0) + 1
    for p, name, ok, v, now in r.ended:
        key = (name, id(p))
        left = issued.get(key, [])[got.get(key, 0):]
        if left:
            return [{'what': f'process {name} ended at {now} ({"returned " + repr(v) if ok else "raised " + repr(v)}) with {len(left)} accepted '
                             f'interrupt(s) still pending (cause, issued at: {left[:3]}); they must be discarded without error, but step() '
                             f'raised {x!r} at {r.env.now}', 'signature': 'c04-pending-interrupt-error'}]
    return [{'what': f'step() raised {x!r} at {r.env.now}, which is not the exception of any failed event of the program',
             'signature': 'c04-kernel-raised'}]


def escaped_user_exceptions(lines):
    """the X lines of a trace that are not refusals of the kernel (run(until<=now), run(until=event) out of events, step() on an
    empty schedule) nor a stale stop: exceptions of user code that reached the caller of run()/step()"""
    out = []
    for l in lines:
        if l.startswith('X '):
            w = l.split(' ')
            if w[1] in ('EmptySchedule', 'StopSimulation') or (w[1] in ('ValueError', 'RuntimeError') and w[2] in ('s*', '')):
                continue
            out.append(l)
    return out


def oracle_driven_run_order(case, lines, runner=None):
    """restates, for a run driven piecewise (C03: "splitting one run into any sequence of run(until=number), run(until=event) and
    step() calls ... no process is lost, duplicated or reordered by a stop"), what C01 says of every run: "whatever is scheduled
    for time t takes effect at exactly t; simulated time never decreases; among occurrences due at the same instant ... urgent
    first ... in the order in which they were triggered" - judged on the recording environment (public schedule()/step() only)
    while the plan is executed, in particular on plans that CONTINUE after a piece was cut short by an exception of user code
    which the caller caught (what an aborted piece leaves behind must not disturb the order of what follows).  Says nothing about
    WHERE the later pieces stop (DESIGN section 3: outside the split statement after an exception)."""
    if case.mode != 'plan':
        return []
    ri = instrumented(case)
    if externally_triggered(ri):
        return []
    r, env = run_recorded(case)
    if not env.problems:
        return []
    xs = escaped_user_exceptions(r.lines)
    p = env.problems[0]
    kind = 'order' if p.startswith('processed') else 'due-time' if 'took effect at' in p else 'time-decreased'
    if xs:
        w = xs[0].split(' ')
        return [{'what': f'plan {case.plan}: a piece of the run was left by {w[1]} (at {kscript_time(w[-1])}), the caller caught it and went on; in the '
                         f'continued run {p} ({len(env.problems)} such observation(s); {len(env.pending)} occurrences were pending at the end)',
                 'signature': f'continued-after-exception-{kind}'}]
    return [{'what': f'plan {case.plan}: in the piecewise run {p}', 'signature': f'split-{kind}'}]


def kscript_time(tok):
    from vlib.util import unbits
    try:
        return unbits(int(tok.lstrip('@')))
    except Exception:
        return tok
