"""A Port whose configuration is changed while it runs, and a Port whose next hop calls back - ORACLE-ONLY workloads (no Lean
replay: the FifoServer LTS takes one fixed configuration and an `out` that only records).  Used by C09 (serialisation time, tail-drop
rule, advertised occupancy) and by C08 (conservation); counted apart from the replayed cases.

(A) RECONFIGURATION WHILE RUNNING.  A process of the harness assigns `port.rate` / `port.qlimit` at scripted instants.  Reading (DESIGN
    section 3): a clause is judged against the value the attribute has at the instant the clause refers to - the serialisation time
    of a packet: the rate when its transmission starts (= max(its arrival, the departure of the packet before it)); admission: the
    limit at the arrival.  A clause instance in the very instant of a change is not judged.
(B) RE-ENTRANT NEXT HOP.  The element behind the port - a loop in the topology, a closed-loop / window-based source that offers its
    next packet the moment one is delivered - calls `port.put()` synchronously from inside its own `put()`, with the packet it was
    handed or with a fresh one.  At that instant the departed packet is no longer held (its transmission has ended, it has been
    handed on): "refused iff the bytes held (waiting plus in transmission) plus its size would exceed qlimit" and "the advertised byte
    occupancy always equals the bytes actually held" are judged against an account kept at the port's boundary (sizes accepted by
    `put` minus sizes handed to `out.put`), as in harness/c09.py.
"""
import collections, json, random
from onl.sim import Environment
from onl.packet import Packet
from onl.netdev import Port
from vlib.util import quiet
from harness.fifo import phase_of

INF = float('inf')


def fail(what, sig):
    return {'what': what, 'signature': sig}


def gen_case(rng, cid, features):
    """`features`: list out of 'rate', 'qlimit', 'out', 'reflect'"""
    rate = rng.choice([8.0, 8.0, 64.0, 100.0, 8, 1e6])
    sizes = [1, 2, 3, 5, 10] if rate in (8.0, 8) else [10, 50, 60, 100, 200, 1500]
    mode = rng.choice(['bytes', 'bytes', 'bytes', 'packets', 'none'])
    c = {'cid': str(cid), 'kind': 'dyn:port', 'rate': rate, 'mode': mode, 'eid': rng.choice(['p1', 'p1', ''])}
    unit = rng.choice(sizes)
    if mode == 'bytes':
        # buffers that bursts fill exactly (a multiple of one packet size) or nearly
        c['qlimit'] = unit * rng.choice([1, 2, 3, 4]) + rng.choice([0, 0, 0, 1, sizes[0]])
    elif mode == 'packets':
        c['qlimit'] = rng.choice([1, 2, 3, 5, 8])
    tx = lambda z: z * 8.0 / rate
    c['sources'] = []
    for _ in range(rng.randint(1, 2)):
        script = []
        for _ in range(rng.randint(1, 7)):
            d = rng.choice([0, 0, 1, 2, 5, 0.5, 3]) * tx(unit)
            same = rng.random() < 0.6
            script.append((d, [(rng.randrange(3), unit if same else rng.choice(sizes)) for _ in range(rng.choice([1, 2, 3, 4, 5]))]))
        c['sources'].append(script)
    use = {rng.choice(sorted(features))}           # (`features` is a list: a feature named twice weighs twice)
    for f in sorted(set(features)):
        if rng.random() < 0.3:
            use.add(f)
    total = sum(tx(z) for s in c['sources'] for _, b in s for _, z in b)
    c['reconf'] = []

    def instant():
        return (rng.randint(0, max(1, int(min(total, 30 * tx(unit)) / tx(unit)))) + rng.choice([0.3, 0.7, 0.45])) * tx(unit)
    if 'rate' in use:
        for _ in range(rng.choice([1, 1, 2])):
            c['reconf'].append({'at': instant(), 'attr': 'rate', 'value': rate * rng.choice([2, 0.5, 4, 0.25, 3])})
    if 'qlimit' in use and mode != 'none':
        for _ in range(rng.choice([1, 1, 2])):
            q = c['qlimit']
            new = max(0, q + rng.choice([-2, -1, 1, 2]) * (unit if mode == 'bytes' else 1)) if rng.random() < 0.8 else rng.choice([q * 2, q // 2])
            c['reconf'].append({'at': instant(), 'attr': 'qlimit', 'value': new})
    if 'out' in use:
        for k in range(rng.choice([1, 1, 2])):
            c['reconf'].append({'at': instant(), 'attr': 'out', 'value': k + 1})
    c['reconf'].sort(key=lambda r: r['at'])
    c['down'] = None
    if 'reflect' in use:
        # `size`: the packet handed back is the one delivered / a fresh one of the same size (it fits exactly where the departed one
        # was) / a fresh one of another size
        c['down'] = {'type': 'reflect', 'laps': rng.choice([1, 2, 3, 5]), 'every': rng.choice([1, 1, 2]),
                     'what': rng.choice(['same', 'fresh-same-size', 'fresh-same-size', 'fresh-other']), 'other': rng.choice(sizes)}
    return c


class PortRun:
    def __init__(self, c, max_steps=40000):
        self.c = c
        self.env = env = Environment()
        q = None if c['mode'] == 'none' else c['qlimit']
        self.port = port = Port(env, c['rate'], q, c['mode'] == 'bytes', c['eid'])
        self.puts = []          # dicts: t, id, size, held (bytes before), n (packets held before), refused, depth, adv (port.byte_size before)
        self.acc, self.deps = [], []      # accepted: (t, entry); departures: (t, entry)
        self.inside = {}
        self.held, self.nheld = 0, 0
        self.bad, self.stats = [], collections.Counter()
        self.depth, self.nid, self.laps = 0, [0], {}
        self.raised = None
        run = self
        orig_put = port.put

        def put(p):
            rec = {'t': env.now, 'id': p.packet_id, 'size': p.size, 'held': run.held, 'n': run.nheld, 'depth': run.depth, 'adv': port.byte_size, 'p': p}
            # packets waiting to start transmission by the harness's own account (as in harness/c09.py): what was accepted and not taken by the port
            # process when this kernel step began, plus what was accepted earlier in this step - for puts made by a source activation (depth 0);
            # a put from inside the next hop's put() happens in a step of the port process itself: there the boundary account stays ambiguous
            rec['nwait'] = run.wait0 + run.acc_step if run.depth == 0 and run.in_src_step else None
            d0 = port.packets_dropped
            with quiet():
                orig_put(p)
            rec['refused'] = port.packets_dropped > d0
            run.puts.append(rec)
            run.stats['puts'] += 1
            if run.depth:
                run.stats['re-entrant puts (from inside out.put)'] += 1
                if c['mode'] == 'bytes' and rec['held'] + rec['size'] <= port.qlimit < rec['held'] + rec['size'] + run.last_dep_size:
                    run.stats['re-entrant puts that fit only because the delivered packet has left'] += 1
            if not rec['refused']:
                run.inside[id(p)] = rec
                run.held += p.size; run.nheld += 1
                run.acc_step += 1
                run.acc.append((env.now, rec))

        class Down:
            def __init__(self, k):
                self.k = k             # which of the devices `out` was pointed at in turn

            def put(self, p):
                rec = run.inside.pop(id(p), None)
                if rec is None:
                    run.bad.append((env.now, p.packet_id))
                    return
                rec['out'] = self.k
                run.in_src_step = False            # the port process is running in this kernel step
                run.held -= rec['size']; run.nheld -= 1
                run.last_dep_size = rec['size']
                run.deps.append((env.now, rec))
                d = c.get('down')
                if not d:
                    return
                root = run.laps.setdefault(id(p), [0, len(run.laps)])
                if root[1] % d['every'] == 0 and root[0] < d['laps']:
                    root[0] += 1
                    qq = p
                    if d['what'] != 'same':
                        run.nid[0] += 1
                        qq = Packet(env.now, rec['size'] if d['what'] == 'fresh-same-size' else d['other'], 100000 + run.nid[0], src='next-hop', flow_id=p.flow_id)
                        run.laps[id(qq)] = root
                    run.depth += 1
                    try:
                        port.put(qq)
                    finally:
                        run.depth -= 1

        self.last_dep_size = 0
        self.wait0, self.acc_step, self.in_src_step = 0, 0, True
        self.downs = [Down(k) for k in range(1 + sum(1 for r in c.get('reconf') or [] if r['attr'] == 'out'))]
        port.put, port.out = put, self.downs[0]

        def source(script):
            for d, burst in script:
                yield env.timeout(d)
                for f, z in burst:
                    run.nid[0] += 1
                    port.put(Packet(env.now, z, run.nid[0], src='src', flow_id=f))

        def operator():
            t0 = 0.0
            for r in c.get('reconf') or []:
                yield env.timeout(r['at'] - t0)
                t0 = r['at']
                setattr(port, r['attr'], run.downs[r['value']] if r['attr'] == 'out' else r['value'])
                run.stats['changes applied: ' + r['attr']] += 1

        for script in c['sources']:
            env.process(source(script))
        if c.get('reconf'):
            env.process(operator())
        steps = 0
        try:
            while env.peek() < INF and steps < max_steps:
                steps += 1
                holds = phase_of(port.action) in ('H', 'T')
                self.wait0, self.acc_step = self.nheld - (1 if holds else 0), 0
                self.in_src_step = True
                with quiet():
                    env.step()
        except Exception as x:      # noqa
            self.raised = f'{type(x).__name__}: {x}'
        self.exhausted = steps >= max_steps
        self.end = env.now

    def in_force(self, attr, t):
        c = self.c
        val = (c['rate'] if attr == 'rate' else 0 if attr == 'out' else (None if c['mode'] == 'none' else c['qlimit']), 0.0)
        for r in c.get('reconf') or []:
            if r['attr'] != attr:
                continue
            if r['at'] == t:
                return None
            if r['at'] < t:
                val = (r['value'], r['at'])
        return val

    def describe(self):
        c = self.c
        out = [f'Port rate {c["rate"]:g}, ' + ('no limit' if c['mode'] == 'none' else f'qlimit {c["qlimit"]} {c["mode"]}')]
        if c.get('reconf'):
            out.append('changes while running: ' + '; '.join(f't={r["at"]:g} {r["attr"]} ' + (f'-> device #{r["value"]}' if r['attr'] == 'out' else f'= {r["value"]:g}') for r in c['reconf']))
        d = c.get('down')
        if d:
            what = {'same': 'the packet it was handed', 'fresh-same-size': 'a fresh packet of the same size', 'fresh-other': f'a fresh packet of {d["other"]} bytes'}[d['what']]
            out.append(f'next hop offers {what} to the port again from inside its own put() (up to {d["laps"]} times, every {d["every"]}. packet)')
        return '; '.join(out)


def o_conserve(run):
    """C08: forwarded, discarded by the documented rule (counted), or still held; nothing duplicated or invented; FIFO; nothing
    held when the simulation has run out of events"""
    if run.raised:
        return [fail(f'port: the run raised {run.raised} ({run.describe()})', 'dyn-raised')]
    if run.exhausted:
        return [fail(f'port: the simulation did not come to rest within the step budget ({run.describe()})', 'dyn-spin')]
    fails = []
    if run.bad:
        fails.append(fail(f'port: packet {run.bad[0][1]} was handed on at t={run.bad[0][0]} although the port did not hold it ({run.describe()})', 'dyn-duplicate-or-invented'))
    if run.inside:
        es = list(run.inside.values())
        fails.append(fail(f'port: {len(run.acc)} packets accepted, {len(run.deps)} handed on; {len(es)} still held when the simulation ran out of events at '
                          f't={run.end} (ids {[e["id"] for e in es][:8]}); byte_size = {run.port.byte_size} ({run.describe()})', 'dyn-held-for-ever'))
    if [id(e) for _, e in run.deps] != [id(e) for _, e in run.acc][:len(run.deps)]:
        fails.append(fail(f'port: packets left in a different order than they were accepted ({run.describe()})', 'dyn-flow-order'))
    p = run.port
    if p.packets_received != len(run.puts) or p.packets_dropped != sum(1 for r in run.puts if r['refused']):
        fails.append(fail(f'port: packets_received = {p.packets_received}, packets_dropped = {p.packets_dropped} after {len(run.puts)} puts of which '
                          f'{sum(1 for r in run.puts if r["refused"])} were refused ({run.describe()})', 'dyn-port-counters'))
    for t, e in run.deps:          # "forwarded downstream": to the device `out` names at the instant of the hand-over
        o = run.in_force('out', t)
        if o is not None:
            if o[1] > 0:
                run.stats['departures after `out` was re-pointed'] += 1
            if e.get('out') != o[0]:
                fails.append(fail(f'port: packet {e["id"]} was handed on at t={t} to device #{e.get("out")}; `out` names device #{o[0]}'
                                  f'{" since t=%g (re-pointed while the port was running)" % o[1] if o[1] > 0 else ""} ({run.describe()})', 'dyn-wrong-next-hop'))
                break
    return fails + o_rule(run)


def o_rule(run):
    """C09 tail-drop clauses with the limit in force at the arrival: byte limit - refused iff bytes held + size > qlimit; packet
    limit - refused iff qlimit-1 packets are already waiting to start transmission (the boundary account cannot see whether the head
    packet has started, so with n packets held a refusal needs n >= qlimit-1 and an admission n <= qlimit-1); never when qlimit is None"""
    if run.raised or run.exhausted:
        return []
    c = run.c
    for r in run.puts:
        ql = run.in_force('qlimit', r['t'])
        if ql is None:
            continue
        q, since = ql
        run.stats['admissions judged against the limit in force'] += 1
        if since > 0:
            run.stats['admissions after a change of `qlimit`'] += 1
        inner = ' (offered by the next hop from inside its own put(), right after the port handed it a packet)' if r['depth'] else ''
        lim = f'{q} (assigned at t={since:g} while the port was running; {c.get("qlimit")} at construction)' if since > 0 else f'{q}'
        if q is None:
            bad = r['refused']
            why = 'no limit'
        elif c['mode'] == 'bytes':
            bad = r['refused'] != (r['held'] + r['size'] > q)
            why = f'byte limit {lim}: {r["held"]} bytes held (waiting plus in transmission) + {r["size"]} {">" if r["held"] + r["size"] > q else "<="} {q}'
        elif r.get('nwait') is not None:
            run.stats['packet-limit admissions judged against the harness account of waiting packets'] += 1
            bad = r['refused'] != (r['nwait'] >= q - 1)
            why = (f'packet limit {lim}: {r["nwait"]} packets waiting to start transmission (accepted and not yet taken by the port process, by the harness\'s own account: '
                   f'a packet accepted earlier in the same burst has not started)')
        else:
            bad = (r['n'] < q - 1) if r['refused'] else (r['n'] > q - 1)
            why = f'packet limit {lim}: {r["n"]} packets held (waiting or in transmission)'
        if bad:
            return [fail(f'port: packet {r["id"]} of {r["size"]} bytes arrived at t={r["t"]!r}{inner}; {why}: it was {"refused" if r["refused"] else "admitted"} '
                         f'({run.describe()})', 'dyn-port-drop-rule')]
    return []


def o_occupancy(run):
    """C09: the advertised byte occupancy (`byte_size`) equals the bytes actually held - read at every arrival, also at those that
    come from inside the next hop's put(): the packet that has just been handed on is no longer held"""
    if run.raised or run.exhausted:
        return []
    for r in run.puts:
        run.stats['occupancy readings'] += 1
        if r['adv'] != r['held']:
            inner = ' - offered by the next hop from inside its own put(), right after the port handed it a packet' if r['depth'] else ''
            return [fail(f'port: at t={r["t"]!r}, when packet {r["id"]} arrived{inner}, byte_size advertised {r["adv"]} bytes; {r["held"]} bytes were held '
                         f'(accepted and not yet handed on) ({run.describe()})', 'dyn-port-occupancy')]
    if run.port.byte_size != run.held:
        return [fail(f'port: byte_size = {run.port.byte_size} at the end of the run; {run.held} bytes are held ({run.describe()})', 'dyn-port-occupancy')]
    return []


def o_service(run):
    """C09: the k-th accepted packet leaves at max(its arrival, departure of packet k-1) + 8*size/rate - the rate the port has at
    that start of transmission (at once with rate 0)"""
    if run.raised or run.exhausted:
        return []
    prev = None
    for k, (td, e) in enumerate(run.deps):
        if k >= len(run.acc) or run.acc[k][1] is not e:
            return []                       # order: reported by o_conserve
        ta = run.acc[k][0]
        start = ta if prev is None or ta > prev else prev
        r = run.in_force('rate', start)
        prev = td
        if r is None:
            continue
        run.stats['departures timed against the rate in force at the start of transmission'] += 1
        if r[1] > 0:
            run.stats['transmissions started after a change of `rate`'] += 1
        want = start + e['size'] * 8 / r[0] if r[0] > 0 else start
        if td != want:
            since = f' (assigned at t={r[1]:g} while the port was running; {run.c["rate"]:g} at construction)' if r[1] > 0 else ''
            return [fail(f'port: packet {e["id"]} (size {e["size"]}, arrived {ta!r}) started transmission at max(arrival, previous departure) = {start!r} with rate '
                         f'{r[0]:g}{since} and left at {td!r}; 8*size/rate later is {want!r} ({run.describe()})', 'dyn-port-departure-time')]
    return []


ORACLES = {'conserve': o_conserve, 'rule': o_rule, 'occupancy': o_occupancy, 'service': o_service}


def cases_from_replay(path):
    j = json.load(open(path))
    cs = [j['case']] if j.get('case') else [d['case'] for d in j.get('broken_correspondence', []) if d.get('case')]
    return [c for c in cs if isinstance(c, dict) and c.get('kind') == 'dyn:port']


def run_family(ctx, prop, features, oracles, n_quick, n_thorough):
    rng = random.Random(f'{prop}-dynport-{ctx.seed}')
    cases = cases_from_replay(ctx.replay) if ctx.replay else [gen_case(rng, f'dynport{i}', features) for i in range(n_quick if ctx.quick else n_thorough)]
    orc, hist, nontriv, samples = [], collections.Counter(), 0, []
    for c in cases:
        r = PortRun(c)
        fails = []
        for o in oracles:
            fails += ORACLES[o](r)
        hist.update(r.stats)
        hist['mode:' + c['mode']] += 1
        hist['refusals'] += sum(1 for x in r.puts if x['refused'])
        if r.stats['re-entrant puts (from inside out.put)'] or r.stats['transmissions started after a change of `rate`'] or r.stats['admissions after a change of `qlimit`']:
            nontriv += 1
            if not samples:
                samples.append(c)
        seen = set()
        for f in fails:
            if f['signature'] in seen:
                continue
            seen.add(f['signature'])
            f['case'] = c
            f['trace'] = [f'put t={x["t"]!r} packet {x["id"]} size {x["size"]} held {x["held"]} advertised {x["adv"]} {"refused" if x["refused"] else "accepted"}'
                          + (' (re-entrant)' if x['depth'] else '') for x in r.puts[:200]] + [f'dep t={t!r} packet {e["id"]}' for t, e in r.deps[:200]]
            orc.append(f)
    cov = {'evaluations': len(cases), 'distinct_nontrivial': nontriv, 'oracle_only': True,
           'rule': 'ORACLE-ONLY (outside the Lean replay): Ports whose `rate` / `qlimit` are reassigned by another process while they run, and Ports whose next hop '
                   'offers a packet to the port again from inside its own put(); clauses judged with the value in force at the instant they refer to and against '
                   'an account kept at the port\'s boundary; non-trivial = a re-entrant put, or a transmission / admission after a change',
           'samples': samples, 'operation_histogram': dict(sorted(hist.items()))}
    return {'coverage': cov, 'disagreements': [], 'oracle_failures': orc}
