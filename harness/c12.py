"""C12 - schedulers are work-conserving, non-preemptive, rate-exact and per-flow FIFO (all six schedulers + Monitor).

The multi-queue family (SP, RR, WRR, DRR) is replayed through the MultiQueueServer LTS, the stamp family (WFQ,
VirtualClock) through the StampServer LTS; each family brings its own direct oracles.  A third, oracle-only family
(harness/c12_frac.py) restates the counter / Monitor clause on packet sizes that are not whole numbers, for all six."""
from harness import c12_mq, c12_stamp, c12_frac, dynsched

ASSUMPTIONS = sorted(set(getattr(c12_mq, 'ASSUMPTIONS', []) + getattr(c12_stamp, 'ASSUMPTIONS', []) + c12_frac.ASSUMPTIONS))
ASSUMPTIONS.append('reconfiguration while running / re-entrant next hop (oracle-only family, harness/dynsched.py, all six schedulers): `rate` is reassigned by another '
                   'process between packets - "for exactly 8*size/rate" is read with the rate the scheduler has when the transmission starts (a transmission that '
                   'starts in the very instant of a change is not judged); the next hop hands packets straight back to put() from inside its own put(), or rewrites '
                   'flow_id / size of the packet it was handed - "waiting or in transmission" ends when the packet is handed to out.put(). Kept away from (findings on '
                   'the pinned tree, see dynsched.EXCLUDED): WFQ with a re-labelling next hop, DRR with a re-sizing next hop')
TRUSTED_EXTRA = sorted(set(getattr(c12_mq, 'TRUSTED_EXTRA', []) + getattr(c12_stamp, 'TRUSTED_EXTRA', []))) + [
    'py2lean/elem.py + elements.py (typed AST-subset translator): the argument of the one `yield self.env.timeout(...)` of Scheduler.send_packet; '
    'the bridge theorems C12.send_delay_generated_eq_model / mq_send_delay_generated_eq_model tie it to the txTime of the two scheduler LTSs']
BRIDGES = ['C12.send_delay_generated_eq_model', 'C12.mq_send_delay_generated_eq_model']
HAND_MODELLED = ['Scheduler.send_packet (control flow, per-flow counters)', 'the `run` loops of the six schedulers', 'Monitor']
_PREP = {}


def prepare(ctx):
    """regenerate lean/OnlVerif/Generated/SchedTx.lean (the transmission delay of `Scheduler.send_packet`: "transmits ... for exactly
    8*size/rate" is this property's clause) from the source under $ONL_REPO; a translator failure or a bridge theorem that no
    longer compiles is a broken obligation"""
    from py2lean import translate, elements
    _PREP['translated'] = elements.TRANSLATED['SchedTx']
    _PREP['rewritten'] = translate.regenerate_all(only=('SchedTx',))
    _PREP['diff_vs_pinned'] = translate.diff_vs_pinned('SchedTx')



_CTX = []


def _family(k):
    return (c12_mq.run_family, c12_stamp.run_family)[k](_CTX[0])


def run(ctx):
    # the two replayed families are independent: run them side by side (forked workers inherit ctx), the third one here
    import concurrent.futures, multiprocessing
    _CTX[:] = [ctx]
    with concurrent.futures.ProcessPoolExecutor(2, mp_context=multiprocessing.get_context('fork')) as pool:
        ra, rb = pool.submit(_family, 0), pool.submit(_family, 1)
        f = c12_frac.run_family(ctx)        # oracle-only: counters and Monitor samples on non-integer packet sizes (outside the Lean replay)
        # oracle-only: the rate reassigned while the scheduler runs (rate-exact with the rate at the start of the transmission), next hops that
        # call back into put() or rewrite the packet (one at a time, never idle with a backlog, exactly once, FIFO, counters)
        g = dynsched.run_family(ctx, 'C12', dynsched.KINDS, ['rate', 'rate', 'reflect', 'relabel', 'resize'], ['service', 'conserve'], 360, 7200)
        try:
            a, b = ra.result(), rb.result()
        except concurrent.futures.process.BrokenProcessPool:       # a worker died (killed by the OS for memory): run the families here
            a, b = _family(0), _family(1)
    cov = {}
    ca, cb = a.get('coverage', {}), b.get('coverage', {})
    for k in ('evaluations', 'distinct_nontrivial', 'traces_validated_against_impl'):
        cov[k] = int(ca.get(k, 0)) + int(cb.get(k, 0))
    cov['rule'] = 'multi-queue family: ' + str(ca.get('rule', '')) + ' | stamp family: ' + str(cb.get('rule', ''))
    cov['samples'] = list(ca.get('samples', []))[:1] + list(cb.get('samples', []))[:1]
    cov['multi_queue_family'] = {k: v for k, v in ca.items() if k not in ('samples',)}
    cov['stamp_family'] = {k: v for k, v in cb.items() if k not in ('samples',)}
    cov.update({'translated': _PREP.get('translated', []), 'generated_files_rewritten': _PREP.get('rewritten', []),
                'generated_diff_vs_pinned': _PREP.get('diff_vs_pinned', []), 'bridge_theorems': BRIDGES, 'hand_modelled': HAND_MODELLED})
    cov['fractional_size_family_oracle_only'] = f.get('coverage', {})      # counted apart: not part of `evaluations` / the correspondence
    cov['reconfigured_and_reentrant_family_oracle_only'] = g.get('coverage', {})      # counted apart as well
    return {'coverage': cov,
            'disagreements': a.get('disagreements', []) + b.get('disagreements', []),
            'oracle_failures': a.get('oracle_failures', []) + b.get('oracle_failures', []) + f.get('oracle_failures', []) + g.get('oracle_failures', [])}
