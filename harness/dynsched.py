"""Schedulers whose configuration is changed while they run, and schedulers whose next hop calls back - ORACLE-ONLY workloads
(no Lean replay: the scheduler LTSs take one fixed configuration and an `out` that only records) for all six schedulers.
Used by C08 (conservation), C12 (rate-exact, one at a time, work-conserving, counters), C13 (strict priority) and C15 (RR / WRR
visiting order), each of which picks its oracles from this module and counts these cases apart from its replayed ones.

(A) RECONFIGURATION WHILE RUNNING.  A process of the harness wakes at scripted instants and assigns a public configuration
    attribute: `rate` (all six), `out` (re-pointed to another recording device), `priorities` of SP (re-bound to a new list, or edited in place; the list format is the one the
    constructor builds: (flow id, priority) pairs, most urgent first), `weights` of WRR (values of the dict edited in place).
    Reading (DESIGN section 3): every clause is judged against the value the attribute has at the instant the clause refers to -
    the duration of a transmission: the rate when the transmission starts; strict priority: the table in force at the start of
    service; the allowance of a WRR visit: the weight in force when the visit begins; "forwarded downstream": to the device `out` names
    when the transmission ends.  The harness knows its own schedule; a
    clause instance that falls into the very instant of a change is not judged (either value may have been read).
(B) RE-ENTRANT / MUTATING NEXT HOP.  The element behind the scheduler, synchronously inside its own put():
      reflect - hands the packet (the same object: a ring; or a fresh packet of the same flow: a closed-loop source or a responder)
                straight back to the scheduler's put(), a bounded number of times;
      relabel - rewrites `packet.flow_id` (tunnel ingress, class re-marking), to an id unknown to the scheduler or to another
                configured flow;
      resize  - rewrites `packet.size` (encapsulation).
    "Waiting or in transmission" ends, as everywhere in these checks (harness/c12_frac.py), when the packet is handed to `out.put()`.

Everything is read through the public API: `put`, `out`, `send_packet` (the documented hook "yield env.process(self.send_packet(packet))":
the moment the loop calls it is the start of service), `size()`, `byte_size()`, `all_flows()`, `total_packets`, the attributes named above.
"""
import collections, json, random, signal
from onl.sim import Environment
from onl.packet import Packet
from onl.scheduler import SP, WFQ, DRR, VC
from onl.scheduler.rr import RR
from onl.scheduler.wrr import WRR
from vlib.util import quiet

INF = float('inf')
KINDS = ['sp', 'rr', 'wrr', 'drr', 'wfq', 'vc']

# Findings on the unchanged library that these workloads exposed (reported, not repaired; the generator keeps away from exactly
# these combinations so that the checks stay silent on the pinned tree - see the report of the round-6 element hardener):
#  * WFQ.run reads `packet.flow_id` AFTER `send_packet` (i.e. after `out.put`): a next hop that re-labels the packet makes WFQ book the
#    departure on the wrong class (KeyError out of env.run() when the new id is not configured; wrong active set / virtual time else).
#  * DRR.run subtracts `packet.size` from the class's credit AFTER `send_packet`: a next hop that rewrites the size makes DRR charge
#    the rewritten size instead of the size it transmitted.
EXCLUDED = {('wfq', 'relabel'), ('drr', 'resize')}


def fail(what, sig):
    return {'what': what, 'signature': sig}


# ---- generator ------------------------------------------------------------------------------------------------------------------

def sorted_table(table):
    """the list SP.__init__ builds from a {flow: priority} dict"""
    return sorted([tuple(e) for e in table], key=lambda it: it[1], reverse=True)


def gen_case(rng, cid, kind, features):
    """`features`: list of the workload features this case may draw from - out of
    'rate', 'out', 'priorities', 'weights', 'reflect', 'relabel', 'resize' (at least one is used)"""
    nfl = rng.randint(2, 5)
    flows = rng.sample(range(10), nfl)
    big = kind == 'drr'
    rate = rng.choice([8000.0, 8000.0, 12000.0, 1e6]) if big else rng.choice([8.0, 8.0, 64.0, 100.0, 8])
    sizes = rng.choice([[500, 1000, 1500, 2000], [100, 1500, 1501, 3000]]) if big else rng.choice([[1, 2, 3, 5], [1, 1, 2], [1, 2, 3, 5, 10]])
    c = {'cid': str(cid), 'kind': 'dyn:' + kind, 'rate': rate, 'flows': flows}
    if kind == 'sp':
        c['table'] = [[f, rng.randint(1, rng.choice([2, 3, 5, 9]))] for f in flows]
    elif kind == 'vc':
        c['table'] = [[f, rng.choice([0.125, 0.5, 1.0, 2.0, 0.25])] for f in flows]
    elif kind != 'rr':
        c['table'] = [[f, rng.randint(1, 4)] for f in flows]
    tx = lambda z: z * 8.0 / rate
    unit = tx(sizes[0])
    # workload: a front-loaded backlog (so that changes fall into a busy period and classes empty one after the other), later bursts
    c['sources'] = []
    for si in range(rng.randint(1, 3)):
        script = []
        for k in range(rng.randint(1, 6)):
            d = rng.choice([0, 0, 1, 1, 2, 3, 5, 0.5, 12]) * unit
            nb = rng.choice([1, 1, 2, 3, 5])
            if si == 0 and k == 0:
                d, nb = 0, rng.randint(5, 14)
            script.append((d, [(rng.choice(flows), rng.choice(sizes)) for _ in range(nb)]))
        c['sources'].append(script)
    total = sum(tx(z) for s in c['sources'] for _, b in s for _, z in b)
    # (`features` may name a feature several times: its weight in the choice of the case's main feature)
    feats = [f for f in sorted(features) if (kind, f) not in EXCLUDED and (f != 'priorities' or kind == 'sp') and (f != 'weights' or kind == 'wrr')]
    use = {rng.choice(feats)}
    for f in sorted(set(feats)):
        if rng.random() < 0.25:
            use.add(f)
    if 'reflect' in use and use & {'relabel', 'resize'}:       # the next hop either hands packets back or rewrites them
        if rng.random() < 0.5:
            use.discard('reflect')
        else:
            use -= {'relabel', 'resize'}
    c['reconf'] = []
    # instants of change: inside the first busy period mostly, on no grid of the workload (x.3 / x.7 of a unit)
    def instant():
        return (rng.randint(0, max(1, int(min(total, 40 * unit) / unit))) + rng.choice([0.3, 0.7, 0.45])) * unit
    if 'rate' in use:
        for _ in range(rng.choice([1, 1, 2])):
            c['reconf'].append({'at': instant(), 'attr': 'rate', 'value': rate * rng.choice([2, 0.5, 4, 0.25, 3, 1.5])})
    if 'out' in use:
        for k in range(rng.choice([1, 1, 2])):
            c['reconf'].append({'at': instant(), 'attr': 'out', 'value': k + 1})
    if 'priorities' in use:
        cur = c['table']
        for _ in range(rng.choice([1, 1, 2])):
            how = rng.choice(['rebind', 'inplace'])
            x = rng.random()
            if x < 0.6:       # the opposite order of urgency
                top = max(p for _, p in cur) + 1
                new = [[f, top - p] for f, p in cur]
            elif x < 0.8:     # two flows swap their priorities
                new = [list(e) for e in cur]
                i, j = rng.sample(range(len(new)), 2)
                new[i][1], new[j][1] = new[j][1], new[i][1]
            else:
                new = [[f, rng.randint(1, 9)] for f, _ in cur]
            c['reconf'].append({'at': instant(), 'attr': 'priorities', 'how': how, 'table': new})
            cur = new
    if 'weights' in use:
        for _ in range(rng.choice([1, 1, 2])):
            c['reconf'].append({'at': instant(), 'attr': 'weights', 'how': 'inplace',
                                'table': [[f, rng.randint(1, 4)] for f, _ in c['table']]})
    c['reconf'].sort(key=lambda r: r['at'])
    c['down'] = None
    if 'reflect' in use:
        c['down'] = {'type': 'reflect', 'laps': rng.choice([1, 1, 2, 3]), 'fresh': rng.random() < 0.4, 'every': rng.choice([1, 1, 2, 3])}
    elif 'relabel' in use or 'resize' in use:
        d = {'type': 'mutate', 'map': None, 'grow': None}
        if 'relabel' in use:
            x = rng.random()
            some = [f for f in flows if rng.random() < 0.6] or [flows[0]]
            if x < 0.5:
                d['map'] = [[f, 100 + f] for f in some]                        # ids the scheduler has never heard of
            else:
                sh = flows[1:] + flows[:1]
                d['map'] = [[f, g] for f, g in zip(flows, sh) if f in some]    # onto other configured flows
        if 'resize' in use:
            d['grow'] = rng.choice([20, 40, -1 if min(sizes) > 1 else 20, 1500])
        c['down'] = d
    return c


# ---- execution ------------------------------------------------------------------------------------------------------------------

def build(env, c):
    kind, rate = c['kind'].split(':')[1], c['rate']
    table = dict(map(tuple, c['table'])) if c.get('table') else None
    if kind == 'sp': return SP(env, rate, table)
    if kind == 'rr': return RR(env, rate, list(c['flows']))
    if kind == 'wrr': return WRR(env, rate, table)
    if kind == 'drr': return DRR(env, rate, table)
    if kind == 'wfq': return WFQ(env, rate, table)
    return VC(env, rate, table)


class DynRun:
    """one case.  `log` holds, in global action order:
         ('arr', t, entry)   entry = {'p': packet, 'id', 'flow', 'size' (as handed in), 't', 'depth' (0: from a source, >0: from inside out.put)}
         ('start', t, entry) the loop called send_packet(packet)
         ('dep', t, entry)   the packet was handed to out.put()
         ('reconf', t, i)    the i-th change of the case was applied"""

    def __init__(self, c, max_steps=60000, budget=6.0):
        self.c, self.kind = c, c['kind'].split(':')[1]
        self.env = env = Environment()
        with quiet():
            self.sched = sched = build(env, c)
        self.log, self.counter_fail, self.stats = [], [], collections.Counter()
        self.inside = {}                 # id(packet) -> entry, for the packets handed in and not yet handed on
        self.held = {}                   # flow (as handed in) -> [packets, bytes] waiting or in transmission
        self.bad = []                    # departures of packets that are not inside (invented / duplicated)
        self.sunk = []                   # packets that left the ring for good
        self.depth = 0
        self.raised, self.exhausted = None, False
        self.nid = [0]
        self.laps = {}
        run = self
        orig_put, orig_send = sched.put, sched.send_packet

        def put(p):
            e = {'p': p, 'id': p.packet_id, 'flow': p.flow_id, 'size': p.size, 't': env.now, 'depth': run.depth}
            with quiet():
                orig_put(p)
            run.inside[id(p)] = e
            h = run.held.setdefault(e['flow'], [0, 0])
            h[0] += 1; h[1] += e['size']
            run.log.append(('arr', env.now, e))
            run.stats['puts'] += 1
            if run.depth:
                run.stats['re-entrant puts (from inside out.put)'] += 1
            run.compare(f'after put of packet {e["id"]} (flow {e["flow"]})' + (' made by the next hop from inside out.put()' if run.depth else ''))

        def send_packet(p):
            e = run.inside.get(id(p))
            run.log.append(('start', env.now, e if e is not None else {'p': p, 'id': p.packet_id, 'flow': p.flow_id, 'size': p.size, 't': None, 'depth': 0}))
            return orig_send(p)

        class Down:
            def __init__(self, k):
                self.k = k             # which of the devices `out` was pointed at in turn

            def put(self, p):
                e = run.inside.pop(id(p), None)
                if e is None:
                    run.bad.append((env.now, p.packet_id))
                    return
                e['out'] = self.k
                h = run.held[e['flow']]
                h[0] -= 1; h[1] -= e['size']
                run.log.append(('dep', env.now, e))
                d = c.get('down')
                if d and d['type'] == 'mutate':
                    m = dict(map(tuple, d['map'])) if d.get('map') else {}
                    if e['flow'] in m:
                        p.flow_id = m[e['flow']]
                        run.stats['departures re-labelled by the next hop'] += 1
                    if d.get('grow'):
                        p.size = p.size + d['grow']
                        run.stats['departures re-sized by the next hop'] += 1
                    run.sunk.append(p)
                elif d and d['type'] == 'reflect':
                    root = run.laps.setdefault(id(p), [0, len(run.laps)])
                    if root[1] % d['every'] == 0 and root[0] < d['laps']:
                        root[0] += 1
                        q = p
                        if d['fresh']:
                            run.nid[0] += 1
                            q = Packet(env.now, e['size'], 100000 + run.nid[0], src='next-hop', flow_id=e['flow'])
                            run.laps[id(q)] = root
                            run.sunk.append(p)
                        run.depth += 1
                        try:
                            sched.put(q)
                        finally:
                            run.depth -= 1
                    else:
                        run.sunk.append(p)
                else:
                    run.sunk.append(p)

        self.downs = [Down(k) for k in range(1 + sum(1 for r in c.get('reconf') or [] if r['attr'] == 'out'))]
        sched.put, sched.send_packet, sched.out = put, send_packet, self.downs[0]
        pa = getattr(sched, 'packets_available', None)
        if pa is not None:
            # the multi-queue loops wait for the wake-up token on the public Store `packets_available` when (they find) nothing is left:
            # the next pass over the classes starts at the first one
            orig_get = pa.get

            def get():
                run.log.append(('idle', env.now, None))
                return orig_get()
            pa.get = get

        def source(script):
            for d, burst in script:
                yield env.timeout(d)
                for f, z in burst:
                    run.nid[0] += 1
                    sched.put(Packet(env.now, z, run.nid[0], src='src', flow_id=f))

        def operator():
            t0 = 0.0
            for i, r in enumerate(c.get('reconf') or []):
                yield env.timeout(r['at'] - t0)
                t0 = r['at']
                if r['attr'] == 'rate':
                    sched.rate = r['value']
                elif r['attr'] == 'out':
                    sched.out = run.downs[r['value']]
                elif r['attr'] == 'priorities':
                    new = sorted_table(r['table'])
                    if r['how'] == 'rebind':
                        sched.priorities = new
                    else:
                        sched.priorities[:] = new
                elif r['attr'] == 'weights':
                    for f, w in r['table']:
                        sched.weights[f] = w
                run.log.append(('reconf', env.now, i))
                run.stats['changes applied: ' + r['attr'] + (' (' + r['how'] + ')' if r.get('how') else '')] += 1

        for script in c['sources']:
            env.process(source(script))
        if c.get('reconf'):
            env.process(operator())
        steps = 0

        def on_alarm(signum, frame):
            raise TimeoutError(f'the scheduler loop did not yield for {budget:g} s of CPU time (it spins)')
        # CPU time of this process (a busy machine must not look like a spinning scheduler); the watchdog keeps firing every second
        # after the first expiry: the kernel turns the exception into the failure of the spinning process and goes on
        old_handler = signal.signal(signal.SIGPROF, on_alarm)
        signal.setitimer(signal.ITIMER_PROF, budget, 1.0)
        try:
            while env.peek() < INF and steps < max_steps:
                steps += 1
                with quiet():
                    env.step()
                self.compare('after a kernel step')
        except Exception as x:      # noqa - the properties say the run never raises
            self.raised = f'{type(x).__name__}: {x}'
        finally:
            signal.setitimer(signal.ITIMER_PROF, 0)
            signal.signal(signal.SIGPROF, old_handler)
        self.exhausted = steps >= max_steps
        self.end = env.now

    def compare(self, where):
        """C12's counter clause: size(f) / byte_size(f) / total_packets against the packets handed in and not yet handed on"""
        if self.counter_fail:
            return
        s = self.sched
        self.stats['counter comparisons'] += 1
        for f in sorted(set(s.all_flows()) | set(self.held), key=str):
            got, want = (s.size(f), s.byte_size(f)), tuple(self.held.get(f, (0, 0)))
            if got != want:
                self.counter_fail.append(f'at t={self.env.now} {where}: size({f}), byte_size({f}) = {got}; {want[0]} packets / {want[1]} bytes of flow {f} '
                                         f'are waiting or in transmission')
                return
        tot = sum(n for n, _ in self.held.values())
        if s.total_packets != tot:
            self.counter_fail.append(f'at t={self.env.now} {where}: total_packets = {s.total_packets}; {tot} packets are waiting or in transmission')

    # -- the configuration in force --------------------------------------------------------------------------------------------
    def in_force(self, attr, t):
        """(value of `attr` in force at instant t, instant since when, how it was installed) - None if t is itself an instant of
        change of that attribute (either value may have been read)"""
        c = self.c
        val = (c['rate'] if attr == 'rate' else 0 if attr == 'out' else c.get('table'), 0.0, 'constructor')
        for r in c.get('reconf') or []:
            if r['attr'] != attr:
                continue
            if r['at'] == t:
                return None
            if r['at'] < t:
                val = (r['value'] if attr in ('rate', 'out') else r['table'], r['at'], r.get('how') or 'assigned')
        return val

    def describe(self):
        c = self.c
        out = []
        if c.get('reconf'):
            out.append('changes while running: ' + '; '.join(
                f't={r["at"]:g} {r["attr"]} ' + (f'= {r["value"]:g}' if r['attr'] == 'rate' else f'-> device #{r["value"]}' if r['attr'] == 'out' else f'{r["how"]} {r["table"]}') for r in c['reconf']))
        d = c.get('down')
        if d and d['type'] == 'reflect':
            out.append(f'next hop hands {"a fresh packet of the same flow" if d["fresh"] else "the packet"} straight back to put() from inside its own put() '
                       f'(up to {d["laps"]} times, every {d["every"]}. packet)')
        elif d:
            out.append('next hop rewrites inside put(): ' + ', '.join(x for x in [f'flow_id {d["map"]}' if d.get('map') else '',
                                                                                  f'size += {d["grow"]}' if d.get('grow') else ''] if x))
        return '; '.join(out)


# ---- oracles --------------------------------------------------------------------------------------------------------------------

def o_conserve(run):
    """C08: each packet handed to the element is at every instant accounted for exactly once (forwarded or still held), nothing is
    duplicated or invented, packets of one flow leave in the order they entered, and once arrivals stop and the simulation runs out
    of events nothing is still held and the run has not raised"""
    k = run.kind
    if run.raised:
        return [fail(f'{k}: the run raised {run.raised} ({run.describe()})', 'dyn-raised')]
    if run.exhausted:
        return [fail(f'{k}: the simulation did not come to rest within the step budget ({run.describe()})', 'dyn-spin')]
    fails = []
    if run.bad:
        t, pid = run.bad[0]
        fails.append(fail(f'{k}: packet {pid} was handed to the next hop at t={t} although it was not held (never handed in, or handed on before): '
                          f'{len(run.bad)} such hand-overs ({run.describe()})', 'dyn-duplicate-or-invented'))
    if run.inside:
        es = sorted(run.inside.values(), key=lambda e: e['t'])
        narr = sum(1 for ev in run.log if ev[0] == 'arr')
        s = run.sched
        fails.append(fail(f'{k}: {narr} packets were handed to put(), {narr - len(es)} were handed on; when the simulation ran out of events at t={run.end} '
                          f'{len(es)} are still held (ids {[e["id"] for e in es][:8]}, flows {sorted({e["flow"] for e in es}, key=str)}, the first entered at t={es[0]["t"]}'
                          f'{" from inside out.put()" if es[0]["depth"] else ""}) while the scheduler reports total_packets = {s.total_packets}, '
                          f'size() = { {f: s.size(f) for f in s.all_flows()} } ({run.describe()})', 'dyn-held-for-ever'))
    per = collections.defaultdict(lambda: ([], []))
    for ev, t, e in run.log:
        if ev == 'arr':
            per[e['flow']][0].append(id(e))
        elif ev == 'dep':
            per[e['flow']][1].append(id(e))
    for f, (a, d) in per.items():
        if d != a[:len(d)]:
            fails.append(fail(f'{k}: packets of flow {f} left in a different order than they entered ({run.describe()})', 'dyn-flow-order'))
            break
    # "forwarded downstream": to the device `out` names at the instant the transmission ends
    for ev, t, e in run.log:
        if ev == 'dep':
            o = run.in_force('out', t)
            if o is not None:
                if o[1] > 0:
                    run.stats['departures after `out` was re-pointed'] += 1
                if e.get('out') != o[0]:
                    fails.append(fail(f'{k}: packet {e["id"]} was handed on at t={t} to device #{e.get("out")}; `out` names device #{o[0]}'
                                      f'{" since t=%g (re-pointed while the scheduler was running)" % o[1] if o[1] > 0 else ""} ({run.describe()})', 'dyn-wrong-next-hop'))
                    break
    return fails


def o_service(run):
    """C12: one packet at a time; every transmission lasts exactly 8*size/rate - with the rate the scheduler has when the
    transmission starts -; never idle with a backlog (a transmission starts at the instant the previous one ends if a packet is
    waiting then, else at the next arrival); every accepted packet is transmitted exactly once; the counters"""
    k = run.kind
    if run.raised:
        return [fail(f'{k}: the run raised {run.raised} ({run.describe()})', 'dyn-raised')]
    if run.exhausted:
        return [fail(f'{k}: the simulation did not come to rest within the step budget ({run.describe()})', 'dyn-spin')]
    fails = []
    open_tx, prev_dep = None, None
    pending = {}                     # id(entry) -> arrival instant, for entries not yet started
    for ev, t, e in run.log:
        if ev == 'arr':
            pending[id(e)] = t
        elif ev == 'start':
            if open_tx is not None:
                fails.append(fail(f'{k}: the transmission of packet {e["id"]} started at t={t} while packet {open_tx[0]["id"]} was still in transmission ({run.describe()})',
                                  'dyn-overlap'))
                break
            if id(e) not in pending:
                fails.append(fail(f'{k}: packet {e["id"]} was put on the line at t={t} but is not waiting ({run.describe()})', 'dyn-duplicate-or-invented'))
                break
            want = min(pending.values())
            if prev_dep is not None and prev_dep > want:
                want = prev_dep
            if t != want:
                fails.append(fail(f'{k}: the transmission of packet {e["id"]} starts at t={t!r}; the previous one ended at {prev_dep!r} and the earliest waiting '
                                  f'packet arrived at {min(pending.values())!r}: a work-conserving server starts it at {want!r} ({run.describe()})', 'dyn-idle-with-backlog'))
                break
            del pending[id(e)]
            open_tx = (e, t)
        elif ev == 'dep':
            if open_tx is None or open_tx[0] is not e:
                fails.append(fail(f'{k}: packet {e["id"]} left at t={t} but the packet in transmission was {open_tx[0]["id"] if open_tx else None} ({run.describe()})',
                                  'dyn-overlap'))
                break
            r = run.in_force('rate', open_tx[1])
            if r is not None:
                run.stats['transmissions timed against the rate in force at their start'] += 1
                if r[1] > 0:
                    run.stats['transmissions started after a change of `rate`'] += 1
                want = open_tx[1] + e['size'] * 8.0 / r[0]
                if t != want:
                    since = f' (assigned at t={r[1]:g} while the scheduler was running; rate at construction {run.c["rate"]:g})' if r[1] > 0 else ''
                    fails.append(fail(f'{k}: packet {e["id"]} (size {e["size"]}) started transmission at t={open_tx[1]!r} and left at t={t!r}; the scheduler\'s rate '
                                      f'at the start of the transmission was {r[0]:g}{since}: 8*size/rate later is {want!r} ({run.describe()})', 'dyn-service-time'))
                    break
            open_tx, prev_dep = None, t
    if not fails and (run.inside or run.bad):
        lost = sorted(run.inside.values(), key=lambda e: e['t'])
        if lost and open_tx is None:
            fails.append(fail(f'{k}: the simulation ran out of events at t={run.end} with packets {[e["id"] for e in lost][:8]} waiting and no transmission in '
                              f'progress: never transmitted ({run.describe()})', 'dyn-never-transmitted'))
    if run.counter_fail:
        fails.append(fail(f'{k}: {run.counter_fail[0]} ({run.describe()})', 'dyn-counters'))
    return fails


def _waiting_before(waiting, t):
    """waiting at a decision taken in instant t: handed in in an earlier instant (the decision burst precedes the call of
    send_packet within the instant - DESIGN section 3 - so a packet that arrives in that same instant may have come after it)"""
    return [e for e in waiting if e['t'] < t]


def o_priority(run):
    """C13: whenever SP starts transmitting a packet, no packet of a flow with a strictly higher priority value - in the table in
    force at that instant - is waiting"""
    if run.kind != 'sp' or run.raised or run.exhausted:
        return []
    fails, waiting = [], []
    for ev, t, e in run.log:
        if ev == 'arr':
            waiting.append(e)
        elif ev == 'start':
            if e in waiting:
                waiting.remove(e)
            tab = run.in_force('priorities', t)
            if tab is None:
                continue
            prio = dict(map(tuple, tab[0]))
            early = _waiting_before(waiting, t)
            run.stats['decisions judged against the table in force'] += 1
            if tab[1] > 0:
                run.stats['decisions after a change of `priorities`'] += 1
                old = dict(map(tuple, run.c['table']))
                if any((old[q['flow']] - old[e['flow']]) * (prio[q['flow']] - prio[e['flow']]) < 0 for q in early):
                    run.stats['decisions with two flows waiting whose order the change reversed'] += 1
            higher = [q for q in early if prio[q['flow']] > prio[e['flow']]]
            if higher:
                q = higher[0]
                since = (f'the table in force since t={tab[1]:g} ({"re-bound" if tab[2] == "rebind" else "edited in place"} while the scheduler was running): '
                         f'{sorted_table(tab[0])}' if tab[1] > 0 else f'the table {sorted_table(tab[0])}')
                fails.append(fail(f'sp: at t={t} the transmission of packet {e["id"]} (flow {e["flow"]}, priority {prio[e["flow"]]}) was started while packet '
                                  f'{q["id"]} (flow {q["flow"]}, priority {prio[q["flow"]]}, waiting since t={q["t"]}) was waiting; priorities are those of {since}',
                                  'dyn-sp-priority-inversion'))
                break
    return fails


def o_roundrobin(run):
    """C15 (RR, WRR): the configured classes are visited cyclically in declaration order, skipping empty ones; per visit RR sends one
    packet, WRR up to `weight` packets (the weight in force when the visit begins); every backlogged class gets its allowance -
    in particular the server does not come to rest at an empty class while others are backlogged (RR, WRR, DRR).
    State: `pos` = entry being visited (-1: a pass is about to start at the first entry: at the start and after the loop waited
    for the wake-up token), `cj` packets sent in this visit, `allow` its allowance.  A service of entry j either continues the visit
    (j == pos, cj < allow) or begins a new one: then the visit of `pos` is over (allowance used, or no packet of that class waiting
    from an earlier instant) and no entry between pos and j (cyclically) has a packet waiting from an earlier instant."""
    k = run.kind
    if k not in ('rr', 'wrr', 'drr') or run.raised or run.exhausted:
        return []
    c = run.c
    in_tx = None
    for ev, t, e in run.log:
        if ev == 'start':
            in_tx = e
        elif ev == 'dep' and e is in_tx:
            in_tx = None
    if run.inside and in_tx is None:
        held = collections.Counter(e['flow'] for e in run.inside.values())
        served = [e['flow'] for ev, _, e in run.log if ev == 'start']
        return [fail(f'{k}: the simulation ran out of events at t={run.end} with classes {dict(held)} (class: packets) backlogged and the line idle: the loop '
                     f'rests instead of skipping the empty classes and serving the backlogged ones (service order so far, by class: {served[-12:]}; '
                     f'size() = { {f: run.sched.size(f) for f in run.sched.all_flows()} }) ({run.describe()})', 'dyn-rr-rests-with-backlog')]
    if k == 'drr':
        return []
    fails = []
    order = list(c['flows']) if k == 'rr' else [f for f, _ in c['table']]
    n = len(order)
    waiting, pos, cj, allow = [], -1, 0, 1
    for ev, t, e in run.log:
        if ev == 'arr':
            waiting.append(e)
        elif ev == 'idle':
            pos, cj, allow = -1, 0, 1
        elif ev == 'start':
            if e in waiting:
                waiting.remove(e)
            j = order.index(e['flow'])
            early = lambda q: [x for x in _waiting_before(waiting, t) if order.index(x['flow']) == q]
            if j == pos and (allow is None or cj < allow):
                cj += 1
                continue
            if pos >= 0 and allow is not None and cj < allow and early(pos):
                fails.append(fail(f'wrr: packet {e["id"]} (class {e["flow"]}) is served at t={t} although the visit of class {order[pos]} has sent only {cj} of its '
                                  f'{allow} packets and packet {early(pos)[0]["id"]} of that class waits ({run.describe()})', 'dyn-wrr-visit-cut-short'))
                break
            skipped = list(range(pos + 1, j)) if pos + 1 <= j else list(range(pos + 1, n)) + list(range(j))
            passed = [x for q in skipped for x in early(q)]
            if passed:
                x = passed[0]
                fails.append(fail(f'{k}: packet {e["id"]} (class {e["flow"]}, entry {j}) is served at t={t} after '
                                  f'{"class " + str(order[pos]) + " (entry " + str(pos) + ")" if pos >= 0 else "an idle period"} while packet {x["id"]} of class '
                                  f'{x["flow"]} (entry {order.index(x["flow"])}), waiting since t={x["t"]}, is passed over ({run.describe()})', f'dyn-{k}-visit-order'))
                break
            run.stats['visits judged'] += 1
            pos, cj, allow = j, 1, 1
            if k == 'wrr':
                wt = run.in_force('weights', t)
                allow = None if wt is None else dict(map(tuple, wt[0]))[e['flow']]
                if wt is not None and wt[1] > 0:
                    run.stats['visits begun after a change of `weights`'] += 1
    return fails


ORACLES = {'conserve': o_conserve, 'service': o_service, 'priority': o_priority, 'roundrobin': o_roundrobin}


# ---- family runner --------------------------------------------------------------------------------------------------------------

def cases_from_replay(path):
    j = json.load(open(path))
    cs = [j['case']] if j.get('case') else [d['case'] for d in j.get('broken_correspondence', []) if d.get('case')]
    return [c for c in cs if isinstance(c, dict) and str(c.get('kind', '')).startswith('dyn:') and c['kind'].split(':')[1] in KINDS]


def run_family(ctx, prop, kinds, features, oracles, n_quick, n_thorough):
    """returns {'coverage', 'disagreements': [], 'oracle_failures'} for the oracle-only family of check `prop`"""
    rng = random.Random(f'{prop}-dyn-{ctx.seed}')
    if ctx.replay:
        cases = cases_from_replay(ctx.replay)
    else:
        cases = [gen_case(rng, f'dyn{i}', kinds[i % len(kinds)], features) for i in range(n_quick if ctx.quick else n_thorough)]
    orc, hist, nontriv, samples = [], collections.Counter(), 0, []
    stuck = 0
    for i, c in enumerate(cases):
        r = DynRun(c, budget=6.0 if stuck == 0 else 2.0)
        if r.exhausted or (r.raised or '').startswith('TimeoutError'):
            stuck += 1
        fails = []
        for o in oracles:
            fails += ORACLES[o](r)
        hist.update(r.stats)
        hist['kind:' + c['kind']] += 1
        d = c.get('down')
        hist['next hop: ' + ('records only' if not d else d['type'] if d['type'] == 'reflect' else
                             '+'.join(x for x in ['relabel' if d.get('map') else '', 'resize' if d.get('grow') else ''] if x))] += 1
        first_change = next((i for i, ev in enumerate(r.log) if ev[0] == 'reconf'), None)
        nt = bool(r.stats['re-entrant puts (from inside out.put)'] or r.stats['departures re-labelled by the next hop'] or r.stats['departures re-sized by the next hop']
                  or (first_change is not None and any(ev[0] == 'start' for ev in r.log[first_change:])))
        if nt:
            nontriv += 1
            if len(samples) < 1:
                samples.append(c)
        seen = set()
        for f in fails:
            if f['signature'] in seen:
                continue
            seen.add(f['signature'])
            f['case'] = c
            f['trace'] = [f'{ev} t={t!r} ' + (f'packet {e["id"]} flow {e["flow"]} size {e["size"]}' + (' (re-entrant)' if ev == 'arr' and e['depth'] else '')
                                             if ev in ('arr', 'start', 'dep') else f'change #{e}' if ev == 'reconf' else '') for ev, t, e in r.log[:300]]
            orc.append(f)
        if stuck >= 3:
            # the scheduler spins or never comes to rest, case after case: each such case costs seconds of CPU, the finding is
            # established - the remaining cases are not run
            del cases[i + 1:]
            break
    cov = {'evaluations': len(cases), 'distinct_nontrivial': nontriv, 'oracle_only': True,
           'rule': 'ORACLE-ONLY (outside the Lean replay): schedulers whose public configuration (' + ', '.join(sorted(set(features) & {'rate', 'priorities', 'weights'})) +
                   ') is reassigned by another process while they are backlogged, and schedulers whose next hop, inside its own put(), hands packets straight back '
                   '(' + ', '.join(sorted(set(features) & {'reflect', 'relabel', 'resize'})) + '); every clause judged with the value in force at the instant it refers to; '
                   'non-trivial = a transmission started after a change, or a re-entrant put / a rewritten packet occurred',
           'samples': samples, 'operation_histogram': dict(sorted(hist.items()))}
    return {'coverage': cov, 'disagreements': [], 'oracle_failures': orc}
