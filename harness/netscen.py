"""Network scenarios for the reproducibility half of C03: the same program must give the same observable trace in
any interpreter process under any PYTHONHASHSEED.  Flow ids are strings as well as ints (sets/dicts of strings
iterate in hash-seed order, which must not leak into behaviour)."""
import hashlib, random, sys, json
from onl.sim import Environment
from onl.packet import Packet, PacketSink
from onl.netdev import Port, Wire
from onl.scheduler import SP, WFQ, DRR, VC
from onl.scheduler.rr import RR
from onl.scheduler.wrr import WRR
from vlib.util import bits, quiet

NAMES = ['voice', 'video', 'data', 'bulk', 'ctrl']


def scenario(kind, flows, seed):
    rng = random.Random(seed)
    env = Environment()
    rate = 8000.0
    w = {f: rng.choice([1, 2, 3]) for f in flows}
    if kind == 'sp': s = SP(env, rate, w)
    elif kind == 'rr': s = RR(env, rate, list(flows))
    elif kind == 'wrr': s = WRR(env, rate, w)
    elif kind == 'drr': s = DRR(env, rate, w)
    elif kind == 'wfq': s = WFQ(env, rate, w)
    else: s = VC(env, rate, {f: float(w[f]) for f in flows})
    port = Port(env, 16000.0, 50, False, 'p')
    wire = Wire(env, lambda: 0.25)
    out = []
    class Rec:
        def put(self, p): out.append((p.flow_id, p.packet_id, bits(env.now)))
    s.out = port; port.out = wire; wire.out = Rec()
    def src(k):
        pid = 1000 * k
        for _ in range(12):
            yield env.timeout(rng.choice([0, 0, 0.5, 1, 0.125]))
            for _ in range(rng.choice([1, 2, 3])):
                pid += 1
                s.put(Packet(env.now, rng.choice([100, 500, 1500]), pid, flow_id=rng.choice(flows)))
    for k in range(3):
        env.process(src(k + 1))
    with quiet():
        env.run(until=10000)
    return hashlib.sha256(repr(out).encode()).hexdigest()


def all_digests(seed):
    out = {}
    for kind in ('sp', 'rr', 'wrr', 'drr', 'wfq', 'vc'):
        for label, flows in (('int', [0, 1, 2, 3, 4]), ('str', NAMES)):
            for k in range(2):
                out[f'{kind}-{label}-{k}'] = scenario(kind, flows, seed * 10 + k)
    return out


if __name__ == '__main__':
    print(json.dumps(all_digests(int(sys.argv[1]))))
