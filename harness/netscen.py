"""Network scenarios for the reproducibility half of C03: the same program must give the same observable trace in
any interpreter process under any PYTHONHASHSEED.  Flow ids are strings as well as ints (sets/dicts of strings
iterate in hash-seed order, which must not leak into behaviour)."""
import hashlib, random, sys, json
from onl.sim import Environment
from onl.packet import Packet, PacketSink
from onl.netdev import Port, Wire
from onl.netdev.red_port import REDPort
from onl.netdev.demux import RandomDemux
from onl.scheduler import SP, WFQ, DRR, VC
from onl.scheduler.rr import RR
from onl.scheduler.wrr import WRR
from vlib.util import bits, quiet

NAMES = ['voice', 'video', 'data', 'bulk', 'ctrl']
STOCHASTIC = ['loss', 'loss', 'red', 'rdemux']


STATS = {}        # scenario key -> (packets handed to the scheduler, packets delivered): non-vacuity of the stochastic scenarios


def scenario(kind, flows, seed, stochastic=None, key=None):
    """`stochastic` (None | 'loss' | 'red' | 'rdemux'): the program uses the library's random elements (a lossy Wire, a
    REDPort, a RandomDemux).  They draw from the global `random` stream, so the program seeds it at its start, as every
    reproducible experiment does (`random.seed(seed)`); the harness puts the previous global state back afterwards."""
    rng = random.Random(seed)
    saved = None
    if stochastic:
        saved = random.getstate()
        random.seed(seed)
    try:
        return _scenario(kind, flows, rng, stochastic, key)
    finally:
        if saved is not None:
            random.setstate(saved)


def _scenario(kind, flows, rng, stochastic, key):
    env = Environment()
    rate = 8000.0
    w = {f: rng.choice([1, 2, 3]) for f in flows}
    if kind == 'sp': s = SP(env, rate, w)
    elif kind == 'rr': s = RR(env, rate, list(flows))
    elif kind == 'wrr': s = WRR(env, rate, w)
    elif kind == 'drr': s = DRR(env, rate, w)
    elif kind == 'wfq': s = WFQ(env, rate, w)
    else: s = VC(env, rate, {f: float(w[f]) for f in flows})
    out = []
    class Rec:
        def put(self, p): out.append((p.flow_id, p.packet_id, bits(env.now)))
    if stochastic == 'red':
        port = REDPort(env, 16000.0, max_threshold=4, min_threshold=1, max_probability=0.6, element_id='p', qlimit=30, weight_factor=1)
    else:
        port = Port(env, 16000.0, 50, False, 'p')
    if stochastic:
        wire = Wire(env, lambda: 0.25, loss_rate=rng.choice([0.1, 0.3, 0.5]))
    else:
        wire = Wire(env, lambda: 0.25)
    s.out = port; wire.out = Rec()
    if stochastic == 'rdemux':
        side = Wire(env, lambda: 0.5, loss_rate=0.2, wire_id=1)
        side.out = wire.out
        port.out = RandomDemux([wire, side], [0.7, 0.3])
    else:
        port.out = wire
    nput = [0]
    def src(k):
        pid = 1000 * k
        for _ in range(12):
            yield env.timeout(rng.choice([0, 0, 0.5, 1, 0.125]))
            for _ in range(rng.choice([1, 2, 3])):
                pid += 1
                nput[0] += 1
                s.put(Packet(env.now, rng.choice([100, 500, 1500]), pid, flow_id=rng.choice(flows)))
    for k in range(3):
        env.process(src(k + 1))
    with quiet():
        env.run(until=10000)
    if key is not None:
        STATS[key] = (nput[0], len(out))
    return hashlib.sha256(repr(out).encode()).hexdigest()


def all_digests(seed):
    out = {}
    for kind in ('sp', 'rr', 'wrr', 'drr', 'wfq', 'vc'):
        for label, flows in (('int', [0, 1, 2, 3, 4]), ('str', NAMES)):
            for k in range(2):
                out[f'{kind}-{label}-{k}'] = scenario(kind, flows, seed * 10 + k)
    # programs with random elements (lossy wire, RED port, random demux) that seed `random` at their start
    for j, kind in enumerate(('sp', 'rr', 'wrr', 'drr', 'wfq', 'vc')):
        for i, st in enumerate(STOCHASTIC):
            key = f'{kind}-{st}-{i}'
            out[key] = scenario(kind, [0, 1, 2, 3, 4] if (i + j) % 2 else NAMES, (seed * 10 + 3 + i) * 7 + j, stochastic=st, key=key)
    return out


if __name__ == '__main__':
    print(json.dumps(all_digests(int(sys.argv[1]))))
