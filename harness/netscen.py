"""Network scenarios for the reproducibility half of C03: the same program must give the same observable trace in
any interpreter process under any PYTHONHASHSEED.  Flow ids are strings as well as ints (sets/dicts of strings
iterate in hash-seed order, which must not leak into behaviour)."""
import hashlib, random, sys, json
from onl.sim import Environment
from onl.packet import Packet, PacketSink
from onl.netdev import Port, Wire
from onl.netdev.red_port import REDPort
from onl.netdev.demux import RandomDemux
from onl.scheduler import SP, WFQ, DRR, VC
from onl.scheduler.rr import RR
from onl.scheduler.wrr import WRR
from vlib.util import bits, quiet

NAMES = ['voice', 'video', 'data', 'bulk', 'ctrl']
STOCHASTIC = ['loss', 'loss', 'red', 'rdemux']


STATS = {}        # scenario key -> (packets handed to the scheduler, packets delivered): non-vacuity of the stochastic scenarios


def scenario(kind, flows, seed, stochastic=None, key=None):
    """`stochastic` (None | 'loss' | 'red' | 'rdemux'): the program uses the library's random elements (a lossy Wire, a
    REDPort, a RandomDemux).  They draw from the global `random` stream, so the program seeds it at its start, as every
    reproducible experiment does (`random.seed(seed)`); the harness puts the previous global state back afterwards."""
    rng = random.Random(seed)
    saved = None
    if stochastic:
        saved = random.getstate()
        random.seed(seed)
    try:
        return _scenario(kind, flows, rng, stochastic, key)
    finally:
        if saved is not None:
            random.setstate(saved)


def _build(kind, flows, rng, stochastic):
    """the program: three bursty sources -> scheduler -> port -> wire -> recorder; returns (env, scheduler, port, deliveries, put counter)"""
    env = Environment()
    rate = 8000.0
    w = {f: rng.choice([1, 2, 3]) for f in flows}
    if kind == 'sp': s = SP(env, rate, w)
    elif kind == 'rr': s = RR(env, rate, list(flows))
    elif kind == 'wrr': s = WRR(env, rate, w)
    elif kind == 'drr': s = DRR(env, rate, w)
    elif kind == 'wfq': s = WFQ(env, rate, w)
    else: s = VC(env, rate, {f: float(w[f]) for f in flows})
    out = []
    class Rec:
        def put(self, p): out.append((p.flow_id, p.packet_id, bits(env.now)))
    if stochastic == 'red':
        port = REDPort(env, 16000.0, max_threshold=4, min_threshold=1, max_probability=0.6, element_id='p', qlimit=30, weight_factor=1)
    else:
        port = Port(env, 16000.0, 50, False, 'p')
    if stochastic:
        wire = Wire(env, lambda: 0.25, loss_rate=rng.choice([0.1, 0.3, 0.5]))
    else:
        wire = Wire(env, lambda: 0.25)
    s.out = port; wire.out = Rec()
    if stochastic == 'rdemux':
        side = Wire(env, lambda: 0.5, loss_rate=0.2, wire_id=1)
        side.out = wire.out
        port.out = RandomDemux([wire, side], [0.7, 0.3])
    else:
        port.out = wire
    nput = [0]
    def src(k):
        pid = 1000 * k
        for _ in range(12):
            yield env.timeout(rng.choice([0, 0, 0.5, 1, 0.125]))
            for _ in range(rng.choice([1, 2, 3])):
                pid += 1
                nput[0] += 1
                s.put(Packet(env.now, rng.choice([100, 500, 1500]), pid, flow_id=rng.choice(flows)))
    for k in range(3):
        env.process(src(k + 1))
    return env, s, port, out, nput


def _scenario(kind, flows, rng, stochastic, key):
    env, s, port, out, nput = _build(kind, flows, rng, stochastic)
    with quiet():
        env.run(until=10000)
    if key is not None:
        STATS[key] = (nput[0], len(out))
    return hashlib.sha256(repr(out).encode()).hexdigest()


# ---- C03, second half, on network programs: "splitting one run into any sequence of run(until=...) and step() calls produces
# exactly the trace of the single uninterrupted run".  The program carries the library's own sampling components (a scheduler
# Monitor, a PortMonitor) whose processes outlive the traffic: the sources stop after ~12 s, the backlog drains, and the horizon
# T lies far behind that, so that for most of the run nothing but the samplers (and, under run(until=T), the kernel's stop
# marker) is scheduled.  How the run is driven must not be observable by the program.

SPLIT_T = 240
SPLIT_PLANS = ('whole', 'steps', 'mixed-a', 'mixed-b', 'until-then-steps')


def drive(env, T, plan, seed):
    """execute the program up to T under a plan; every plan ends with now == T"""
    prng = random.Random(f'netsplit-{plan}-{seed}')
    def steps(limit):
        while env.peek() < limit:
            env.step()
    if plan == 'whole':
        env.run(until=T)
        return
    if plan == 'steps':
        steps(T)
    elif plan == 'until-then-steps':
        env.run(until=prng.choice([2, 5, 7.5, 11]))
        steps(T)
    else:
        cuts = sorted(prng.sample([x * 0.5 for x in range(1, 2 * T)], prng.choice([2, 3, 5])))
        for c in cuts:
            if prng.random() < 0.5:
                if c > env.now:
                    env.run(until=c)
            else:
                steps(c)
        if prng.random() < 0.7:
            steps(T)
    if env.now < T:
        env.run(until=T)


def monitored(kind, flows, seed, plan, attach='both'):
    """one execution of the monitored program under a plan -> the observable trace as a dict of json-able parts"""
    from onl.scheduler import Monitor
    from onl.netdev.port_monitor import PortMonitor
    rng = random.Random(seed)
    env, s, port, out, nput = _build(kind, flows, rng, None)
    probe = {'mon': [], 'pmon': []}          # the instants at which the samplers ask for their next interval (probe callbacks)
    def mdist():
        probe['mon'].append(bits(env.now)); return 1.0
    def pdist():
        probe['pmon'].append(bits(env.now)); return 0.75
    # `attach`: which samplers the program carries ('mon' | 'pmon' | 'both'); with a single sampler it is the only thing left in the
    # schedule once the traffic has drained
    class _None: sizes = {}; byte_sizes = {}; sizes_byte = ()
    mon = pm = _None
    if attach in ('mon', 'both'):
        mon = Monitor(env, s, mdist, service_included=bool(seed % 2))
    if attach in ('pmon', 'both'):
        pm = PortMonitor(env, port, pdist, pkt_in_service_included=bool((seed // 2) % 2))
        env.process(pm.run())
    with quiet():
        drive(env, SPLIT_T, plan, seed)
    return {'deliveries': out,
            'monitor sample instants': probe['mon'],
            'monitor sizes': sorted((repr(f), list(v)) for f, v in mon.sizes.items()),
            'monitor byte sizes': sorted((repr(f), list(v)) for f, v in mon.byte_sizes.items()),
            'port monitor sample instants': probe['pmon'],
            'port monitor sizes': list(pm.sizes), 'port monitor byte sizes': list(pm.sizes_byte),
            'final now': bits(env.now), 'packets offered': nput[0]}


def split_one(kind, label, flows, sd, plan, attach, whole=None):
    """one monitored program under one split plan against its uninterrupted run -> failure dict or None"""
    from vlib.util import unbits
    whole = whole or monitored(kind, flows, sd, 'whole', attach)
    got = monitored(kind, flows, sd, plan, attach)
    if got == whole:
        return None
    last = max([unbits(t) for _, _, t in whole['deliveries']], default=0.0)
    part = next(k for k in whole if got[k] != whole[k])
    a, b = whole[part], got[part]
    d = f'{len(b)} entries against {len(a)}' if isinstance(a, list) and len(a) != len(b) else f'{str(b)[:80]} against {str(a)[:80]}'
    return {'what': f'network program {kind}-{label} (scheduler + port + wire, samplers attached: {attach}, traffic ends at '
                    f't={last}, horizon {SPLIT_T}): executed under the plan `{plan}` (run(until=t)/step() pieces, then run(until={SPLIT_T})) '
                    f'its observable trace differs from the single run(until={SPLIT_T}) in `{part}`: {d}',
            'signature': 'split-net-differs',
            'case': {'scenario': f'{kind}-{label}', 'seed': sd, 'plan': plan, 'T': SPLIT_T, 'flows': flows, 'attach': attach, 'differs_in': part}}


def split_failures(seed):
    """-> (oracle failures, coverage) : every monitored program under every split plan against its uninterrupted run"""
    from vlib.util import unbits
    fails, cov = [], {'split_network_programs': 0, 'split_network_executions': 0, 'programs_idle_before_T': 0}
    for i, kind in enumerate(('sp', 'rr', 'wrr', 'drr', 'wfq', 'vc')):
        for label, flows in (('int', [0, 1, 2, 3, 4]), ('str', NAMES)):
            sd = seed * 10 + 5 + (label == 'str')
            attach = 'mon' if label == 'int' else ('both', 'pmon')[i % 2]
            whole = monitored(kind, flows, sd, 'whole', attach)
            cov['split_network_programs'] += 1
            last = max([unbits(t) for _, _, t in whole['deliveries']], default=0.0)
            if whole['deliveries'] and last < SPLIT_T - 20:
                cov['programs_idle_before_T'] += 1
            for plan in SPLIT_PLANS[1:]:
                f = split_one(kind, label, flows, sd, plan, attach, whole)
                cov['split_network_executions'] += 1
                if f:
                    fails.append(f)
    return fails, cov


def all_digests(seed):
    out = {}
    for kind in ('sp', 'rr', 'wrr', 'drr', 'wfq', 'vc'):
        for label, flows in (('int', [0, 1, 2, 3, 4]), ('str', NAMES)):
            for k in range(2):
                out[f'{kind}-{label}-{k}'] = scenario(kind, flows, seed * 10 + k)
    # programs with random elements (lossy wire, RED port, random demux) that seed `random` at their start
    for j, kind in enumerate(('sp', 'rr', 'wrr', 'drr', 'wfq', 'vc')):
        for i, st in enumerate(STOCHASTIC):
            key = f'{kind}-{st}-{i}'
            out[key] = scenario(kind, [0, 1, 2, 3, 4] if (i + j) % 2 else NAMES, (seed * 10 + 3 + i) * 7 + j, stochastic=st, key=key)
    return out


if __name__ == '__main__':
    print(json.dumps(all_digests(int(sys.argv[1]))))
