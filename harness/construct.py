"""Construction styles for the devices under test.

Reading (DESIGN section 3): *a call that passes the documented parameters positionally, in the documented order, is an ordinary
input; all clauses of a property must hold for it.*  The harnesses used to build every device the way the examples of the library
do - the leading parameters positionally, everything else by keyword or left at its default - so that a change of the *order* of the
constructor parameters (a new optional parameter inserted in front of an old one) was invisible to them, while a user's
`SP(env, rate, priorities, flow2class, True)` silently got another device.

`PUBLISHED` is a frozen copy of the positional parameter orders of the pinned tree (what a user of that tree may rely on); it is
NOT read from the tree under test.  `build(cls, params, style)` constructs `cls` either in the `legacy` style of the harnesses or
`positional`: every published parameter handed over positionally, in the published order - the caller's values where it has any,
the published defaults elsewhere - and `debug=True` as a positional argument.  Debug printing must not change behaviour: callers
swallow `sys.stdout` for the duration of the case (`swallowed()`; the scheduler harnesses already run under `vlib.util.quiet()`).

A tree under test from whose constructor a parameter was *removed* (fewer positional parameters than published) cannot take the
positional call at all; that is not what the properties speak about: `build` then falls back to the legacy style and counts it
(`STATS['fell back to keywords']`), it does not alarm.  Construction style does not change the model's input: the cases go through
the Lean replay unchanged.
"""
import collections, contextlib, inspect, io, sys


def identity(x):
    return x


#: class name -> published positional order of the pinned tree (after `self`)
PUBLISHED = {
    'SP': ('env', 'rate', 'priorities', 'flow2class', 'debug'),
    'DRR': ('env', 'rate', 'weights', 'flow2class', 'debug'),
    'WFQ': ('env', 'rate', 'weights', 'flow2class', 'debug'),
    'VC': ('env', 'rate', 'vticks', 'flow2class', 'debug'),
    'RR': ('env', 'rate', 'flows', 'debug'),
    'WRR': ('env', 'rate', 'weights', 'debug'),
    'Port': ('env', 'rate', 'qlimit', 'limit_bytes', 'element_id', 'debug'),
    'Wire': ('env', 'delay_dist', 'loss_rate', 'wire_id', 'debug'),
    'TokenBucket': ('env', 'rate', 'bucket_size', 'peak', 'debug'),
    'TwoRateTokenBucket': ('env', 'cir', 'cbs', 'pir', 'pbs', 'debug'),
    'Timer': ('env', 'timeout', 'timeout_callback', 'auto_restart', 'args', 'kwargs'),
}

#: published defaults of the optional parameters (flow2class: the identity, as `lambda fid: fid`)
DEFAULTS = {'flow2class': identity, 'debug': False, 'loss_rate': None, 'wire_id': 0, 'peak': None, 'pir': None, 'pbs': None,
            'auto_restart': False, 'args': None, 'kwargs': None}

#: how many leading parameters the legacy style passes positionally (the rest by keyword, if the caller sets them at all)
LEADING = {'SP': 3, 'DRR': 3, 'WFQ': 3, 'VC': 3, 'RR': 3, 'WRR': 3, 'Port': 2, 'Wire': 2, 'TokenBucket': 3, 'TwoRateTokenBucket': 3, 'Timer': 3}

STATS = collections.Counter()


def positional_args(name, params, debug=True):
    """the argument list of the fully positional call of `name` for the caller's `params` (a dict name -> value)"""
    order = PUBLISHED[name]
    unknown = [k for k in params if k not in order]
    if unknown:
        raise KeyError(f'{name}: {unknown} are not published parameters')
    args = []
    for n in order:
        if n in params:
            args.append(params[n])
        elif n == 'debug':
            args.append(debug)
        elif n in DEFAULTS:
            args.append(DEFAULTS[n])
        else:
            raise KeyError(f'{name}: required parameter {n} not given')
    return args


def build(cls, params, style='legacy', debug=True):
    """construct `cls` from `params` (ordered like the published signature) in the given style"""
    name = cls.__name__
    if style == 'positional':
        args = positional_args(name, params, debug)
        try:
            inspect.signature(cls).bind(*args)
            fits = True
        except TypeError:
            fits = False                      # a parameter was removed on the tree under test: not a positional call any more
        except ValueError:
            fits = True                       # no introspectable signature: just try
        if fits:
            try:
                obj = cls(*args)
                STATS[f'{name}: built fully positionally ({len(args)} arguments, debug={debug!r})'] += 1
                return obj
            except TypeError as x:
                if 'positional argument' not in str(x):
                    raise
        STATS[f'{name}: fell back to keywords'] += 1
    order = PUBLISHED[name]
    lead = [params[n] for n in order[:LEADING[name]] if n in params]
    kw = {n: params[n] for n in order[LEADING[name]:] if n in params}
    STATS[f'{name}: built the legacy way'] += 1
    return cls(*lead, **kw)


class _Null(io.TextIOBase):
    def write(self, s):
        return len(s)


@contextlib.contextmanager
def swallowed():
    """sys.stdout swallowed (debug printing of a device built with debug=True must not reach the terminal - nor change behaviour)"""
    with contextlib.redirect_stdout(_Null()):
        yield
