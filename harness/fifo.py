"""Generic driver for FifoServer devices (Port, REDPort, Wire, TokenBucket, TwoRateTokenBucket).

The harness runs the REAL device on the real kernel, stepping `env.step()` itself.  Taps record every
`put()` and every `out.put()`; after each kernel step the server's progress is read off public state
(`dev.action.target`, `.triggered`) and turned into an action label for the model
(lean/OnlVerif/Net/Fifo.lean).  Labels are hints the model verifies: an action it does not enable is a
REJECT, a different snapshot is a mismatch.
"""
from onl.sim import Environment
from onl.packet import Packet
from vlib.util import bits, quiet

COLORS = {'': 0, 'green': 1, 'yellow': 2, 'red': 3}
INF = float('inf')


class Recorder:
    """recording sink: the `out` of the device under test"""

    def __init__(self, run):
        self.run = run

    def put(self, packet):
        self.run.events.append(('out', packet))
        self.run.departures.append((self.run.env.now, packet))


def phase_of(proc):
    t = proc.target
    if t is None:
        return 'X'        # the process has terminated (crashed): the failure surfaces when its event is processed
    name = type(t).__name__
    if name == 'Initialize':
        return 'I'
    if name in ('StoreGet', 'FilterStoreGet'):
        return 'H' if t.triggered else 'W'
    if name == 'Timeout':
        return 'T'
    return '?' + name


class FifoRun:
    """one case: a device, scripted sources, optional monitors; produces the action lines for the model
    (`self.acts`) and the implementation's observation lines (`self.obs`) in the driver's format."""

    def __init__(self, env, dev, snap_dev, draws=None):
        self.env, self.dev, self.snap_dev = env, dev, snap_dev
        self.events = []
        self.acts, self.obs = [], []
        self.arrivals, self.departures, self.drops = [], [], []
        self.draws = draws            # object with .taken: list of draws consumed in the current burst
        self.monitors = []            # (monitor, included flag, samples seen)
        self.stamps = 0
        dev.out = Recorder(self)
        self._orig_put = dev.put
        dev.put = self._tapped_put
        self.held = {}
        self.lost = []                # (instant, packet) discarded by the server (wire loss)
        self._in_hand = None

    # -- taps ---------------------------------------------------------------------------------
    def _tapped_put(self, packet):
        d0 = getattr(self.dev, 'packets_dropped', 0)
        if self.draws is not None:
            self.draws.taken = []
        self._orig_put(packet)
        dropped = getattr(self.dev, 'packets_dropped', 0) > d0
        eid = getattr(self.dev, 'element_id', None)
        try:
            if eid in packet.perhop_time and packet.perhop_time[eid] == self.env.now:
                self.stamps += 1
        except TypeError:
            pass
        draw = self.draws.taken[0] if self.draws is not None and self.draws.taken else 0.0
        self.acts.append(f'put {packet.packet_id} {packet.flow_id} {packet.size} {bits(draw)}')
        self.obs.append(f'put {"drop" if dropped else "acc"} | {self.snap()}')
        (self.drops if dropped else self.arrivals).append((self.env.now, packet))

    def snap(self, now=None):
        items = ','.join(str(p.packet_id) for p in self.dev.store.items)
        now = self.env.now if now is None else now
        return f'it={items} ph={phase_of(self.dev.action)} {self.snap_dev(self)} now={bits(now)}'

    def add_monitor(self, mon, included):
        self.monitors.append([mon, included, 0])

    # -- main loop ----------------------------------------------------------------------------
    def before_step(self):
        """to be called before every `env.step()` (several FifoRuns may share one environment)"""
        env, dev = self.env, self.dev
        t = env.peek()
        if t > env.now:
            # the clock advance itself changes nothing of the device
            self.acts.append(f'tick {bits(t)}')
            self.obs.append(f'tick - | {self.snap(now=t)}')
        self._tgt0 = dev.action.target
        self._ph0 = phase_of(dev.action)
        self._trig0 = getattr(self._tgt0, 'triggered', False)
        self.events.clear()
        if self.draws is not None:
            self.draws.taken = []

    def after_step(self):
        dev = self.dev
        tgt0, ph0, trig0 = self._tgt0, self._ph0, self._trig0
        tgt1 = dev.action.target
        label = None
        if tgt1 is not tgt0:
            label = {'I': 'init', 'H': 'resume', 'T': 'fire'}.get(ph0, '?' + ph0)
        elif not trig0 and getattr(tgt1, 'triggered', False):
            label = 'handoff'
        outs = [e for e in self.events if e[0] == 'out']
        if label is not None:
            if label == 'resume':
                # the packet the store handed to the server: the value of the get event it resumed from
                self._in_hand = tgt0.value
                x = y = 0.0
                if self.draws is not None:
                    tk = self.draws.taken
                    x = tk[0] if len(tk) > 0 else 0.0
                    y = tk[1] if len(tk) > 1 else 0.0
                self.acts.append(f'resume {bits(x)} {bits(y)}')
            else:
                self.acts.append(label)
            if outs:
                p = outs[0][1]
                o = f'dep {p.packet_id} c{COLORS.get(p.color, 9)}'
                self._in_hand = None
            elif label in ('resume', 'fire') and phase_of(dev.action) in ('W', 'H') and self._in_hand is not None:
                # the server is back at `store.get()` without having forwarded the packet it held: discarded
                p = self._in_hand
                o = f'lost {p.packet_id}'
                self.lost.append((self.env.now, p))
                self._in_hand = None
            else:
                o = '-'
            self.obs.append(f'{label} {o} | {self.snap()}')
        elif outs:
            self.obs.append(f'UNLABELLED-OUT {outs[0][1].packet_id}')
            self.acts.append('fire')
        for m in self.monitors:
            n = len(m[0].sizes)
            while m[2] < n:
                self.acts.append(f'sample {1 if m[1] else 0}')
                self.obs.append(f'sample {m[0].sizes[m[2]]} {m[0].sizes_byte[m[2]]}')
                m[2] += 1

    def run(self, max_steps=20000):
        env = self.env
        steps = 0
        while env.peek() < INF and steps < max_steps:
            steps += 1
            self.before_step()
            with quiet():
                env.step()
            self.after_step()
        return self


def run_many(env, runs, max_steps=20000):
    """several devices on one environment (Cable): every kernel step is offered to every FifoRun"""
    steps = 0
    while env.peek() < INF and steps < max_steps:
        steps += 1
        for r in runs:
            r.before_step()
        with quiet():
            env.step()
        for r in runs:
            r.after_step()
    return runs


def make_packet(env, pid, flow, size, src='src'):
    return Packet(env.now, size, pid, src=src, flow_id=flow)


def source(env, run, script, counter, flows):
    """a source process: script = [(delay, [(flow, size), …]), …]"""
    for delay, burst in script:
        yield env.timeout(delay)
        for flow, size in burst:
            counter[0] += 1
            run.dev.put(make_packet(env, counter[0], flow, size))
