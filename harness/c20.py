"""C20 - real-time pacing never runs ahead of the wall clock and alters no result.

`onl.sim.rt.monotonic` and `onl.sim.rt.sleep` are replaced (module attributes, inside this process only, restored
afterwards) by a scripted virtual clock.  The same generated kernel program runs on `Environment` and on
`RealtimeEnvironment`:

* oracle 1: the observation traces are identical (same events, same values, same simulated instants);
* oracle 2 (from the recorded clock, by the rules of the property): nothing is processed before the wall clock
  reaches `real_start + (t - initial_time) * factor` (`real_start` re-based by `sync()`), and `step()` raises
  'Simulation too slow' exactly when strict and the first look at the clock is more than `factor` past due;
* correspondence: every value `monotonic()` returned is replayed through the Lean model `Rt.rtStep` wrapped around
  the kernel model K (driver mode `rt`): due instants, number and arguments of the `sleep` calls, the reading at
  which the loop was left, raise/no raise, and the kernel observations must agree bit for bit, and the model must
  consume exactly the readings the implementation took.
"""
import collections, json, math, random, re

import onl.sim.rt as rtmod
from onl.sim import Environment, RealtimeEnvironment
from onl.sim import (Container, Resource, PriorityResource, PreemptiveResource, Store, PriorityStore, FilterStore)
from onl.sim.core import EmptySchedule
from harness import kgen, kscript
from harness.kscript import Case
from vlib.util import bits, run_driver, split_cases, quiet

ASSUMPTIONS = [
    'the (virtual) wall clock is non-decreasing; sleep may return early or late; processes may burn any amount of wall time',
    'the sleep loop terminates only if the clock eventually reaches the due instant: theorems are partial-correctness '
    'statements over finite reading lists (a progress lemma gives the termination condition)',
    'delays are finite numbers (an event due at simulated time inf is outside the quantifier)',
    'time is exact rational in the theorems; the executable model runs at IEEE double and is compared bit for bit',
    'the kernel underneath is the kernel model K (C01-C07 correspondence)',
]

CLOCK_BUDGET = 20000
STEP_CAP = 400
FACTORS = [1, 1, 0.5, 0.5, 2, 0.25, 0.125, 4]
INITIALS = [0, 0, 0, 1, 2.5, 4, 0.75]


class ClockBudget(Exception):
    pass


class VClock:
    """the scripted wall clock"""

    def __init__(self, case):
        self.t = case['clock']['start']
        self.steps = case['clock']['steps']
        self.sync_burn = list(case['clock']['sync'])
        self.env = None
        self.readings = []          # every value monotonic() returned
        self.sleeps = []            # (argument, virtual time after the sleep)
        self.calls = 0
        self.cur = None             # behaviour of the current step
        self.k = 0                  # readings made in the current step
        self.ks = 0

    def begin_step(self, idx):
        self.cur = self.steps[idx] if idx < len(self.steps) else {}
        self.k = 0
        self.ks = 0

    def begin_other(self):
        self.cur = None

    def due(self):
        e = self.env
        return e.real_start + (e.peek() - e.env_start) * e.factor

    def apply(self, tok):
        kind = tok[0]
        if kind == 'b':
            self.t = self.t + tok[1]
        elif kind == 'eq':          # lag exactly equal to factor
            self.t = max(self.t, self.due() + self.env.factor)
        elif kind == 'gt':          # the smallest lag above factor
            self.t = max(self.t, math.nextafter(self.due() + self.env.factor, math.inf))
        elif kind == 'due':         # exactly on time
            self.t = max(self.t, self.due())
        elif kind == 'lt':          # just before due
            self.t = max(self.t, math.nextafter(self.due(), -math.inf))

    def monotonic(self):
        self.calls += 1
        if self.calls > CLOCK_BUDGET:
            raise ClockBudget()
        if self.cur is None:
            if self.sync_burn:
                self.t = self.t + self.sync_burn.pop(0)
        else:
            if self.k == 0:
                tok = self.cur.get('first')
            else:
                rest = self.cur.get('rest', [])
                tok = rest[self.k - 1] if self.k - 1 < len(rest) else None
            self.k += 1
            if tok:
                self.apply(tok)
        self.readings.append(self.t)
        return self.t

    def sleep(self, d):
        self.calls += 1
        if self.calls > CLOCK_BUDGET:
            raise ClockBudget()
        sl = (self.cur or {}).get('sleeps', [])
        tok = sl[self.ks] if self.ks < len(sl) else None
        self.ks += 1
        before = self.t
        if tok is None:
            self.t = self.t + d
        elif tok[0] == 'x':         # returns after d * ratio (early < 1 < late)
            self.t = self.t + d * tok[1]
        elif tok[0] == '+':         # oversleeps by a fixed amount
            self.t = self.t + d + tok[1]
        elif tok[0] == 'due':       # wakes exactly at the due instant
            self.t = max(self.t, self.due())
        elif tok[0] == '0':         # returns at once (interrupted)
            pass
        if self.t < before:
            self.t = before
        self.sleeps.append((d, self.t))


class EnvRunner(kscript.Runner):
    """kscript.Runner on a given environment"""

    def __init__(self, case, env):
        super().__init__(case, env)


# ------------------------------------------------------------------------------------------------
# generation

def gen_tok_first(rng, factor, strict):
    x = rng.random()
    if x < 0.30:
        return None
    if x < 0.55:
        return ['b', rng.choice([0.0625, 0.125, 0.25, 0.5]) * factor]
    if x < 0.65:
        return ['b', rng.uniform(0, 1.2) * factor]
    if x < 0.72:
        return ['b', rng.choice([1, 1.5, 2, 3]) * factor + rng.choice([0, 0.25])]      # a process that burns a lot
    if x < 0.82:
        return ['eq']
    if x < 0.88:
        return ['gt']
    if x < 0.94:
        return ['due']
    return ['lt']


def gen_tok_sleep(rng):
    x = rng.random()
    if x < 0.35:
        return None
    if x < 0.55:
        return ['x', rng.choice([0.25, 0.5, 0.75, 0.9375])]
    if x < 0.65:
        return ['x', rng.uniform(0.05, 0.999)]
    if x < 0.8:
        return ['x', rng.choice([1.0625, 1.25, 1.5, 2])]
    if x < 0.88:
        return ['+', rng.choice([0.015625, 0.125, 0.5, 1.25])]
    if x < 0.95:
        return ['due']
    return ['0']


def gen_case(rng, cid):
    prof = rng.choice(['time', 'time', 'time', 'intr', 'outcome', 'cond', 'res', 'store'])
    if prof in kgen.WEIGHTS:
        kc = kgen.gen_generic(rng, cid, prof, malformed=rng.random() < 0.1)
    elif prof == 'res':
        kc = kgen.gen_resource(rng, cid)
    else:
        kc = kgen.gen_store(rng, cid, malformed=rng.random() < 0.1)
    kc.mode = 'step'
    x = rng.random()
    factor = rng.choice(FACTORS) if x < 0.8 else round(rng.uniform(0.05, 3), rng.choice([1, 2, 16]))
    x = rng.random()
    initial = rng.choice(INITIALS) if x < 0.85 else round(rng.uniform(0, 9), rng.choice([1, 16]))
    strict = rng.random() < 0.6
    steps = []
    for _ in range(rng.randint(0, 40)):
        st = {}
        f = gen_tok_first(rng, factor, strict)
        if f:
            st['first'] = f
        if rng.random() < 0.4:
            st['rest'] = [(['b', rng.choice([0, 0.03125, 0.25]) * factor] if rng.random() < 0.7 else None)
                          for _ in range(rng.randint(1, 3))]
        if rng.random() < 0.7:
            st['sleeps'] = [gen_tok_sleep(rng) for _ in range(rng.randint(1, 4))]
        steps.append(st)
    ops = []
    for _ in range(rng.randint(0, 40)):
        ops.append('y' if rng.random() < 0.12 else 's')
    if rng.random() < 0.3:
        ops.insert(0, 'y')
    start = rng.choice([0, 100, 1000.5, 12345.678, rng.uniform(0, 1e5)])
    return {'cid': str(cid), 'kernel': kc.to_json(), 'initial': initial, 'factor': factor, 'strict': strict,
            'ops': ops, 'sync_after_slow': rng.random() < 0.5,
            'clock': {'start': start, 'create_burn': rng.choice([0, 0, 0.5, 3]) * factor, 'steps': steps,
                      'sync': [rng.choice([0, 0.125, 1, 2.5]) * factor for _ in range(8)]}}


# ------------------------------------------------------------------------------------------------
# running

TOO_SLOW = re.compile(r'^Simulation too slow for real time \((-?[0-9.]+|inf|nan)s\)\.$')


def run_rt(case):
    """run the case on RealtimeEnvironment under the virtual clock"""
    kc = Case.from_json(case['kernel'])
    kc.cid = case['cid']
    clk = VClock(case)
    old = (rtmod.monotonic, rtmod.sleep)
    rtmod.monotonic, rtmod.sleep = clk.monotonic, clk.sleep
    rec = {'steps': [], 'ops': [], 'clock': clk, 'crash': None}
    try:
        clk.begin_other()
        clk.t = clk.t + case['clock']['create_burn']
        env = RealtimeEnvironment(initial_time=case['initial'], factor=case['factor'], strict=case['strict'])
        clk.env = env
        base = clk.readings[-1] if clk.readings else None       # the property's real_start: the reading taken at creation
        r = EnvRunner(kc, env)
        r.start()
        lines = r.lines
        plan = list(case['ops'])
        i = 0
        nstep = 0
        slow_run = 0
        forced = []
        while nstep < STEP_CAP:
            if forced:
                op = forced.pop(0)
            else:
                op = plan[i] if i < len(plan) else 's'
                i += 1
            if op == 'y':
                clk.begin_other()
                n0 = len(clk.readings)
                env.sync()
                rec['ops'].append('y')
                if len(clk.readings) > n0:
                    base = clk.readings[-1]
                lines.append(f'Y {bits(env.real_start)}')
                continue
            rec['ops'].append('s')
            clk.begin_step(nstep)
            nstep += 1
            n0, m0, mark = len(clk.readings), len(clk.sleeps), len(lines)
            wall0 = clk.t
            t = env.peek()
            st = {'t': t, 'base': base, 'wall0': wall0, 'outcome': None}
            rec['steps'].append(st)
            due = (env.real_start + (t - env.env_start) * env.factor) if t != math.inf else None
            try:
                env.step()
                st['outcome'] = 'processed'
            except EmptySchedule:
                st['outcome'] = 'empty'
            except ClockBudget:
                st['outcome'] = 'clock-budget'
            except RuntimeError as x:
                m = TOO_SLOW.match(str(x))
                if m:
                    st['outcome'] = 'too-slow'
                    st['msg'] = m.group(1)
                else:
                    st['outcome'] = 'crash'
                    st['exc'] = x
            except BaseException as x:      # noqa
                st['outcome'] = 'crash'
                st['exc'] = x
            st['readings'] = clk.readings[n0:]
            st['sleeps'] = clk.sleeps[m0:]
            st['wall'] = clk.t
            oc = st['outcome']
            if oc == 'empty':
                lines.append('EMPTY')
                break
            if oc == 'clock-budget':
                lines.append('CLOCK-BUDGET')
                break
            if oc == 'too-slow':
                rd = st['readings']
                delta = (rd[1] - due) if len(rd) >= 2 else None
                ok = delta is not None and f'{delta:.3f}' == st['msg']
                lines.append(f'TOOSLOW {bits(delta)}' if ok else f'TOOSLOW msg={st["msg"]}')
                slow_run += 1
                if case.get('sync_after_slow'):
                    forced.append('y')          # what a user would do: re-base and go on
                elif slow_run >= 2:
                    break                       # without sync() a strict run that fell behind stays behind
                continue
            slow_run = 0
            rd = st['readings']
            dline = (f'D {bits(due)} n={len(st["sleeps"])} ' + ''.join(f'{bits(a)} ' for a, _ in st['sleeps']) +
                     (f'last={bits(rd[-1])}' if rd else 'last=none'))
            lines.insert(mark, dline)
            if oc == 'crash':
                lines.append(f'X {r.fmt_exc(st["exc"])} @{r.now()}')
                rec['crash'] = st['exc']
                break
            r.snap()
        lines.append('U 0')
        lines.append(f'F @{r.now()}')
        rec['lines'] = lines
        rec['kernel_steps'] = sum(1 for s in rec['steps'] if s['outcome'] in ('processed', 'crash'))
        rec['ended_empty'] = bool(rec['steps']) and rec['steps'][-1]['outcome'] == 'empty'
    finally:
        rtmod.monotonic, rtmod.sleep = old
    return rec


def run_plain(case, nsteps, probe_empty):
    """the same program on Environment: `nsteps` calls of step()"""
    kc = Case.from_json(case['kernel'])
    env = Environment(case['initial'])
    r = EnvRunner(kc, env)
    r.start()
    for _ in range(nsteps):
        try:
            env.step()
        except EmptySchedule:
            r.lines.append('EMPTY')
            break
        except BaseException as x:      # noqa
            r.lines.append(f'X {r.fmt_exc(x)} @{r.now()}')
            break
        r.snap()
    else:
        if probe_empty:
            try:
                env.step()
                r.lines.append('NOT-EMPTY')
            except EmptySchedule:
                r.lines.append('EMPTY')
            except BaseException:       # noqa
                r.lines.append('NOT-EMPTY')
    r.lines.append(f'F @{r.now()}')
    return r.lines


def model_text(case, rec):
    kc = Case.from_json(case['kernel'])
    kc.cid = case['cid']
    body = kc.text().split('\n')
    out = [f'CASE {case["cid"]}'] + body[1:-1]
    out.append(f'RT {bits(case["initial"])} {bits(case["factor"])} {1 if case["strict"] else 0}')
    rd = rec['clock'].readings
    for i in range(0, len(rd), 200):
        out.append('CLOCK ' + ' '.join(str(bits(x)) for x in rd[i:i + 200]))
    ops = rec['ops']
    for i in range(0, len(ops), 200):
        out.append('OPS ' + ' '.join(ops[i:i + 200]))
    out.append('END')
    return '\n'.join(out)


# ------------------------------------------------------------------------------------------------
# oracle 2: the pacing rules, from the recorded clock

def oracle_pacing(case, rec, stats):
    fails = []
    f, ini, strict = case['factor'], case['initial'], case['strict']
    for k, st in enumerate(rec['steps']):
        oc = st['outcome']
        if oc == 'clock-budget':
            fails.append({'what': f'step {k}: the sleep loop did not terminate within {CLOCK_BUDGET} clock calls',
                          'signature': 'sleep-loop-diverges'})
            continue
        if oc == 'empty' or st['t'] == math.inf:
            continue
        due = st['base'] + (st['t'] - ini) * f
        first = st['readings'][0] if st['readings'] else st['wall0']
        lag = first - due
        want_raise = strict and lag > f
        if lag == f:
            stats['lag==factor'] += 1
        elif lag > f:
            stats['lag>factor'] += 1
        elif lag > 0:
            stats['late-within-factor'] += 1
        elif lag == 0:
            stats['exactly-on-time'] += 1
        else:
            stats['early:must-sleep'] += 1
        if oc == 'too-slow':
            stats['raised-too-slow'] += 1
            if not strict:
                fails.append({'what': f'step {k}: "Simulation too slow" raised in non-strict mode (lag {lag})',
                              'signature': 'too-slow-in-non-strict'})
            elif not want_raise:
                fails.append({'what': f'step {k}: "Simulation too slow" raised although the clock ({first}) is only '
                                      f'{lag} past due {due}, factor {f}', 'signature': 'spurious-too-slow'})
            continue
        if want_raise:
            fails.append({'what': f'step {k}: strict mode, clock {first} is {lag} > factor {f} past due {due}, '
                                  f'but step() did not raise', 'signature': 'missing-too-slow'})
        if oc in ('processed', 'crash'):
            if st['wall'] < due:
                fails.append({'what': f'step {k}: occurrence due at simulated {st["t"]} was processed at wall clock '
                                      f'{st["wall"]} < {due} = real_start {st["base"]} + ({st["t"]} - {ini}) * {f}',
                              'signature': 'processed-early'})
            stats['sleep-calls'] += len(st['sleeps'])
            stats['sleep-returned-early'] += sum(1 for a, after in st['sleeps'] if after < due)
            stats['sleep-returned-late'] += sum(1 for a, after in st['sleeps'] if after > due)
    return fails


# ------------------------------------------------------------------------------------------------

def first_diff(a, b):
    for i in range(max(len(a), len(b or []))):
        x = a[i] if i < len(a) else '<end>'
        y = b[i] if b and i < len(b) else '<end>'
        if x != y:
            return i, x, y
    return None


RT_ONLY = ('D ', 'Y ', 'TOOSLOW', 'U ', 'CLOCK-BUDGET')


def run(ctx):
    rng = random.Random(f'C20-{ctx.seed}')
    n = 3000 if ctx.quick else 60000
    if ctx.replay:
        j = json.load(open(ctx.replay))
        cases = [j['case']] if j.get('case') else []
        cases += [d['case'] for d in (j.get('broken_correspondence') or []) if d.get('case')]
    else:
        cases = [gen_case(rng, i) for i in range(n)]
    for i, c in enumerate(cases):
        c['cid'] = str(i)
    disagreements, oracle_failures = [], []
    hist = collections.Counter()
    distinct, samples = set(), []
    tot = {'nontriv': 0, 'lines': 0, 'readings': 0}
    saved = (rtmod.monotonic, rtmod.sleep)
    CH = 500                                    # bounded memory: run, replay and compare chunk by chunk
    for lo in range(0, len(cases), CH):
        chunk = cases[lo:lo + CH]
        recs, texts = [], []
        try:
            with quiet():
                for c in chunk:
                    rec = run_rt(c)
                    rec['plain'] = run_plain(c, rec['kernel_steps'], rec['ended_empty'])
                    recs.append(rec)
                    texts.append(model_text(c, rec))
        finally:
            rtmod.monotonic, rtmod.sleep = saved
        model = split_cases(run_driver('rt', '\n'.join(texts) + '\n'))
        compare_chunk(chunk, recs, model, disagreements, oracle_failures, hist, distinct, samples, tot)
    cov = {
        'evaluations': len(cases),
        'distinct_nontrivial': tot['nontriv'],
        'rule': 'seeded kernel programs x clock scripts; non-trivial = distinct case in which at some step the clock lags by '
                'exactly or more than factor, a sleep returns early or late, or sync() is called',
        'samples': samples,
        'runs_validated_against_model': len(cases) - len(disagreements),
        'trace_lines_compared': tot['lines'],
        'clock_readings_replayed': tot['readings'],
        'operation_histogram': dict(sorted(hist.items())),
    }
    return {'coverage': cov, 'disagreements': disagreements, 'oracle_failures': oracle_failures}


def compare_chunk(cases, recs, model, disagreements, oracle_failures, hist, distinct, samples, tot):
    for c, rec in zip(cases, recs):
        a, b = rec['lines'], model.get(c['cid'])
        tot['lines'] += len(a)
        tot['readings'] += len(rec['clock'].readings)
        st = collections.Counter()
        fails = oracle_pacing(c, rec, st)
        # oracle 1: same transitions as the plain environment
        rt_kernel = [l for l in a if not l.startswith(RT_ONLY)]
        if rt_kernel != rec['plain']:
            d = first_diff(rt_kernel, rec['plain'])
            fails.append({'what': f'RealtimeEnvironment and Environment traces differ at line {d[0]}: rt `{d[1]}` plain `{d[2]}`',
                          'signature': 'rt-trace-differs'})
        hist.update(st)
        hist['strict' if c['strict'] else 'non-strict'] += 1
        hist['ops:sync'] += rec['ops'].count('y')
        hist['ops:step'] += rec['ops'].count('s')
        hist['initial_time!=0'] += 1 if c['initial'] != 0 else 0
        hist['kernel-crash'] += 1 if rec['crash'] is not None else 0
        for s in rec['steps']:
            hist['step:' + str(s['outcome'])] += 1
        key = json.dumps({k: v for k, v in c.items() if k != 'cid'}, sort_keys=True, default=str)
        nt = (st['lag==factor'] + st['lag>factor'] + st['sleep-returned-early'] + st['sleep-returned-late'] > 0) or \
            rec['ops'].count('y') > 0
        if nt and key not in distinct:
            tot['nontriv'] += 1
        distinct.add(key)
        if a != b:
            d = first_diff(a, b)
            keep = len(disagreements) < 25
            disagreements.append({'case': c, 'detail': f'line {d[0]}: impl `{d[1]}` model `{d[2]}`' if d else 'length',
                                  'impl': a[:300] if keep else [], 'model': (b or [])[:300] if keep else []})
        seen_sig = set()
        for f in fails:
            if f['signature'] in seen_sig:
                continue                       # one failure per signature and case
            seen_sig.add(f['signature'])
            f['case'] = c
            if len(oracle_failures) < 25:      # full traces only for the first few (the framework writes 5 replays)
                f['trace'] = {'rt': a[:300], 'plain': rec['plain'][:300],
                              'steps': [{k: (str(v) if k == 'exc' else v) for k, v in s.items()} for s in rec['steps'][:80]]}
            oracle_failures.append(f)
        if len(samples) < 2 and nt and 8 < len(a) < 60:
            samples.append({'case': c, 'rt_trace': a[:60]})
