"""C20 - real-time pacing never runs ahead of the wall clock and alters no result.

`onl.sim.rt.monotonic` and `onl.sim.rt.sleep` are replaced (module attributes, inside this process only, restored
afterwards) by a scripted virtual clock.  The same generated kernel program runs on `Environment` and on
`RealtimeEnvironment`:

* oracle 1: the observation traces are identical (same events, same values, same simulated instants);
* oracle 2 (from the recorded clock, by the rules of the property): nothing is processed before the wall clock
  reaches `real_start + (t - initial_time) * factor` (`real_start` re-based by `sync()`), and `step()` raises
  'Simulation too slow' exactly when strict and the first look at the clock is more than `factor` past due;
* correspondence: every value `monotonic()` returned is replayed through the Lean model `Rt.rtStep` wrapped around
  the kernel model K (driver mode `rt`): due instants, number and arguments of the `sleep` calls, the reading at
  which the loop was left, raise/no raise, and the kernel observations must agree bit for bit, and the model must
  consume exactly the readings the implementation took.
"""
import collections, json, math, random, re

import onl.sim.rt as rtmod
from onl.sim import Environment, RealtimeEnvironment
from onl.sim import (Container, Resource, PriorityResource, PreemptiveResource, Store, PriorityStore, FilterStore)
from onl.sim.core import EmptySchedule
from harness import kgen, kscript
from harness.kscript import Case
from vlib.util import bits, run_driver, split_cases, quiet

ASSUMPTIONS = [
    'the (virtual) wall clock is non-decreasing; sleep may return early or late; processes may burn any amount of wall time',
    'the sleep loop terminates only if the clock eventually reaches the due instant: theorems are partial-correctness '
    'statements over finite reading lists (a progress lemma gives the termination condition)',
    'delays are finite numbers (an event due at simulated time inf is outside the quantifier)',
    'time is exact rational in the theorems; the executable model runs at IEEE double and is compared bit for bit',
    'the kernel underneath is the kernel model K (C01-C07 correspondence)',
]

BRIDGES = ['C20.rt_step_generated_eq_model', 'C20.rt_sync_generated_eq_model', 'C20.rt_init_generated_eq_model']
_PREP = {}


def prepare(ctx):
    """regenerate lean/OnlVerif/Generated/Rt20.lean from the source under $ONL_REPO (a translator failure or a bridge
    theorem that no longer compiles is a broken obligation)"""
    from py2lean import translate, more
    _PREP['translated'] = more.TRANSLATED['Rt20']
    _PREP['rewritten'] = translate.regenerate_all(only=('Rt20',))
    _PREP['diff_vs_pinned'] = translate.diff_vs_pinned('Rt20')


CLOCK_BUDGET = 20000
STEP_CAP = 400
FACTORS = [1, 1, 0.5, 0.5, 2, 0.25, 0.125, 4, 0.001, 0.0005]
STALLS = [1200, 2500, 6000, 50000]      # lags of thousands of time steps ("processes that consume arbitrary amounts of wall time")
INITIALS = [0, 0, 0, 1, 2.5, 4, 0.75]


class ClockBudget(Exception):
    pass


class VClock:
    """the scripted wall clock"""

    def __init__(self, case):
        self.t = case['clock']['start']
        self.steps = case['clock']['steps']
        self.sync_burn = list(case['clock']['sync'])
        self.env = None
        self.readings = []          # every value monotonic() returned
        self.sleeps = []            # (argument, virtual time after the sleep)
        self.calls = 0
        self.cur = None             # behaviour of the current step
        self.k = 0                  # readings made in the current step
        self.ks = 0
        self.guest = False          # True while ANOTHER RealtimeEnvironment of this process is at work: the wall clock moves on, nothing is recorded
        self.guest_calls = 0

    def begin_step(self, idx):
        self.cur = self.steps[idx] if idx < len(self.steps) else {}
        self.k = 0
        self.ks = 0

    def begin_other(self):
        self.cur = None

    def due(self):
        e = self.env
        return e.real_start + (e.peek() - e.env_start) * e.factor

    def apply(self, tok):
        kind = tok[0]
        if kind == 'b':
            self.t = self.t + tok[1]
        elif kind == 'eq':          # lag exactly equal to factor
            self.t = max(self.t, self.due() + self.env.factor)
        elif kind == 'gt':          # the smallest lag above factor
            self.t = max(self.t, math.nextafter(self.due() + self.env.factor, math.inf))
        elif kind == 'due':         # exactly on time
            self.t = max(self.t, self.due())
        elif kind == 'lt':          # just before due
            self.t = max(self.t, math.nextafter(self.due(), -math.inf))

    def monotonic(self):
        if self.guest:
            self.guest_calls += 1
            if self.guest_calls > CLOCK_BUDGET:
                raise ClockBudget()
            return self.t
        self.calls += 1
        if self.calls > CLOCK_BUDGET:
            raise ClockBudget()
        if self.cur is None:
            if self.sync_burn:
                self.t = self.t + self.sync_burn.pop(0)
        else:
            if self.k == 0:
                tok = self.cur.get('first')
            else:
                rest = self.cur.get('rest', [])
                tok = rest[self.k - 1] if self.k - 1 < len(rest) else None
            self.k += 1
            if tok:
                self.apply(tok)
        self.readings.append(self.t)
        return self.t

    def sleep(self, d):
        if self.guest:
            self.guest_calls += 1
            if self.guest_calls > CLOCK_BUDGET:
                raise ClockBudget()
            if d > 0:
                self.t = self.t + d
            return
        self.calls += 1
        if self.calls > CLOCK_BUDGET:
            raise ClockBudget()
        sl = (self.cur or {}).get('sleeps', [])
        tok = sl[self.ks] if self.ks < len(sl) else None
        self.ks += 1
        before = self.t
        if tok is None:
            self.t = self.t + d
        elif tok[0] == 'x':         # returns after d * ratio (early < 1 < late)
            self.t = self.t + d * tok[1]
        elif tok[0] == '+':         # oversleeps by a fixed amount
            self.t = self.t + d + tok[1]
        elif tok[0] == 'due':       # wakes exactly at the due instant
            self.t = max(self.t, self.due())
        elif tok[0] == '0':         # returns at once (interrupted)
            pass
        if self.t < before:
            self.t = before
        self.sleeps.append((d, self.t))


ASSUMPTIONS.append('rival environments: in about 40% of the cases a second RealtimeEnvironment (another factor, mostly the other strict setting, another initial_time, '
                   'a small program of its own) is constructed in the same process under the same patched clock - before the environment under test '
                   '(and stepped a few times first) or after it - and is stepped / re-synchronised between the operations of the environment under test; '
                   'the wall time it sleeps away is wall time that passes (an input of the model like any other lag); its own pacing is not judged')


class Rival:
    """a second RealtimeEnvironment of the same process: "real_start" (re-based by sync()), factor, strict and initial_time
    in the property are those of ONE environment - the one whose step() is being paced"""

    def __init__(self, clk, spec):
        self.clk, self.spec, self.env, self.k = clk, spec, None, 0

    def _guest(self, fn):
        self.clk.guest = True
        try:
            fn()
        except (EmptySchedule, RuntimeError, ClockBudget):
            self.env = None if self.clk.guest_calls > CLOCK_BUDGET else self.env
                                     # nothing left to do / its own "too slow" (/ its own sleep loop does not end): not the business
                                     # of the environment under test
        finally:
            self.clk.guest = False

    def build(self):
        sp = self.spec
        def mk():
            self.env = RealtimeEnvironment(initial_time=sp['initial'], factor=sp['factor'], strict=sp['strict'])
            def prog(env):
                for d in sp['delays']:
                    yield env.timeout(d)
            self.env.process(prog(self.env))
        self._guest(mk)

    def act(self):
        if self.env is None:
            return
        a = self.spec['acts'][self.k % len(self.spec['acts'])]
        self.k += 1
        self._guest(self.env.sync if a == 'y' else self.env.step)


def gen_rival(rng, factor, strict):
    rf = rng.choice([factor * 2, factor / 2, factor * 0.25, factor * 8, 1, 0.001])
    if rf == factor:
        rf = factor * 4
    # its steps sleep away at most a fraction of one time step of the environment under test
    return {'when': rng.choice(['before', 'before', 'after']), 'factor': rf, 'strict': (not strict) if rng.random() < 0.7 else strict,
            'initial': rng.choice(INITIALS + [10, 100.5]), 'delays': [rng.choice([0, 0.0625, 0.125, 0.25]) * factor / rf for _ in range(rng.randint(2, 12))],
            'pre': rng.choice([0, 1, 2, 3]), 'acts': [rng.choice(['s', 's', 's', 'y']) for _ in range(rng.randint(1, 5))],
            'at': sorted(rng.sample(range(0, 30), rng.randint(1, 8)))}


class EnvRunner(kscript.Runner):
    """kscript.Runner on a given environment"""

    def __init__(self, case, env):
        super().__init__(case, env)


# ------------------------------------------------------------------------------------------------
# generation

def gen_tok_first(rng, factor, strict):
    x = rng.random()
    if x < (0.006 if strict else 0.03):
        # one heavy computation: the run falls thousands of time steps behind ("never raises this in non-strict mode" has no bound
        # on the lag; rarer in strict mode, where the run ends after the second refusal)
        return ['b', rng.choice(STALLS) * factor + rng.choice([0, 0.25, 7])]
    if x < 0.30:
        return None
    if x < 0.55:
        return ['b', rng.choice([0.0625, 0.125, 0.25, 0.5]) * factor]
    if x < 0.65:
        return ['b', rng.uniform(0, 1.2) * factor]
    if x < 0.72:
        return ['b', rng.choice([1, 1.5, 2, 3]) * factor + rng.choice([0, 0.25])]      # a process that burns a lot
    if x < 0.82:
        return ['eq']
    if x < 0.88:
        return ['gt']
    if x < 0.94:
        return ['due']
    return ['lt']


def gen_tok_sleep(rng):
    x = rng.random()
    if x < 0.35:
        return None
    if x < 0.55:
        return ['x', rng.choice([0.25, 0.5, 0.75, 0.9375])]
    if x < 0.65:
        return ['x', rng.uniform(0.05, 0.999)]
    if x < 0.8:
        return ['x', rng.choice([1.0625, 1.25, 1.5, 2])]
    if x < 0.88:
        return ['+', rng.choice([0.015625, 0.125, 0.5, 1.25])]
    if x < 0.95:
        return ['due']
    return ['0']


def gen_case(rng, cid):
    prof = rng.choice(['time', 'time', 'time', 'intr', 'outcome', 'cond', 'res', 'store'])
    if prof in kgen.WEIGHTS:
        kc = kgen.gen_generic(rng, cid, prof, malformed=rng.random() < 0.1)
    elif prof == 'res':
        kc = kgen.gen_resource(rng, cid)
    else:
        kc = kgen.gen_store(rng, cid, malformed=rng.random() < 0.1)
    kc.mode = 'step'
    x = rng.random()
    factor = rng.choice(FACTORS) if x < 0.8 else round(rng.uniform(0.05, 3), rng.choice([1, 2, 16]))
    x = rng.random()
    initial = rng.choice(INITIALS) if x < 0.85 else round(rng.uniform(0, 9), rng.choice([1, 16]))
    strict = rng.random() < 0.6
    steps = []
    for _ in range(rng.randint(0, 40)):
        st = {}
        f = gen_tok_first(rng, factor, strict)
        if f:
            st['first'] = f
        if rng.random() < 0.4:
            st['rest'] = [(['b', rng.choice([0, 0.03125, 0.25]) * factor] if rng.random() < 0.7 else None)
                          for _ in range(rng.randint(1, 3))]
        if rng.random() < 0.7:
            st['sleeps'] = [gen_tok_sleep(rng) for _ in range(rng.randint(1, 4))]
        steps.append(st)
    ops = []
    for _ in range(rng.randint(0, 40)):
        ops.append('y' if rng.random() < 0.12 else 's')
    if rng.random() < 0.3:
        ops.insert(0, 'y')
    start = rng.choice([0, 100, 1000.5, 12345.678, rng.uniform(0, 1e5)])
    c = {'cid': str(cid), 'kernel': kc.to_json(), 'initial': initial, 'factor': factor, 'strict': strict,
         'ops': ops, 'sync_after_slow': rng.random() < 0.5,
         'clock': {'start': start, 'create_burn': rng.choice([0, 0, 0.5, 3]) * factor, 'steps': steps,
                   'sync': [rng.choice([0, 0.125, 1, 2.5]) * factor for _ in range(8)]}}
    if rng.random() < 0.4:
        c['rival'] = gen_rival(rng, factor, strict)
    return c


# ------------------------------------------------------------------------------------------------
# running

TOO_SLOW = re.compile(r'^Simulation too slow for real time \((-?[0-9.]+|inf|nan)s\)\.$')


def run_rt(case):
    """run the case on RealtimeEnvironment under the virtual clock"""
    kc = Case.from_json(case['kernel'])
    kc.cid = case['cid']
    clk = VClock(case)
    old = (rtmod.monotonic, rtmod.sleep)
    rtmod.monotonic, rtmod.sleep = clk.monotonic, clk.sleep
    rec = {'steps': [], 'ops': [], 'clock': clk, 'crash': None}
    try:
        clk.begin_other()
        clk.t = clk.t + case['clock']['create_burn']
        rv = Rival(clk, case['rival']) if case.get('rival') else None
        if rv and case['rival']['when'] == 'before':
            rv.build()
            for _ in range(case['rival']['pre']):
                rv.act()
        env = RealtimeEnvironment(initial_time=case['initial'], factor=case['factor'], strict=case['strict'])
        clk.env = env
        base = clk.readings[-1] if clk.readings else None       # the property's real_start: the reading taken at creation
        if rv and case['rival']['when'] == 'after':
            rv.build()
        r = EnvRunner(kc, env)
        r.start()
        lines = r.lines
        plan = list(case['ops'])
        i = 0
        nstep = 0
        slow_run = 0
        forced = []
        nop = 0
        while nstep < STEP_CAP:
            if rv and nop in case['rival']['at']:
                rv.act()
            nop += 1
            if forced:
                op = forced.pop(0)
            else:
                op = plan[i] if i < len(plan) else 's'
                i += 1
            if op == 'y':
                clk.begin_other()
                n0 = len(clk.readings)
                env.sync()
                rec['ops'].append('y')
                if len(clk.readings) > n0:
                    base = clk.readings[-1]
                lines.append(f'Y {bits(env.real_start)}')
                continue
            rec['ops'].append('s')
            clk.begin_step(nstep)
            nstep += 1
            n0, m0, mark = len(clk.readings), len(clk.sleeps), len(lines)
            wall0 = clk.t
            t = env.peek()
            st = {'t': t, 'base': base, 'wall0': wall0, 'outcome': None}
            rec['steps'].append(st)
            due = (env.real_start + (t - env.env_start) * env.factor) if t != math.inf else None
            try:
                env.step()
                st['outcome'] = 'processed'
            except EmptySchedule:
                st['outcome'] = 'empty'
            except ClockBudget:
                st['outcome'] = 'clock-budget'
            except RuntimeError as x:
                m = TOO_SLOW.match(str(x))
                if m:
                    st['outcome'] = 'too-slow'
                    st['msg'] = m.group(1)
                else:
                    st['outcome'] = 'crash'
                    st['exc'] = x
            except BaseException as x:      # noqa
                st['outcome'] = 'crash'
                st['exc'] = x
            st['readings'] = clk.readings[n0:]
            st['sleeps'] = clk.sleeps[m0:]
            st['wall'] = clk.t
            oc = st['outcome']
            if oc == 'empty':
                lines.append('EMPTY')
                break
            if oc == 'clock-budget':
                lines.append('CLOCK-BUDGET')
                break
            if oc == 'too-slow':
                rd = st['readings']
                delta = (rd[1] - due) if len(rd) >= 2 else None
                ok = delta is not None and f'{delta:.3f}' == st['msg']
                lines.append(f'TOOSLOW {bits(delta)}' if ok else f'TOOSLOW msg={st["msg"]}')
                slow_run += 1
                if case.get('sync_after_slow'):
                    forced.append('y')          # what a user would do: re-base and go on
                elif slow_run >= 2:
                    break                       # without sync() a strict run that fell behind stays behind
                continue
            slow_run = 0
            rd = st['readings']
            dline = (f'D {bits(due)} n={len(st["sleeps"])} ' + ''.join(f'{bits(a)} ' for a, _ in st['sleeps']) +
                     (f'last={bits(rd[-1])}' if rd else 'last=none'))
            lines.insert(mark, dline)
            if oc == 'crash':
                lines.append(f'X {r.fmt_exc(st["exc"])} @{r.now()}')
                rec['crash'] = st['exc']
                break
            r.snap()
        lines.append('U 0')
        lines.append(f'F @{r.now()}')
        rec['lines'] = lines
        rec['rival_acts'] = rv.k if rv else 0
        rec['kernel_steps'] = sum(1 for s in rec['steps'] if s['outcome'] in ('processed', 'crash'))
        rec['ended_empty'] = bool(rec['steps']) and rec['steps'][-1]['outcome'] == 'empty'
    finally:
        rtmod.monotonic, rtmod.sleep = old
    return rec


def run_plain(case, nsteps, probe_empty):
    """the same program on Environment: `nsteps` calls of step()"""
    kc = Case.from_json(case['kernel'])
    env = Environment(case['initial'])
    r = EnvRunner(kc, env)
    r.start()
    for _ in range(nsteps):
        try:
            env.step()
        except EmptySchedule:
            r.lines.append('EMPTY')
            break
        except BaseException as x:      # noqa
            r.lines.append(f'X {r.fmt_exc(x)} @{r.now()}')
            break
        r.snap()
    else:
        if probe_empty:
            try:
                env.step()
                r.lines.append('NOT-EMPTY')
            except EmptySchedule:
                r.lines.append('EMPTY')
            except BaseException:       # noqa
                r.lines.append('NOT-EMPTY')
    r.lines.append(f'F @{r.now()}')
    return r.lines


def model_text(case, rec):
    kc = Case.from_json(case['kernel'])
    kc.cid = case['cid']
    body = kc.text().split('\n')
    out = [f'CASE {case["cid"]}'] + body[1:-1]
    out.append(f'RT {bits(case["initial"])} {bits(case["factor"])} {1 if case["strict"] else 0}')
    rd = rec['clock'].readings
    for i in range(0, len(rd), 200):
        out.append('CLOCK ' + ' '.join(str(bits(x)) for x in rd[i:i + 200]))
    ops = rec['ops']
    for i in range(0, len(ops), 200):
        out.append('OPS ' + ' '.join(ops[i:i + 200]))
    out.append('END')
    return '\n'.join(out)


# ------------------------------------------------------------------------------------------------
# ORACLE-ONLY family: the realtime environment driven by run(until=<number>) (the Lean replay covers step() and sync() only)
#
# "It never processes an occurrence due at simulated time t before the wall clock reaches real_start + (t - initial_time)
# * factor": the numeric run-until stop is such an occurrence (C01 lists it among the urgent ones) - `run(until=t)` that
# returns with `now == t` has processed it.  Finite workloads that end before `until`, idle environments used as a paced
# wait, `initial_time != 0`, several run(until) calls in a row with sync() in between.  Every step() the run loop makes is
# tapped (an instance attribute wrapping the public method), so the per-occurrence rules of `oracle_pacing` apply inside run()
# as well; on top of them: the wall clock at the return of run(until=t), the wall clock at every observation a process body
# makes, and the equality of the trace with the plain Environment's.

from onl.sim.core import StopSimulation


class PacedRunner(EnvRunner):
    """records the wall clock at which each observation of a process body is made"""

    def __init__(self, case, env, clk, base):
        super().__init__(case, env)
        self.clk, self.base, self.seen = clk, base, []

    def log(self, name, what, v):
        self.seen.append((self.env.now, self.clk.t, self.base[0]))
        super().log(name, what, v)


def plain_until(case):
    """the program on Environment under the same run(until) segments; returns (lines, instants of the kernel steps, ok)"""
    kc = Case.from_json(case['kernel'])
    env = Environment(case['initial'])
    r = EnvRunner(kc, env)
    r.start()
    for seg in case['segments']:
        if seg[0] != 'T':
            continue
        try:
            v = env.run(until=seg[1])
            r.lines.append(f'R {r.fmt_val(v)} @{r.now()}')
        except BaseException as x:      # noqa
            r.lines.append(f'X {r.fmt_exc(x)} @{r.now()}')
            return r.lines, False
    r.lines.append(f'F @{r.now()}')
    return r.lines, True


def gen_until(rng, cid):
    for attempt in range(12):
        prof = rng.choice(['time', 'time', 'time', 'outcome', 'cond', 'idle'])
        kc = kgen.gen_generic(rng, cid, 'time' if prof == 'idle' else prof, malformed=False)
        if prof == 'idle' or attempt == 11:
            kc.mains = []               # nothing is ever scheduled: run(until=...) is a paced wait
        kc.mode = 'step'
        initial = rng.choice([0, 0, 1, 2.5, 4, 10, 0.75]) if rng.random() < 0.85 else round(rng.uniform(0, 9), rng.choice([1, 16]))
        # the instants of the program's occurrences, from a plain run to exhaustion
        env = Environment(initial)
        r = EnvRunner(kc, env)
        times, ok = [], True
        try:
            with quiet():
                r.start()
                for _ in range(300):
                    env.step()
                    times.append(env.now)
                ok = False              # still busy: not a finite workload
        except EmptySchedule:
            pass
        except BaseException:           # noqa  (programs that raise out of step() are not used here)
            ok = False
        if ok and (not times or times[-1] != math.inf):
            break
    t_end = times[-1] if times else initial
    factor = rng.choice(FACTORS) if rng.random() < 0.8 else round(rng.uniform(0.05, 3), rng.choice([1, 2, 16]))
    strict = rng.random() < 0.25
    segs, now = [], initial
    inner = sorted(set(t for t in times if t > initial))
    for _ in range(rng.choice([0, 0, 1, 2])):           # stops inside the workload: at an occurrence's instant or between two
        cand = [t for t in inner if t > now] + [t + 0.5 for t in inner if t + 0.5 > now and t + 0.5 < t_end]
        if not cand:
            break
        now = rng.choice(cand)
        segs.append(['T', now])
        if rng.random() < 0.2:
            segs.append(['y'])
    for _ in range(rng.choice([1, 1, 2, 3])):           # stops beyond the last scheduled occurrence
        if rng.random() < 0.25:
            segs.append(['y'])
        now = max(now, t_end) + rng.choice([0.5, 1, 2, 3.25, 10])
        segs.append(['T', now])
    steps = []
    for _ in range(len(times) + len(segs) + rng.randint(0, 4)):
        st = {}
        f = gen_tok_first(rng, factor, strict)
        if f:
            st['first'] = f
        if rng.random() < 0.4:
            st['rest'] = [(['b', rng.choice([0, 0.03125, 0.25]) * factor] if rng.random() < 0.7 else None)
                          for _ in range(rng.randint(1, 3))]
        if rng.random() < 0.7:
            st['sleeps'] = [gen_tok_sleep(rng) for _ in range(rng.randint(1, 4))]
        steps.append(st)
    start = rng.choice([0, 100, 1000.5, 12345.678, rng.uniform(0, 1e5)])
    c = {'cid': str(cid), 'family': 'until', 'kernel': kc.to_json(), 'initial': initial, 'factor': factor, 'strict': strict,
         'segments': segs, 'workload_end': t_end,
         'clock': {'start': start, 'create_burn': rng.choice([0, 0, 0.5, 3]) * factor, 'steps': steps,
                   'sync': [rng.choice([0, 0.125, 1, 2.5]) * factor for _ in range(8)]}}
    if rng.random() < 0.4:
        c['rival'] = gen_rival(rng, factor, strict)       # acts before every run(until) / sync() segment whose index is in `at`
    return c


def run_until(case):
    """run the case on RealtimeEnvironment under the virtual clock, driven by run(until=number) / sync()"""
    kc = Case.from_json(case['kernel'])
    kc.cid = case['cid']
    clk = VClock(case)
    old = (rtmod.monotonic, rtmod.sleep)
    rtmod.monotonic, rtmod.sleep = clk.monotonic, clk.sleep
    rec = {'steps': [], 'rets': [], 'clock': clk, 'ended': None}
    try:
        clk.begin_other()
        clk.t = clk.t + case['clock']['create_burn']
        rv = Rival(clk, case['rival']) if case.get('rival') else None
        if rv and case['rival']['when'] == 'before':
            rv.build()
            for _ in range(case['rival']['pre']):
                rv.act()
        env = RealtimeEnvironment(initial_time=case['initial'], factor=case['factor'], strict=case['strict'])
        clk.env = env
        base = [clk.readings[-1] if clk.readings else None]     # the property's real_start: the reading taken at creation / by sync()
        if rv and case['rival']['when'] == 'after':
            rv.build()
        r = PacedRunner(kc, env, clk, base)
        r.start()
        orig_step = env.step

        def tapped_step():
            clk.begin_step(len(rec['steps']))
            n0, m0 = len(clk.readings), len(clk.sleeps)
            st = {'t': env.peek(), 'base': base[0], 'wall0': clk.t, 'outcome': None}
            rec['steps'].append(st)
            try:
                orig_step()
                st['outcome'] = 'processed'
            except StopSimulation:
                st['outcome'] = 'processed'
                raise
            except EmptySchedule:
                st['outcome'] = 'empty'
                raise
            except ClockBudget:
                st['outcome'] = 'clock-budget'
                raise
            except RuntimeError as x:
                m = TOO_SLOW.match(str(x))
                st['outcome'] = 'too-slow' if m else 'crash'
                if m:
                    st['msg'] = m.group(1)
                raise
            except BaseException:       # noqa
                st['outcome'] = 'crash'
                raise
            finally:
                st['readings'] = clk.readings[n0:]
                st['sleeps'] = clk.sleeps[m0:]
                st['wall'] = clk.t
                clk.begin_other()

        env.step = tapped_step
        for nseg, seg in enumerate(case['segments']):
            if rv and (nseg in case['rival']['at'] or nseg % 2 == 0):
                rv.act()
            if seg[0] == 'y':
                n0 = len(clk.readings)
                env.sync()
                if len(clk.readings) > n0:
                    base[0] = clk.readings[-1]
                continue
            ret = {'until': seg[1], 'base': base[0], 'steps_before': len(rec['steps'])}
            rec['rets'].append(ret)
            try:
                v = env.run(until=seg[1])
                ret.update(outcome='returned', now=env.now, wall=clk.t)
                r.lines.append(f'R {r.fmt_val(v)} @{r.now()}')
            except ClockBudget:
                ret.update(outcome='clock-budget', now=env.now, wall=clk.t)
                rec['ended'] = 'clock-budget'
                break
            except RuntimeError as x:
                if TOO_SLOW.match(str(x)):
                    ret.update(outcome='too-slow', now=env.now, wall=clk.t)
                    rec['ended'] = 'too-slow'
                    break
                ret.update(outcome='crash', now=env.now, wall=clk.t)
                r.lines.append(f'X {r.fmt_exc(x)} @{r.now()}')
                rec['ended'] = 'crash'
                break
            except BaseException as x:  # noqa
                ret.update(outcome='crash', now=env.now, wall=clk.t)
                r.lines.append(f'X {r.fmt_exc(x)} @{r.now()}')
                rec['ended'] = 'crash'
                break
        if rec['ended'] is None:
            r.lines.append(f'F @{r.now()}')
        rec['lines'] = r.lines
        rec['seen'] = r.seen
    finally:
        rtmod.monotonic, rtmod.sleep = old
    return rec


def oracle_until(case, rec, stats):
    f, ini = case['factor'], case['initial']
    fails = oracle_pacing(case, rec, stats)            # every occurrence the run loop turned to, by the rules of the property
    for ret in rec['rets']:
        stats['until:' + str(ret.get('outcome'))] += 1
        if ret.get('outcome') != 'returned':
            continue
        beyond = ret['until'] > case['workload_end']
        stats['until:beyond-the-last-scheduled-occurrence' if beyond else 'until:inside-the-workload'] += 1
        due = ret['base'] + (ret['until'] - ini) * f
        if ret['now'] == ret['until'] and ret['wall'] < due:
            fails.append({'what': f'run(until={ret["until"]}) returned with now == {ret["now"]} at wall clock {ret["wall"]} < {due} = real_start {ret["base"]} + '
                                  f'({ret["until"]} - {ini}) * {f}: the stop due at simulated {ret["until"]} was processed '
                                  f'{due - ret["wall"]} s ahead of the wall clock ({"no occurrence was left before the stop" if beyond else "stop inside the workload"}; '
                                  f'{len(rec["steps"]) - ret["steps_before"]} step() calls were made by this run)',
                          'signature': 'run-until-returned-early'})
    for now, wall, base in rec['seen']:
        stats['until:observations-by-process-bodies'] += 1
        if wall < base + (now - ini) * f:
            fails.append({'what': f'a process body observed now == {now} at wall clock {wall} < {base + (now - ini) * f} = real_start {base} + ({now} - {ini}) * {f}',
                          'signature': 'observed-early'})
            break
    plain, ok = rec['plain']
    a = rec['lines']
    if rec['ended'] in ('too-slow', 'clock-budget'):
        if a != plain[:len(a)]:
            d = first_diff(a, plain[:len(a)])
            fails.append({'what': f'run(until) on RealtimeEnvironment (refused at some point: {rec["ended"]}) is not a prefix of the Environment trace: '
                                  f'line {d[0]}: rt `{d[1]}` plain `{d[2]}`', 'signature': 'rt-trace-differs'})
    elif a != plain:
        d = first_diff(a, plain)
        fails.append({'what': f'run(until) traces of RealtimeEnvironment and Environment differ at line {d[0]}: rt `{d[1]}` plain `{d[2]}`',
                      'signature': 'rt-trace-differs'})
    return fails


def run_until_family(ctx, cases):
    orc, hist, nontriv, samples = [], collections.Counter(), 0, []
    saved = (rtmod.monotonic, rtmod.sleep)
    for c in cases:
        try:
            with quiet():
                rec = run_until(c)
                rec['plain'] = plain_until(c)
        finally:
            rtmod.monotonic, rtmod.sleep = saved
        st = collections.Counter()
        fails = oracle_until(c, rec, st)
        hist.update(st)
        hist['strict' if c['strict'] else 'non-strict'] += 1
        hist['initial_time!=0'] += int(c['initial'] != 0)
        hist['idle environment'] += int(not c['kernel']['mains'])
        hist['ops:sync'] += sum(1 for s in c['segments'] if s[0] == 'y')
        if c.get('rival'):
            hist['rival environment: constructed ' + c['rival']['when']] += 1
        if st['until:beyond-the-last-scheduled-occurrence']:
            nontriv += 1
            if len(samples) < 1 and c['kernel']['mains']:
                samples.append({'case': c, 'rt_trace': rec['lines'][:40]})
        seen_sig = set()
        for f in fails:
            if f['signature'] in seen_sig:
                continue
            seen_sig.add(f['signature'])
            f['case'] = c
            f['trace'] = {'rt': rec['lines'][:200], 'plain': rec['plain'][0][:200], 'returns': rec['rets'],
                          'steps': [{k: v for k, v in s.items()} for s in rec['steps'][:60]]} if len(orc) < 25 else {}
            orc.append(f)
    cov = {'evaluations': len(cases), 'distinct_nontrivial': nontriv, 'oracle_only': True,
           'rule': 'ORACLE-ONLY (outside the Lean replay): finite kernel programs / idle environments on RealtimeEnvironment driven by run(until=number) and sync() '
                   'under scripted clocks; non-trivial = a run(until) beyond the last scheduled occurrence returned',
           'samples': samples, 'operation_histogram': dict(sorted(hist.items()))}
    return cov, orc


# ------------------------------------------------------------------------------------------------
# ORACLE-ONLY family `span`: the third clause over everything the kernel checks C01-C07 span
#
# "A RealtimeEnvironment executes exactly the same event sequence with the same values as an Environment given the same program."
# The families above drive the environment by step() (and by run(until=<number>)); a *program* also calls run(), run(until=<event>)
# - with processes that start to wait for the until-event only after run() was entered, so that their resumption is listed behind
# run()'s own stop callback -, run(until=<number>) and step() in any sequence, catches what a piece raises and carries on.  Here a
# sample of ALL shapes of the kernel program generator (harness/kprops.gen_cases: the generic profiles, interrupt victims, condition
# chains, same-instant decisions, launchers, acks, resources, stores, each also under a split plan; the until-fail / until-react /
# crash plans) is executed by `kscript.Runner.run()` - the very driver of C01-C07 - once on an Environment and once on a
# RealtimeEnvironment under a virtual wall clock that gives no cause for a lateness error (non-strict: every reading of the clock
# may burn some wall time; strict: the clock only moves while step() sleeps, so the lag is never above 0 <= factor).  The complete
# traces - resumptions with values and exceptions, probe callbacks, resource snapshots, what every run()/step() piece returned or
# raised, the final `now` - must be equal line for line.  On top (first clause, at every observation a process body makes, also inside
# run(until=event) and run()): the wall clock has reached real_start + (now - initial_time) * factor.

from harness import kprops

SPAN_SPEC = [(3, 'time'), (2, 'outcome'), (2, 'intr'), (2, 'cond'), (2, 'victim'), (1, 'chain'), (1, 'decided'), (1, 'launcher'), (1, 'ack'),
             (2, 'res'), (2, 'store'),
             (2, 'plan:time'), (2, 'plan:outcome'), (1, 'plan:cond'), (1, 'plan:intr'), (1, 'plan:victim'), (1, 'plan:chain'), (1, 'plan:launcher'),
             (1, 'plan:res'), (1, 'plan:store'), (3, 'untilfail'), (3, 'untilreact'), (2, 'crashplan')]
SPAN_CLOCK_BUDGET = 400000


class FreeClock:
    """a wall clock that never makes the run late by more than the burns it is given: `monotonic()` burns the next amount of the
    (cyclic) list, `sleep(d)` lasts exactly d"""

    def __init__(self, start, burns):
        self.t, self.burns, self.k, self.calls, self.nsleep = start, list(burns), 0, 0, 0

    def monotonic(self):
        self.calls += 1
        if self.calls > SPAN_CLOCK_BUDGET:
            raise ClockBudget()
        if self.burns:
            self.t = self.t + self.burns[self.k % len(self.burns)]
            self.k += 1
        return self.t

    def sleep(self, d):
        self.calls += 1
        if self.calls > SPAN_CLOCK_BUDGET:
            raise ClockBudget()
        self.nsleep += 1
        if d > 0:
            self.t = self.t + d


class SpanRunner(kscript.Runner):
    """kscript.Runner that also counts (oracle-only) the shapes the family is about, and - on the paced environment - records the
    wall clock at every observation of a process body"""

    def __init__(self, case, env, clk=None, base=None):
        super().__init__(case, env)
        self.clk, self.base, self.seen = clk, base, []
        self.shape = collections.Counter()
        self.cur_until = None
        inner = env.run

        def run(until=None):
            # an instance attribute in front of the public method: remembers which event the current run() waits for
            self.cur_until = until if hasattr(until, 'callbacks') else None
            self.shape['run(until=event)' if self.cur_until is not None else ('run()' if until is None else 'run(until=number)')] += 1
            try:
                return inner(until)
            finally:
                self.cur_until = None
        env.run = run

    def hook(self, what, *a):
        if what == 'yield' and self.cur_until is not None and a[1] is self.cur_until and a[1].callbacks is not None:
            self.shape['late waiter: a process starts to wait for the until-event after run(until=event) was entered'] += 1
        return None

    def log(self, name, what, v):
        if self.clk is not None:
            self.seen.append((self.env.now, self.clk.t))
        super().log(name, what, v)


def gen_span(rng, n):
    cases = kprops.gen_cases(rng, SPAN_SPEC, n)
    out = []
    for i, kc in enumerate(cases):
        factor = rng.choice(FACTORS) if rng.random() < 0.8 else round(rng.uniform(0.05, 3), rng.choice([1, 2, 16]))
        strict = rng.random() < 0.4
        initial = 0
        if kc.mode == 'step' and rng.random() < 0.3:
            initial = rng.choice(INITIALS)
        burns = [] if strict else [rng.choice([0, 0, 0, 0.03125, 0.25, 1, 3]) * factor for _ in range(rng.randint(0, 5))]
        out.append({'cid': f'k{i}', 'family': 'span', 'kind': kc.kind, 'kernel': kc.to_json(), 'initial': initial, 'factor': factor, 'strict': strict,
                    'clock': {'start': rng.choice([0, 100, 1000.5, 12345.678, rng.uniform(0, 1e5)]), 'burns': burns}})
    return out


def run_span(case):
    """the program under kscript.Runner.run() on Environment and on RealtimeEnvironment; returns (plain runner, rt runner, base, error)"""
    kc = Case.from_json(case['kernel'])
    plain = SpanRunner(kc, Environment(case['initial']))
    plain.run()
    clk = FreeClock(case['clock']['start'], case['clock']['burns'])
    old = (rtmod.monotonic, rtmod.sleep)
    rtmod.monotonic, rtmod.sleep = clk.monotonic, clk.sleep
    err = None
    try:
        env = RealtimeEnvironment(initial_time=case['initial'], factor=case['factor'], strict=case['strict'])
        base = clk.t                    # the property's real_start: the wall clock at creation (no sync() in this family)
        rt = SpanRunner(Case.from_json(case['kernel']), env, clk, base)
        try:
            rt.run()
        except ClockBudget:
            err = 'clock-budget'
    finally:
        rtmod.monotonic, rtmod.sleep = old
    return plain, rt, base, err


def oracle_span(case, plain, rt, base, err):
    fails = []
    f, ini = case['factor'], case['initial']
    if err:
        return [{'what': f'the sleep loop did not terminate within {SPAN_CLOCK_BUDGET} clock calls although every sleep(d) lasts d',
                 'signature': 'sleep-loop-diverges'}]
    a, b = rt.lines, plain.lines
    if a != b:
        d = first_diff(a, b)
        late = rt.shape['late waiter: a process starts to wait for the until-event after run(until=event) was entered'] + \
            plain.shape['late waiter: a process starts to wait for the until-event after run(until=event) was entered']
        fails.append({'what': f'the same program (kernel generator shape `{case.get("kind")}`, driven by '
                              f'{"step() until exhausted" if case["kernel"]["mode"] == "step" else "the plan " + str(case["kernel"]["plan"]) + " then run()"}) '
                              f'gives different traces on RealtimeEnvironment (factor {f}, strict {case["strict"]}, clock never late) and Environment, '
                              f'first at line {d[0]}: rt `{d[1]}` plain `{d[2]}`'
                              + (f' ({late} process(es) started to wait for the until-event after run(until=event) was entered)' if late else ''),
                      'signature': 'rt-trace-differs'})
    for now, wall in rt.seen:
        if wall < base + (now - ini) * f:
            fails.append({'what': f'a process body observed now == {now} at wall clock {wall} < {base + (now - ini) * f} = real_start {base} + ({now} - {ini}) * {f} '
                                  f'(program driven by {"step()" if case["kernel"]["mode"] == "step" else "the plan " + str(case["kernel"]["plan"])})',
                          'signature': 'observed-early'})
            break
    return fails


def run_span_family(ctx, cases):
    orc, hist, nontriv, samples, lines = [], collections.Counter(), 0, [], 0
    saved = (rtmod.monotonic, rtmod.sleep)
    for c in cases:
        try:
            with quiet():
                plain, rt, base, err = run_span(c)
        finally:
            rtmod.monotonic, rtmod.sleep = saved
        fails = oracle_span(c, plain, rt, base, err)
        lines += len(rt.lines)
        hist['kind:' + str(c.get('kind'))] += 1
        hist['strict' if c['strict'] else 'non-strict'] += 1
        hist['initial_time!=0'] += int(c['initial'] != 0)
        hist['clock burns wall time at its readings'] += int(any(c['clock']['burns']))
        hist['sleep calls'] += rt.clk.nsleep
        hist['observations by process bodies (pacing judged)'] += len(rt.seen)
        for k, v in plain.shape.items():
            hist['shape:' + k] += v
        for l in plain.lines:
            if l.startswith('X '):
                hist['piece raised:' + l.split(' ')[1]] += 1
            elif l.startswith('R '):
                hist['piece returned'] += 1
        nt = plain.shape['run(until=event)'] + plain.shape['run(until=number)'] > 0 and rt.clk.nsleep > 0
        nontriv += int(nt)
        if nt and len(samples) < 1 and len(rt.lines) < 50 and plain.shape['late waiter: a process starts to wait for the until-event after run(until=event) was entered']:
            samples.append({'case': c, 'rt_trace': rt.lines[:50]})
        seen_sig = set()
        for f_ in fails:
            if f_['signature'] in seen_sig:
                continue
            seen_sig.add(f_['signature'])
            f_['case'] = c
            f_['trace'] = {'rt': rt.lines[:300], 'plain': plain.lines[:300]} if len(orc) < 25 else {}
            orc.append(f_)
    cov = {'evaluations': len(cases), 'distinct_nontrivial': nontriv, 'oracle_only': True, 'trace_lines_compared': lines,
           'rule': 'ORACLE-ONLY (outside the Lean replay): a sample of all shapes of the kernel program generator of C01-C07, driven by kscript.Runner.run() '
                   '(step() to exhaustion, or a split plan of run(until=number) / run(until=event) / step() pieces followed by run()), on Environment and on '
                   'RealtimeEnvironment under a wall clock that is never late; non-trivial = the plan contains a run(until=...) piece and the paced run slept',
           'samples': samples, 'operation_histogram': dict(sorted(hist.items()))}
    return cov, orc


# ------------------------------------------------------------------------------------------------
# oracle 2: the pacing rules, from the recorded clock

def oracle_pacing(case, rec, stats):
    fails = []
    f, ini, strict = case['factor'], case['initial'], case['strict']
    for k, st in enumerate(rec['steps']):
        oc = st['outcome']
        if oc == 'clock-budget':
            fails.append({'what': f'step {k}: the sleep loop did not terminate within {CLOCK_BUDGET} clock calls',
                          'signature': 'sleep-loop-diverges'})
            continue
        if oc == 'empty' or st['t'] == math.inf:
            continue
        due = st['base'] + (st['t'] - ini) * f
        first = st['readings'][0] if st['readings'] else st['wall0']
        lag = first - due
        want_raise = strict and lag > f
        if lag == f:
            stats['lag==factor'] += 1
        elif lag > f:
            stats['lag>factor'] += 1
        elif lag > 0:
            stats['late-within-factor'] += 1
        elif lag == 0:
            stats['exactly-on-time'] += 1
        else:
            stats['early:must-sleep'] += 1
        if oc == 'too-slow':
            stats['raised-too-slow'] += 1
            if not strict:
                fails.append({'what': f'step {k}: "Simulation too slow" raised in non-strict mode (lag {lag})',
                              'signature': 'too-slow-in-non-strict'})
            elif not want_raise:
                fails.append({'what': f'step {k}: "Simulation too slow" raised although the clock ({first}) is only '
                                      f'{lag} past due {due}, factor {f}', 'signature': 'spurious-too-slow'})
            continue
        if want_raise:
            fails.append({'what': f'step {k}: strict mode, clock {first} is {lag} > factor {f} past due {due}, '
                                  f'but step() did not raise', 'signature': 'missing-too-slow'})
        if oc in ('processed', 'crash'):
            if st['wall'] < due:
                fails.append({'what': f'step {k}: occurrence due at simulated {st["t"]} was processed at wall clock '
                                      f'{st["wall"]} < {due} = real_start {st["base"]} + ({st["t"]} - {ini}) * {f}',
                              'signature': 'processed-early'})
            stats['sleep-calls'] += len(st['sleeps'])
            stats['sleep-returned-early'] += sum(1 for a, after in st['sleeps'] if after < due)
            stats['sleep-returned-late'] += sum(1 for a, after in st['sleeps'] if after > due)
    return fails


# ------------------------------------------------------------------------------------------------

def first_diff(a, b):
    for i in range(max(len(a), len(b or []))):
        x = a[i] if i < len(a) else '<end>'
        y = b[i] if b and i < len(b) else '<end>'
        if x != y:
            return i, x, y
    return None


RT_ONLY = ('D ', 'Y ', 'TOOSLOW', 'U ', 'CLOCK-BUDGET')


def run(ctx):
    rng = random.Random(f'C20-{ctx.seed}')
    n = 3000 if ctx.quick else 60000
    if ctx.replay:
        j = json.load(open(ctx.replay))
        cases = [j['case']] if j.get('case') else []
        cases += [d['case'] for d in (j.get('broken_correspondence') or []) if d.get('case')]
    else:
        cases = [gen_case(rng, i) for i in range(n)]
    rng_u = random.Random(f'C20-until-{ctx.seed}')
    if ctx.replay:
        until_cases = [c for c in cases if c.get('family') == 'until']
        span_cases = [c for c in cases if c.get('family') == 'span']
        cases = [c for c in cases if c.get('family') not in ('until', 'span')]
    else:
        until_cases = [gen_until(rng_u, f'u{i}') for i in range(400 if ctx.quick else 8000)]
        span_cases = gen_span(random.Random(f'C20-span-{ctx.seed}'), 1500 if ctx.quick else 30000)
    for i, c in enumerate(cases):
        c['cid'] = str(i)
    disagreements, oracle_failures = [], []
    hist = collections.Counter()
    distinct, samples = set(), []
    tot = {'nontriv': 0, 'lines': 0, 'readings': 0}
    saved = (rtmod.monotonic, rtmod.sleep)
    CH = 500                                    # bounded memory: run, replay and compare chunk by chunk
    for lo in range(0, len(cases), CH):
        chunk = cases[lo:lo + CH]
        recs, texts = [], []
        try:
            with quiet():
                for c in chunk:
                    rec = run_rt(c)
                    rec['plain'] = run_plain(c, rec['kernel_steps'], rec['ended_empty'])
                    recs.append(rec)
                    texts.append(model_text(c, rec))
        finally:
            rtmod.monotonic, rtmod.sleep = saved
        model = split_cases(run_driver('rt', '\n'.join(texts) + '\n'))
        compare_chunk(chunk, recs, model, disagreements, oracle_failures, hist, distinct, samples, tot)
    cov = {
        'evaluations': len(cases),
        'distinct_nontrivial': tot['nontriv'],
        'rule': 'seeded kernel programs x clock scripts; non-trivial = distinct case in which at some step the clock lags by '
                'exactly or more than factor, a sleep returns early or late, or sync() is called',
        'samples': samples,
        'runs_validated_against_model': len(cases) - len(disagreements) - tot.get('foreign', 0),
        'disagreements_not_about_this_property': {'count': tot.get('foreign', 0), 'why': kernel_is_the_cause.__doc__.strip(),
                                                  'samples': tot.get('foreign_samples', [])},
        'trace_lines_compared': tot['lines'],
        'clock_readings_replayed': tot['readings'],
        'operation_histogram': dict(sorted(hist.items())),
    }
    ucov, uorc = run_until_family(ctx, until_cases)
    cov['run_until_family_oracle_only'] = ucov       # counted apart: not part of `evaluations` / the correspondence
    scov, sorc = run_span_family(ctx, span_cases)
    cov['kernel_span_family_oracle_only'] = scov     # counted apart as well
    return {'coverage': cov, 'disagreements': disagreements, 'oracle_failures': oracle_failures + uorc + sorc}


def kernel_is_the_cause(rt_kernel, plain, model_lines):
    """C20 is about pacing: the model is `Rt.rtStep` *wrapped around the kernel model K*.  When implementation and model disagree on a
    run, the disagreement is C20's unless the kernel observations already conflict - the plain `Environment` executes the program
    differently from K (a line both have differs), while `RealtimeEnvironment` executes it exactly as the plain `Environment` does
    (oracle 1 holds on this case).  What differs then is the kernel's behaviour on that program, the subject of the correspondence of
    C01-C07 (whose checks replay the same program families on the plain `Environment`); it says nothing about pacing and is recorded
    in the evidence, not counted.  A model trace that merely stops earlier or later than the implementation's (no conflicting line) is
    a pacing matter and stays C20's."""
    if model_lines is None or rt_kernel != plain:
        return False
    mk = [l for l in model_lines if not l.startswith(RT_ONLY)]
    return any(x != y for x, y in zip(mk, plain))


def compare_chunk(cases, recs, model, disagreements, oracle_failures, hist, distinct, samples, tot):
    for c, rec in zip(cases, recs):
        a, b = rec['lines'], model.get(c['cid'])
        tot['lines'] += len(a)
        tot['readings'] += len(rec['clock'].readings)
        st = collections.Counter()
        fails = oracle_pacing(c, rec, st)
        # oracle 1: same transitions as the plain environment
        rt_kernel = [l for l in a if not l.startswith(RT_ONLY)]
        if rt_kernel != rec['plain']:
            d = first_diff(rt_kernel, rec['plain'])
            fails.append({'what': f'RealtimeEnvironment and Environment traces differ at line {d[0]}: rt `{d[1]}` plain `{d[2]}`',
                          'signature': 'rt-trace-differs'})
        hist.update(st)
        hist['strict' if c['strict'] else 'non-strict'] += 1
        hist['ops:sync'] += rec['ops'].count('y')
        hist['ops:step'] += rec['ops'].count('s')
        if c.get('rival'):
            hist['rival environment: constructed ' + c['rival']['when']] += 1
            hist['rival environment: other strict setting'] += 1 if c['rival']['strict'] != c['strict'] else 0
            hist['rival environment: its step()/sync() calls between the operations'] += rec.get('rival_acts', 0)
        hist['initial_time!=0'] += 1 if c['initial'] != 0 else 0
        hist['kernel-crash'] += 1 if rec['crash'] is not None else 0
        for s in rec['steps']:
            hist['step:' + str(s['outcome'])] += 1
        key = json.dumps({k: v for k, v in c.items() if k != 'cid'}, sort_keys=True, default=str)
        nt = (st['lag==factor'] + st['lag>factor'] + st['sleep-returned-early'] + st['sleep-returned-late'] > 0) or \
            rec['ops'].count('y') > 0
        if nt and key not in distinct:
            tot['nontriv'] += 1
        distinct.add(key)
        if a != b:
            d = first_diff(a, b)
            if kernel_is_the_cause(rt_kernel, rec['plain'], b):
                # not about pacing (see kernel_is_the_cause): recorded, not counted
                tot['foreign'] = tot.get('foreign', 0) + 1
                if len(tot.setdefault('foreign_samples', [])) < 3:
                    tot['foreign_samples'].append({'case': c, 'detail': f'line {d[0]}: impl `{d[1]}` model `{d[2]}`' if d else 'length'})
            else:
                keep = len(disagreements) < 25
                disagreements.append({'case': c, 'detail': f'line {d[0]}: impl `{d[1]}` model `{d[2]}`' if d else 'length',
                                      'impl': a[:300] if keep else [], 'model': (b or [])[:300] if keep else []})
        seen_sig = set()
        for f in fails:
            if f['signature'] in seen_sig:
                continue                       # one failure per signature and case
            seen_sig.add(f['signature'])
            f['case'] = c
            if len(oracle_failures) < 25:      # full traces only for the first few (the framework writes 5 replays)
                f['trace'] = {'rt': a[:300], 'plain': rec['plain'][:300],
                              'steps': [{k: (str(v) if k == 'exc' else v) for k, v in s.items()} for s in rec['steps'][:80]]}
            oracle_failures.append(f)
        if len(samples) < 2 and nt and 8 < len(a) < 60:
            samples.append({'case': c, 'rt_trace': a[:60]})
