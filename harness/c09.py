"""C09 - a port serialises at its line rate and tail-drops exactly at its limit (Port, REDPort, PortMonitor)."""
from vlib.util import guarded_leg
import random, collections, json
from onl.sim import Environment
from onl.netdev import Port, PortMonitor
from onl.netdev.red_port import REDPort
import onl.netdev.red_port as red_mod
from harness.fifo import FifoRun, source, run_many, INF, phase_of
from harness import dynport
from vlib.util import bits, run_driver, split_cases, quiet

ASSUMPTIONS = [
    'sizes are positive integers, rate >= 0, an `out` is attached',
    'theorems are over exact rationals; the replay compares IEEE doubles bit for bit',
    'RED: the uniform draws are inputs of the model (recorded from the implementation); nothing is claimed about their distribution',
    'the port process on the real kernel refines the FifoServer LTS: checked by replay (labels from Process.target); proved for the Port without RED '
    '(qlimit None or a byte limit, every rate, one source) as a process on the kernel *model* K (Props/C09K.lean); '
    'not for the packet-count limit and RED',
]
ASSUMPTIONS.append('reconfiguration while running / re-entrant next hop (oracle-only family, harness/dynport.py): `rate` and `qlimit` are reassigned by another process between '
                   'packets - the serialisation time is read with the rate the port has when the transmission starts (max(arrival, previous departure)), the tail-drop rule '
                   'with the limit at the arrival (clause instances in the very instant of a change are not judged); the next hop offers a packet to the port again from inside '
                   'its own put(): at that instant the packet just handed on is no longer held, for the byte-limit rule and for the advertised occupancy `byte_size` alike')
EXTRA_MODULES = ('OnlVerif.Props.C09K', 'OnlVerif.Props.C09K2')
TRUSTED_EXTRA = ['the kernel guarantees (G1-G3) that make `tick` admissible only at quiescence are theorems of model K (C01), assumed for the device LTS',
                 'py2lean/elem.py + elements.py (typed AST-subset translator; hand-written field schema of Port / REDPort objects, declared effects '
                 '`self.store.put(packet)`, `packet.perhop_time[self.element_id] = self.env.now`, `self.out.put(packet)`); the bridge theorems '
                 'C09.port_put_generated_eq_model / port_run_generated_eq_model / red_put_generated_eq_model tie its output to the model']
BRIDGES = ['C09.port_put_generated_eq_model', 'C09.port_run_generated_eq_model', 'C09.red_put_generated_eq_model']
HAND_MODELLED = ['Port.run (generator control flow: get / timeout / loop; its straight-line fragments are translated)',
                 'PortMonitor.run', 'Port.__init__ / REDPort.__init__ (initial values)']
_PREP = {}


def prepare(ctx):
    """regenerate lean/OnlVerif/Generated/Port.lean from the source under $ONL_REPO (a translator failure or a bridge
    theorem that no longer compiles is a broken obligation)"""
    from py2lean import translate, elements
    _PREP['translated'] = elements.TRANSLATED['Port']
    _PREP['rewritten'] = translate.regenerate_all(only=('Port',))
    _PREP['diff_vs_pinned'] = translate.diff_vs_pinned('Port')


class Draws:
    """stands in for the `random` module inside onl.netdev.red_port: records the draws handed out"""

    def __init__(self, rng):
        self.rng = rng
        self.taken = []

    def uniform(self, a, b):
        x = self.rng.uniform(a, b)
        self.taken.append(x)
        return x


ASSUMPTIONS.append('"packets already waiting to start transmission" in the packet-limit oracle (`port-drop-packets-account`) is an account of the harness, not `len(store.items)`: '
                   'packets accepted by put() minus packets the port process has taken - counted at the beginning of every kernel step as the departures seen at `out` plus one '
                   'if the port process then holds a packet (its public `action.target` is a completed store request or a transmission timeout) - plus the packets accepted '
                   'earlier in the same kernel step.  The port process runs in kernel steps of its own: a packet accepted in a step (a burst of back-to-back put() calls of one '
                   'source activation) cannot have been taken by the port before the end of that step, so it counts as waiting for every later put of the burst')
ASSUMPTIONS.append('"bytes held" in the byte-limit oracle is an account kept at the port\'s boundary (sizes accepted by `put` minus sizes handed to `out`), '
                   'not the port\'s own `byte_size`; a refusal is what `packets_dropped` counts')


class Ledger:
    """an account kept at the port's boundary, independent of the port's own figures: bytes of the packets it accepted and
    has not yet handed to `out` (waiting plus in transmission), noted before every put together with the decision"""

    def __init__(self, run):
        self.held = 0
        self.puts = []            # (instant, packet id, size, bytes held before the put, refused?)
        self.badstamp = []        # (instant, packet id, stamp found after the put, stamp carried before it)
        self.restamped = 0        # puts of packets that already carried a stamp under this port's element id
        # packets "waiting to start transmission", by the harness's own account (see ASSUMPTIONS): accepted, minus taken by the port process as
        # counted at the beginning of the current kernel step
        self.naccepted = self.ndeps = 0
        self.wait0 = 0            # accepted and not taken when the current kernel step began
        self.acc_in_step = 0
        self.idle0 = True         # the port process held no packet when the current kernel step began
        self.pputs = []           # (instant, packet id, packets waiting before the put, refused?, idle port at the beginning of the step?)
        port = run.dev
        inner_put, inner_out, led = port.put, port.out, self
        inner_before = run.before_step

        def before_step():
            holds = phase_of(port.action) in ('H', 'T')
            led.wait0 = led.naccepted - led.ndeps - (1 if holds else 0)
            led.acc_in_step = 0
            led.idle0 = not holds and led.wait0 == 0
            inner_before()
        run.before_step = before_step

        def put(packet):
            d0, h = port.packets_dropped, led.held
            eid = port.element_id
            before = packet.perhop_time.get(eid, None) if eid else None
            inner_put(packet)
            if eid:
                led.restamped += before is not None
                found = packet.perhop_time.get(eid, None)
                if found != run.env.now:
                    led.badstamp.append((run.env.now, packet.packet_id, found, before))
            refused = port.packets_dropped > d0
            led.puts.append((run.env.now, packet.packet_id, packet.size, h, refused))
            led.pputs.append((run.env.now, packet.packet_id, led.wait0 + led.acc_in_step, refused, led.idle0))
            if not refused:
                led.held += packet.size
                led.naccepted += 1; led.acc_in_step += 1

        class Out:
            def put(self, packet):
                led.held -= packet.size
                led.ndeps += 1
                inner_out.put(packet)

        port.put, port.out = put, Out()


def snap_port(run):
    p = run.dev
    return (f'bs={p.byte_size} rc={p.packets_received} dr={p.packets_dropped} busy={p.busy} bsz={p.busy_packet_size} '
            f'avg={bits(getattr(p, "average_queue_size", 0))} st={run.stamps}')


def gen_case(rng, cid, mode=None):
    rate = rng.choice([0.0, 8.0, 8.0, 64.0, 3.0, 100.0, 8, 1e6])
    mode = mode or rng.choice(['none', 'bytes', 'packets', 'packets', 'red'])
    c = {'cid': str(cid), 'rate': rate, 'mode': mode, 'hasid': rng.random() < 0.8}
    if mode == 'bytes':
        c['qlimit'] = rng.choice([0, 60, 100, 150, 400, 3000])
    elif mode == 'packets':
        c['qlimit'] = rng.choice([0, 1, 2, 3, 5, 8])
    elif mode == 'red':
        c['limit_bytes'] = rng.random() < 0.4
        scale = 100 if c['limit_bytes'] else 1
        c['min_th'] = rng.choice([0, 1, 2]) * scale
        c['max_th'] = c['min_th'] + rng.choice([1, 2, 4]) * scale
        c['qlimit'] = c['max_th'] + rng.choice([0, 1, 3]) * scale
        c['max_p'] = rng.choice([0.1, 0.5, 1.0, 0.02])
        c['w'] = rng.choice([0, 1, 2, 3, 9])
        c['rseed'] = rng.randrange(1 << 30)
    sizes = [10, 50, 60, 100, 200, 1500] if rate not in (8.0, 8) else [1, 2, 3, 5, 10]
    c['sources'] = []
    for _ in range(rng.randint(1, 3)):
        script = []
        for _ in range(rng.randint(1, 8)):
            d = rng.choice([0, 0, 0, 1, 1, 2, 5, 10, 12.5, 25, 0.5, round(rng.random() * 30, 3)])
            burst = [(rng.randrange(3), rng.choice(sizes)) for _ in range(rng.choice([1, 1, 1, 2, 3, 5]))]
            script.append((d, burst))
        c['sources'].append(script)
    if mode == 'bytes' and rng.random() < 0.5:
        # exact fills: every packet has one fixed size and `qlimit` is a multiple of it, so bursts land on the limit exactly
        # (bytes held + size == qlimit: still admitted) before they overflow it; now and then a packet as large as the whole
        # buffer arrives after the port had time to drain (idle port: held 0 + size == qlimit)
        unit = rng.choice(sizes)
        k = rng.choice([1, 1, 2, 3, 4])
        c['qlimit'] = unit * k
        c['fill'] = {'unit': unit, 'k': k}
        drain = (c['qlimit'] * 8 / rate if rate > 0 else 0) * 2 + 1
        c['sources'] = []
        for _ in range(rng.randint(1, 2)):
            script = []
            for _ in range(rng.randint(1, 7)):
                if rng.random() < 0.25:
                    script.append((drain, [(rng.randrange(3), c['qlimit'])] + [(rng.randrange(3), unit)] * rng.choice([0, 0, 1])))
                else:
                    d = rng.choice([0, 0, 1, 2, 5, 0.5, drain, unit * 8 / rate if rate > 0 else 1])
                    script.append((d, [(rng.randrange(3), unit)] * rng.choice([1, k, k, k + 1, k + 2])))
            c['sources'].append(script)
    if mode == 'packets' and c['qlimit'] >= 2 and rng.random() < 0.5:
        # exact fills in packet mode: bursts of qlimit-1, qlimit, qlimit+1 ... packets handed over back to back in one instant, into a port that had time to
        # drain and is idle (its process blocked on the empty store) as well as into a busy one: "refused iff qlimit-1 packets are already waiting to
        # start transmission" - of a burst into an idle port exactly qlimit-1 are admitted (none of them has started while the burst is being put)
        q = c['qlimit']
        unit = rng.choice(sizes)
        c['pfill'] = {'unit': unit}
        drain = (q * unit * 8 / rate if rate > 0 else 0) * 2 + 1
        c['sources'] = []
        for _ in range(rng.randint(1, 2)):
            script = []
            for _ in range(rng.randint(1, 6)):
                d = rng.choice([0, 0.5, drain, drain, drain, unit * 8 / rate if rate > 0 else 1])
                script.append((d, [(rng.randrange(3), unit if rng.random() < 0.8 else rng.choice(sizes)) for _ in range(rng.choice([1, q - 1, q, q, q + 1, q + 2]))]))
            c['sources'].append(script)
    if mode != 'red' and rng.random() < 0.35:
        # the same Packet OBJECT is offered again later (a sender retransmitting the object after a tail drop or after a delivery, a
        # packet on its second lap round a ring): burst entry ['re', j] = the j-th (mod count) of the packets this source offered
        # earlier that no port of the case holds at that moment (a fresh packet if there is none yet).  Such a packet already
        # carries a stamp under this port's element id: "stamped with its arrival time at THIS hop" means the stamp is renewed.
        c['reoffer'] = True
        for script in c['sources']:
            for _, burst in script[1:]:
                for k in range(len(burst)):
                    if rng.random() < 0.4:
                        burst[k] = ('re', rng.randrange(8))
    c['own_ids'] = rng.random() < 0.3          # sources number their packets independently: ids collide on the port
    c['monitor'] = None
    if rng.random() < 0.4:
        c['monitor'] = {'included': rng.random() < 0.5, 'period': rng.choice([0.5, 1, 3, 7.25])}
    return c


ASSUMPTIONS.append('peer ports: in about half of the cases one or two further Port / REDPort instances (other rate / qlimit / limit mode / thresholds, an '
                   'element_id equal to or different from the first one\'s, own sources whose packet ids may collide with the first one\'s, often a '
                   'PortMonitor of their own) live and carry traffic in the same Environment; every instance is replayed through the model as a case of '
                   'its own and judged by the oracles on its own history only')

CONFIG_KEYS = ('rate', 'mode', 'hasid', 'qlimit', 'limit_bytes', 'min_th', 'max_th', 'max_p', 'w', 'fill')


def gen_group(rng, cid):
    """the port under test and, in about half of the cases, one or two PEER ports of the same class alive in the same
    Environment: "the k-th accepted packet leaves a Port at ...", "the bytes held", "packets_received", "stamped under the
    port's element id" all speak of ONE port - whatever other ports (with the same element id or another) do next to it."""
    c = gen_case(rng, cid)
    if rng.random() < 0.5:
        return c
    red = c['mode'] == 'red'
    c['peers'] = []
    for j in range(rng.choice([1, 1, 2])):
        x = rng.random()
        if x < 0.2:
            # a twin built from an equal configuration (its own traffic)
            p = gen_case(rng, f'{cid}.p{j + 1}', c['mode'])
            for k in CONFIG_KEYS:
                p.pop(k, None)
                if k in c:
                    p[k] = c[k]
            p['twin'] = True
        else:
            p = gen_case(rng, f'{cid}.p{j + 1}', ('red' if rng.random() < 0.7 else None) if red else rng.choice(['none', 'bytes', 'packets', 'packets']))
        # element ids: equal to the first port's in half of the cases ('p1' is what every port under test is called)
        p['eid'] = rng.choice(['p1', 'p1', 'p2', ''])
        p['hasid'] = bool(p['eid'])
        p['shared_ids'] = rng.random() < 0.4        # packet ids drawn from the first port's counter (unique in the Environment) or its own (colliding)
        if p['monitor'] is None and rng.random() < 0.5:
            p['monitor'] = {'included': rng.random() < 0.5, 'period': rng.choice([0.5, 1, 3, 7.25])}
        if not red and rng.random() < 0.4:
            # a second hop on one path: the peer is (also) offered packets that have left the first port (['rf', j] = the j-th of the first
            # port's departures that nobody holds); with an element id equal to the first port's they arrive carrying a stamp under that id
            p['reoffer'] = True
            for script in p['sources']:
                for _, burst in script:
                    for k in range(len(burst)):
                        if burst[k][0] != 're' and rng.random() < 0.5:
                            burst[k] = ('rf', rng.randrange(8))
        c['peers'].append(p)
    c['peers_first'] = rng.random() < 0.3           # the peers are constructed before the port under test
    return c


def header(c):
    ql = 'None' if c['mode'] == 'none' else str(c['qlimit'])
    lb = 1 if (c['mode'] == 'bytes' or c.get('limit_bytes')) else 0
    h = f"CASE {c['cid']} port {bits(c['rate'])} {ql} {lb} {1 if c['hasid'] else 0}"
    if c['mode'] == 'red':
        h += f" red {bits(c['max_th'])} {bits(c['min_th'])} {bits(c['max_p'])} {c['w']}"
    return h


def held_somewhere(group, q):
    return any(sum(1 for _, x in r.arrivals if x is q) > sum(1 for _, x in r.departures if x is q) for r in group['all'])


def source9(env, run, script, counter, group):
    """a source process as harness.fifo.source, plus the entries ['re', j] / ['rf', j]: offer an existing Packet object again"""
    from harness.fifo import make_packet
    mine = []
    for delay, burst in script:
        yield env.timeout(delay)
        for a, b in burst:
            p = None
            if a in ('re', 'rf'):
                pool, cand = (mine if a == 're' else [q for _, q in group['first'].departures]), []
                for q in pool:
                    if not any(q is x for x in cand) and not held_somewhere(group, q):
                        cand.append(q)
                if cand:
                    p = cand[b % len(cand)]
                else:
                    a, b = 0, 10
            if p is None:
                counter[0] += 1
                p = make_packet(env, counter[0], a, b)
                mine.append(p)
            run.dev.put(p)


def build(env, c, draws, counter, group=None):
    """one port of the case (or of its group) with its sources, ledger and monitor in `env`; returns its FifoRun (not yet run)"""
    eid = c['eid'] if 'eid' in c else ('p1' if c['hasid'] else '')
    if c['mode'] == 'red':
        port = REDPort(env, c['rate'], c['max_th'], c['min_th'], c['max_p'], eid, c['qlimit'],
                       weight_factor=c['w'], limit_bytes=c.get('limit_bytes', False))
    else:
        port = Port(env, c['rate'], None if c['mode'] == 'none' else c['qlimit'], c['mode'] == 'bytes', eid)
    run = FifoRun(env, port, snap_port, draws if c['mode'] == 'red' else None)
    run.ledger = Ledger(run)
    for script in c['sources']:
        if c.get('reoffer'):
            env.process(source9(env, run, script, [0] if c.get('own_ids') else counter, group))
        else:
            env.process(source(env, run, script, [0] if c.get('own_ids') else counter, 3))
    if c['monitor']:
        n = [0]
        def dist():
            n[0] += 1
            return c['monitor']['period'] if n[0] < 40 else INF
        mon = PortMonitor(env, port, dist, c['monitor']['included'])
        env.process(mon.run())
        run.add_monitor(mon, c['monitor']['included'])
    run.raised = None
    run.peers = []
    return run


def run_impl(c):
    """build the port of case `c` - and the peer ports of its group, if any, in the same Environment - run to exhaustion;
    returns the FifoRun of the port under test (the peers' runs in `.peers`)"""
    env = Environment()
    peers = c.get('peers') or []
    draws = None
    if c['mode'] == 'red' or any(p['mode'] == 'red' for p in peers):
        # one recorder for the group: a draw belongs to the port whose put() consumed it (puts do not nest)
        draws = Draws(random.Random(c.get('rseed', 12345)))
    counter = [0]
    built = []
    group = {}
    if c.get('peers_first'):
        built = [build(env, p, draws, counter if p.get('shared_ids') else [0], group) for p in peers]
    run = build(env, c, draws, counter, group)
    if not c.get('peers_first'):
        built = [build(env, p, draws, counter if p.get('shared_ids') else [0], group) for p in peers]
    run.peers = built
    group.update(first=run, all=[run] + built)
    old = red_mod.random
    if draws is not None:
        red_mod.random = draws
    try:
        run_many(env, [run] + built)
    except BaseException as x:      # the property says the run never raises
        run.raised = f'{type(x).__name__}: {x}'
        for r in built:
            r.raised = run.raised
    finally:
        red_mod.random = old
    return run


def units(c, r):
    """[(label, sub-case, FifoRun)]: the port under test and the peers of its group, each a case of its own"""
    out = [('', c, r)]
    peers = c.get('peers') or []
    for j, (pc, pr) in enumerate(zip(peers, r.peers)):
        eid = pc.get('eid', '')
        same = ', equal to that of the first port' if eid and eid == ('p1' if c['hasid'] else '') else ''
        twin = ', built from the same configuration as the first' if pc.get('twin') else ''
        out.append((f'instance {j + 2} of {len(peers) + 1} ports in one Environment (element_id {eid!r}{same}{twin}): ',
                    dict(pc, cid=f"{c['cid']}.p{j + 1}"), pr))
    return out


def digest(r):
    """what the property speaks about, for the comparison of two executions of one case"""
    p = r.dev
    return {'accepted': [(t, q.packet_id, q.size) for t, q in r.arrivals], 'refused': [(t, q.packet_id) for t, q in r.drops],
            'departures': [(t, q.packet_id) for t, q in r.departures], 'received': p.packets_received, 'dropped': p.packets_dropped,
            'samples': [(list(m[0].sizes), list(m[0].sizes_byte)) for m in r.monitors]}


# ---- direct oracle (independent of the Lean model) -------------------------------------------------

def oracle(c, run):
    """restates C09 over the implementation's own trace"""
    fails = []
    rate = c['rate']
    if run.raised:
        return [{'what': f'the run raised {run.raised}', 'signature': 'port-raised'}]
    # departures: FIFO, k-th accepted leaves at max(arrival, previous departure) + 8*size/rate
    acc = run.arrivals
    dep = run.departures
    prev = None
    for k, (td, p) in enumerate(dep):
        if k >= len(acc) or acc[k][1] is not p:
            fails.append({'what': f'departure {k} is not the {k}-th accepted packet (FIFO / identity)', 'signature': 'port-fifo'})
            break
        ta = acc[k][0]
        start = ta if prev is None or ta > prev else prev
        want = start + p.size * 8 / rate if rate > 0 else start
        if td != want:
            fails.append({'what': f'packet {p.packet_id} (size {p.size}) left at {td}, expected max(arrival {ta}, prev {prev}) + 8*size/rate = {want}',
                          'signature': 'port-departure-time'})
            break
        prev = td
    if len(dep) != len(acc):
        fails.append({'what': f'{len(acc)} packets accepted but {len(dep)} departed once the simulation ran out of events', 'signature': 'port-lost'})
    p = run.dev
    if p.packets_received != len(acc) + p.packets_dropped:
        fails.append({'what': 'packets_received != accepted + packets_dropped', 'signature': 'port-counters'})
    if p.byte_size != 0:
        fails.append({'what': f'byte_size = {p.byte_size} with nothing held', 'signature': 'port-bytes-held'})
    # "each packet is stamped with its arrival time at this hop under the port's element id" - every packet handed to put(), accepted or
    # refused, fresh or already carrying a stamp under that id (the same object offered again, a second lap, an earlier hop with the
    # same element id): right after the put the entry under the port's id is the instant of THIS arrival.  (A REDPort does not stamp.)
    led = getattr(run, 'ledger', None)
    if led is not None and c['hasid'] and c['mode'] != 'red' and led.badstamp:
        t, pid, found, before = led.badstamp[0]
        why = 'it carried no stamp under that id before' if before is None else \
            f'it arrived carrying the stamp {before!r} under that id (the object had been offered before to a port with this element id)'
        fails.append({'what': f'packet {pid} was handed to the port (element id {p.element_id!r}) at {t!r}; after the put its per-hop table holds '
                              f'{found!r} under that id instead of the arrival time at this hop; {why} ({len(led.badstamp)} such puts)',
                      'signature': 'port-perhop-stamp'})
    if c['hasid'] and c['mode'] != 'red' and run.stamps != p.packets_received:
        fails.append({'what': f'{p.packets_received} packets received, {run.stamps} stamped with their arrival time under the element id', 'signature': 'port-perhop'})
    # "With a byte limit a packet is refused iff the bytes held (waiting plus in transmission) plus its size would exceed
    # qlimit" - both directions, at the boundary too (held + size == qlimit is admitted); "never when qlimit is None".
    # The bytes held are the ledger's (accepted minus handed to `out`), not the port's own `byte_size`.
    led = getattr(run, 'ledger', None)
    if led is not None and c['mode'] in ('bytes', 'none'):
        for t, pid, size, held, refused in led.puts:
            want = c['mode'] == 'bytes' and held + size > c['qlimit']
            if want != refused:
                lim = f'byte limit {c["qlimit"]}' if c['mode'] == 'bytes' else 'no limit'
                fails.append({'what': f'{lim}: packet {pid} of {size} bytes arrived at {t!r} with {held} bytes held (waiting plus in transmission), '
                                      f'{held} + {size} {">" if held + size > (c["qlimit"] if c["mode"] == "bytes" else INF) else "<="} '
                                      f'{c["qlimit"] if c["mode"] == "bytes" else "inf"}: it was {"refused" if refused else "admitted"}',
                              'signature': 'port-drop-bytes-rule'})
                break
    # "with a packet limit [a packet is refused] iff qlimit-1 packets are already waiting to start transmission (one place is always reserved
    # for the packet in transmission)" - both directions, the waiting packets counted by the ledger (accepted and not yet taken by the port
    # process; a packet accepted earlier in the same kernel step is waiting), not read from the port's store
    if led is not None and c['mode'] == 'packets':
        for t, pid, nwait, refused, idle0 in led.pputs:
            if (nwait >= c['qlimit'] - 1) != refused:
                burst = sum(1 for x in led.pputs if x[0] == t)
                fails.append({'what': f'packet limit {c["qlimit"]}: packet {pid} arrived at {t!r} with {nwait} packets waiting to start transmission (accepted by put() and '
                                      f'not yet taken by the port process, by the harness\'s own account; {burst} packets were offered in this instant'
                                      f'{", the port was idle when the burst began" if idle0 else ""}): it was {"refused" if refused else "admitted"}, '
                                      f'the rule (refused iff qlimit - 1 = {c["qlimit"] - 1} are waiting) says {"admit" if refused else "refuse"}',
                              'signature': 'port-drop-packets-account'})
                break
    # tail-drop decisions, recomputed from the arrival/departure history
    if c['mode'] in ('none', 'bytes', 'packets'):
        ev = sorted([(t, 1, i, 'a', q) for i, (t, q) in enumerate(run.arrivals)] +
                    [(t, 1, i, 'd', q) for i, (t, q) in enumerate(run.drops)], key=lambda e: e[0])
        # bytes held at each put = accepted so far - departed strictly before (in action order)
        for l in run.obs:
            pass
    return fails


def drop_oracle(c, lines, acts=None):
    """the drop decision of every put, recomputed from the public figures of the observation just before it (and the size
    of the packet offered, from the action line)"""
    fails = []
    if c['mode'] == 'red':
        return fails
    prev = None
    for k, l in enumerate(lines):
        if l.startswith('sample '):
            l = l + ' | '
        if ' | ' not in l:
            continue
        head, snap = l.split(' | ')
        f = dict(kv.split('=') for kv in snap.split(' ') if '=' in kv)
        
        if head.startswith('put ') and prev is not None:
            size = int(f['bs']) - int(prev['bs']) if head == 'put acc' else None
            waiting = len([x for x in prev['it'].split(',') if x])
            if c['mode'] == 'none' and head != 'put acc':
                fails.append({'what': 'a port without limit dropped a packet', 'signature': 'port-drop-unlimited'})
            if c['mode'] == 'packets':
                must_drop = waiting >= c['qlimit'] - 1
                if must_drop != (head == 'put drop'):
                    fails.append({'what': f'packet limit {c["qlimit"]}: {waiting} packets waiting, decision `{head}`', 'signature': 'port-drop-packets'})
            if c['mode'] == 'bytes' and head == 'put acc' and int(f['bs']) > c['qlimit']:
                fails.append({'what': f'byte limit {c["qlimit"]} exceeded: occupancy {f["bs"]} after an accepted packet', 'signature': 'port-drop-bytes'})
            if c['mode'] == 'bytes' and acts is not None and k < len(acts) and acts[k].startswith('put '):
                offered = int(acts[k].split(' ')[3])
                must_drop = int(prev['bs']) + offered > c['qlimit']
                if must_drop != (head == 'put drop'):
                    fails.append({'what': f'byte limit {c["qlimit"]}: {prev["bs"]} bytes held, packet of {offered} bytes offered, decision `{head}` '
                                          f'(refused iff held + size > qlimit)', 'signature': 'port-drop-bytes-iff'})
        if head.startswith('sample ') and prev is not None and c.get('monitor'):
            _, tot, byt = head.split(' ')
            inc = c['monitor']['included']
            want_b = int(prev['bs']) - (0 if inc else int(prev['bsz']))
            want_t = len([x for x in prev['it'].split(',') if x]) + (int(prev['busy']) if inc else 0)
            if int(byt) != want_b or int(tot) != want_t:
                fails.append({'what': f'PortMonitor sample ({tot} packets, {byt} bytes), in-service {"included" if inc else "excluded"}: '
                                      f'the port holds {want_t} packets / {want_b} bytes by its own figures', 'signature': 'port-monitor'})
        if '=' in snap:
            prev = f
    return fails


def red_oracle(c, run):
    """RED's three regions, recomputed from the average the port publishes and the draw it consumed"""
    fails = []
    if c['mode'] != 'red':
        return fails
    from vlib.util import unbits
    for act, ob in zip(run.acts, run.obs):
        if not act.startswith('put ') or ' | ' not in ob:
            continue
        head, snap = ob.split(' | ')
        f = dict(kv.split('=') for kv in snap.split(' ') if '=' in kv)
        avg = unbits(int(f['avg'])); draw = unbits(int(act.split(' ')[4]))
        dropped = head == 'put drop'
        if avg >= c['qlimit']:
            want = True
        elif avg >= c['max_th']:
            want = draw <= c['max_p']
        elif avg >= c['min_th']:
            want = draw <= (avg - c['min_th']) / (c['max_th'] - c['min_th']) * c['max_p']
        else:
            want = False
        if want != dropped:
            fails.append({'what': f'RED: average {avg}, thresholds min {c["min_th"]} max {c["max_th"]} qlimit {c["qlimit"]}, max_p {c["max_p"]}, '
                                  f'draw {draw}: packet was {"dropped" if dropped else "accepted"}', 'signature': 'red-region'})
            break
    return fails


# ---- the Port as a process on the kernel MODEL (lean/OnlVerif/Net/PortOnK.lean, driver mode `portk`) -------------

def gen_portk(rng, cid):
    """one source, no limit or a byte limit, every rate class; gaps chosen so that arrivals hit departure instants"""
    rate = rng.choice([0.0, 8.0, 8.0, 8.0, 64.0, 3.0, 100.0, 1e6, -1.0])
    sizes = [1, 2, 3, 5, 10] if rate == 8.0 else [10, 50, 60, 100, 200, 1500]
    ql = rng.choice([None, None, 0, 3, 5, 8, 12]) if rate == 8.0 else rng.choice([None, None, 0, 60, 100, 150, 400, 3000])
    arr = []
    for _ in range(rng.randint(0, 12)):
        gap = rng.choice([0, 0, 0, 1, 1, 2, 3, 5, 10, 12.5, 0.5, round(rng.random() * 30, 3)])
        arr.append((gap, rng.choice(sizes)))
    return {'cid': f'k{cid}', 'portk': True, 'rate': rate, 'qlimit': ql, 'arrivals': arr}


def portk_text(c):
    ql = 'None' if c['qlimit'] is None else str(c['qlimit'])
    return [f"CASE {c['cid']} {bits(c['rate'])} {ql}"] + [f'arr {bits(g)} {i} {s}' for i, (g, s) in enumerate(c['arrivals'])] + ['END']


def portk_impl(c):
    """the real Port and a real source process on the real kernel, public API only; same lines as the driver prints"""
    from onl.packet import Packet
    env = Environment()
    port = Port(env, c['rate'], c['qlimit'], True, '')
    outs = []

    class Rec:
        def put(self, packet):
            outs.append(f'out {packet.packet_id} {bits(env.now)}')
    port.out = Rec()

    def src():
        for i, (gap, size) in enumerate(c['arrivals']):
            yield env.timeout(gap)
            port.put(Packet(env.now, size, i, src='src', flow_id=0))
    env.process(src())
    try:
        with quiet():
            env.run()
        tag = 'RET'
    except BaseException as x:
        tag = f'RAISED {type(x).__name__}'
    return ([tag] + outs + [f'cells bs={port.byte_size} rc={port.packets_received} dr={port.packets_dropped} '
                            f'busy={port.busy} bsz={port.busy_packet_size}', f'now {bits(env.now)}'])


def portk_oracle(c, lines):
    """the recurrence, restated over the implementation's own observations (no limit only)"""
    if c['qlimit'] is not None or lines[0] != 'RET':
        return [] if lines[0] == 'RET' else [{'what': f'the run ended with {lines[0]}', 'signature': 'portk-raised'}]
    from vlib.util import unbits
    outs = [(int(l.split()[1]), unbits(int(l.split()[2]))) for l in lines if l.startswith('out ')]
    t, prev, want = 0.0, None, []
    for i, (gap, size) in enumerate(c['arrivals']):
        t = t + gap
        start = t if prev is None or t > prev else prev
        prev = start + size * 8 / c['rate'] if c['rate'] > 0 else start
        want.append((i, prev))
    if outs != want:
        return [{'what': f'departures {outs[:6]} differ from the recurrence {want[:6]}', 'signature': 'portk-recurrence'}]
    return []


@guarded_leg(lambda: ([], [], 0))
def run_portk(cases):
    text, impl = [], {}
    for c in cases:
        impl[c['cid']] = portk_impl(c)
        text += portk_text(c)
    model = split_cases(run_driver('portk', '\n'.join(text) + '\n')) if cases else {}
    dis, orc, nontriv = [], [], 0
    for c in cases:
        a, b = impl[c['cid']], model.get(c['cid'])
        if a != b:
            i = next((i for i in range(max(len(a), len(b or []))) if i >= len(a) or not b or i >= len(b) or a[i] != b[i]), 0)
            dis.append({'case': c, 'detail': f'portk line {i}: impl `{a[i] if i < len(a) else None}` model `{b[i] if b and i < len(b) else None}`',
                        'impl': a[:300], 'model': (b or [])[:300]})
        for f in portk_oracle(c, a):
            f['case'] = c; f['trace'] = a[:300]
            orc.append(f)
        gaps = [g for g, _ in c['arrivals']]
        if len(gaps) >= 2 and (0 in gaps[1:] or ' dr=0 ' not in a[-2]):
            nontriv += 1
    return dis, orc, nontriv


# ---- generator -> REDPort -> sink as processes on the kernel MODEL (lean/OnlVerif/Net/REDOnK.lean, driver mode `redk`) ----

ASSUMPTIONS.append('redk leg (DistPacketGenerator -> REDPort -> PacketSink on the real kernel vs the one program of the kernel model in Net/REDOnK.lean): '
                   '`arrival_dist` / `size_dist` are scripted (they pop the next entry of a gap / size list of equal length), `random.uniform` is replaced for the '
                   'duration of the run by a function that pops the next entry of a draw list (at least one entry per packet) and records it; when the gap script is '
                   'dry `arrival_dist` raises a private exception, the generator process fails, `env.run()` raises it and the harness calls `env.run()` again so that '
                   'the port finishes its transmissions (the model\'s generator simply returns there; both are reported as RET); two taps sit on the `out` links '
                   '(generator -> tap -> REDPort.put, Port.run -> tap -> PacketSink.put): they read `env.now`, `port.byte_size` / `len(port.store.items)` before the put, '
                   '`port.average_queue_size` / `packets_dropped` after it, and the last entries of `sink.arrivals[flow]` / `sink.waits[flow]`; one generator, one flow, '
                   'element_id of the port empty, non-negative gaps; nothing is claimed about the distribution of the draws')

_REDK = {'hist': collections.Counter()}


class _ScriptDry(Exception):
    """the scripted arrival distribution of a redk case has no entry left"""


def gen_redk(rng, cid):
    """0-14 packets through generator -> REDPort -> sink: small weight factors so that the average moves, thresholds on the scale of
    the queue figure (packets waiting / bytes held) so that it crosses min_th, max_th and qlimit, slow rates and bursts so that queues
    build, rate 8 with small sizes and whole gaps so that arrivals hit departure instants, draws on the region boundaries"""
    rate = rng.choice([0.0, 8.0, 8.0, 8, 8.0, 64.0, 3.0, 100.0, 1e6, 0.5, 1.0])
    pool = [1, 2, 3, 5, 10] if rate == 8 else [10, 50, 60, 100, 200, 1500]
    gpool = [0, 0, 0, 1, 1, 2, 3, 5, 10] if rate == 8 else [0, 0, 0, 1, 1, 2, 3, 5, 10, 12.5, 0.5, round(rng.random() * 30, 3)]
    n = rng.randint(0, 14)
    if rng.random() < 0.3:
        one = rng.choice(pool)
        sizes = [one] * n
    else:
        sizes = [rng.choice(pool) for _ in range(n)]
    gaps = []
    while len(gaps) < n:
        if rng.random() < 0.25:
            gaps += [rng.choice(gpool)] + [0] * rng.randint(1, 5)          # a burst
        else:
            gaps.append(rng.choice(gpool))
    gaps = gaps[:n]
    lb = rng.random() < 0.45
    unit = (rng.choice([1, 2, 3, 5]) if rate == 8 else rng.choice([10, 50, 100, 200])) if lb else 1
    min_th = rng.choice([0, 0, 1, 1, 2, 3]) * unit
    max_th = min_th + rng.choice([1, 2, 2, 4]) * unit
    qlimit = max_th + rng.choice([0, 1, 1, 3, 6]) * unit
    x = rng.random()
    if x < 0.05:
        min_th, max_th = max_th + 1, min_th                                 # thresholds the wrong way round (never equal)
    elif x < 0.10:
        qlimit = max(0, min_th - unit)                                      # the hard limit below the thresholds
    max_p = rng.choice([0.1, 0.5, 0.5, 1.0, 0.02, 0.0])
    w = rng.choice([0, 0, 1, 1, 2, 2, 3, 4, 9])
    us = []
    for _ in range(n + rng.randint(0, 2)):
        us.append(rng.choice([0.0, 1.0, max_p, max_p, rng.random(), rng.random(), rng.random() * max_p, 0.01, 0.25]))
    idl = rng.choice([0, 0.5, 1, 2.75])
    x = rng.random()
    if x < 0.55 or n == 0:
        fin = None
    elif x < 0.65:
        fin = 0
    else:
        t, inst = 0 + idl, []
        for g in gaps:
            t = t + g
            inst.append(t)
        k = rng.randrange(n)
        fin = rng.choice([inst[k], inst[k], inst[k] + 0.25, round(rng.random() * (inst[-1] + 1), 3)])
    return {'cid': f'r{cid}', 'redk': True, 'rate': rate, 'qlimit': qlimit, 'max_th': max_th, 'min_th': min_th, 'max_p': max_p, 'w': w,
            'limit_bytes': lb, 'initial_delay': idl, 'finish': fin, 'flow': rng.choice([0, 0, 1, 7]), 'gaps': gaps, 'sizes': sizes, 'us': us}


def redk_text(c):
    fin = 'inf' if c['finish'] is None else str(bits(c['finish']))
    return ([f"CASE {c['cid']} {bits(c['rate'])} {c['qlimit']} {bits(c['max_th'])} {bits(c['min_th'])} {bits(c['max_p'])} {c['w']} "
             f"{1 if c['limit_bytes'] else 0} {bits(c['initial_delay'])} {fin} {c['flow']}"] +
            [f'g {bits(g)} {z}' for g, z in zip(c['gaps'], c['sizes'])] + [f'u {bits(u)}' for u in c['us']] + ['END'])


def redk_impl(c):
    """the real DistPacketGenerator, REDPort and PacketSink on the real kernel, public API only, two taps on the `out` links; the
    lines the driver prints, plus before every `gen` line a line `cur <queue figure read before the put> <packet.size>` for the
    oracle (left out of the comparison with the model)"""
    from onl.packet.dist_generator import DistPacketGenerator
    from onl.packet.sink import PacketSink
    env = Environment()
    flow = c['flow']
    gaps, sizes, us = list(c['gaps']), list(c['sizes']), list(c['us'])
    lines, taken = [], []

    def arrival_dist():
        if not gaps:
            raise _ScriptDry()
        return gaps.pop(0)

    def size_dist():
        return sizes.pop(0)

    def uniform(a, b):
        u = us.pop(0)
        taken.append(u)
        return u

    port = REDPort(env, c['rate'], c['max_th'], c['min_th'], c['max_p'], '', c['qlimit'], weight_factor=c['w'], limit_bytes=c['limit_bytes'])
    sink = PacketSink(env)
    gen = DistPacketGenerator(env, 'src', arrival_dist, size_dist, initial_delay=c['initial_delay'],
                              finish=INF if c['finish'] is None else c['finish'], flow_id=flow, rec_flow=True)

    class Tap1:
        def put(self, packet):
            cur = port.byte_size if c['limit_bytes'] else len(port.store.items)
            lines.append(f'cur {cur} {packet.size}')
            lines.append(f'gen {packet.packet_id} {bits(env.now)}')
            d0, k0 = port.packets_dropped, len(taken)
            port.put(packet)
            lines.append(f'avg {bits(float(port.average_queue_size))} {bits(env.now)}')
            if len(taken) > k0:
                lines.append(f'draw {bits(taken[-1])}')
            if port.packets_dropped > d0:
                lines.append(f'drop {packet.packet_id} {bits(env.now)}')

    class Tap2:
        def put(self, packet):
            lines.append(f'out {packet.packet_id} {bits(env.now)}')
            sink.put(packet)
            lines.append(f'sink {packet.packet_id} {bits(sink.arrivals[flow][-1])} {bits(sink.waits[flow][-1])}')

    gen.out = Tap1()
    port.out = Tap2()
    old = random.uniform
    random.uniform = uniform
    try:
        with quiet():
            try:
                env.run()
            except _ScriptDry:
                env.run()       # the generator is gone (its script is dry); the port still has events
        tag = 'RET'
    except BaseException as x:
        tag = f'RAISED {type(x).__name__}'
    finally:
        random.uniform = old
    return ([tag] + lines +
            [f'cells bs={port.byte_size} rc={port.packets_received} dr={port.packets_dropped} busy={port.busy} bsz={port.busy_packet_size} '
             f'avg={bits(float(port.average_queue_size))} scnt={sink.packets_received[flow]} sbytes={sink.bytes_received[flow]}', f'now {bits(env.now)}'])


def redk_region(c, avg):
    """which branch of REDPort.put an average falls into"""
    if avg >= c['qlimit']:
        return 'qlimit'
    if avg >= c['max_th']:
        return 'max'
    if avg >= c['min_th']:
        return 'min'
    return 'below'


def redk_parse(lines):
    """arrival records, out records and sink records of a redk trace, in order"""
    from vlib.util import unbits
    recs, outs, sinks, seq = [], [], [], []
    for l in lines:
        w = l.split()
        if w[0] == 'cur':
            recs.append({'cur': int(w[1]), 'size': int(w[2]), 'id': None, 't': None, 'avg': None, 'draw': None, 'drop': False})
        elif w[0] in ('gen', 'avg', 'draw', 'drop'):
            if not recs:
                recs.append({'cur': None, 'size': None, 'id': None, 't': None, 'avg': None, 'draw': None, 'drop': False})
            r = recs[-1]
            if w[0] == 'gen':
                r['id'], r['t'] = int(w[1]), unbits(int(w[2]))
                seq.append(('gen', r))
            elif w[0] == 'avg':
                r['avg'] = unbits(int(w[1]))
            elif w[0] == 'draw':
                r['draw'] = unbits(int(w[1]))
            else:
                r['drop'] = True
        elif w[0] == 'out':
            outs.append((int(w[1]), unbits(int(w[2]))))
            seq.append(('out', outs[-1]))
        elif w[0] == 'sink':
            sinks.append((int(w[1]), unbits(int(w[2])), unbits(int(w[3]))))
    return recs, outs, sinks, seq


def redk_oracle(c, lines):
    """direct oracle over the implementation's own lines (with the `cur` lines): (i) the generator law, (ii) the RED rule of every put,
    (iii) the sink's records and counters, FIFO / nothing lost / the departure recurrence of the inherited Port.run"""
    if lines[0] != 'RET':
        return [{'what': f'the run ended with {lines[0]}', 'signature': 'redk-raised'}]
    fails = []

    def fail(what, sig):
        fails.append({'what': what, 'signature': sig})
    recs, outs, sinks, seq = redk_parse(lines)
    cells = dict(kv.split('=') for kv in lines[-2].split()[1:])
    fin = INF if c['finish'] is None else c['finish']
    # (i) packet n has id n and the n-th size, leaves at initial_delay + the running sum of the gaps; none once now >= finish at the loop test
    t, want = 0 + c['initial_delay'], []
    for k, g in enumerate(c['gaps']):
        if not t < fin:
            break
        t = t + g
        want.append((k + 1, t, c['sizes'][k]))
    got = [(r['id'], r['t'], r['size']) for r in recs]
    if got != want:
        k = next((k for k in range(max(len(got), len(want))) if k >= len(got) or k >= len(want) or got[k] != want[k]), 0)
        fail(f'generator: emission {k} is (id, instant, size) = {got[k] if k < len(got) else None}, the law (initial_delay {c["initial_delay"]}, '
             f'finish {fin}, scripts) gives {want[k] if k < len(want) else None}; {len(got)} emitted, {len(want)} expected', 'redk-generator-law')
        return fails
    # (ii) the RED rule: the average, the draw (consumed iff in a random region, in script order), the decision
    alpha = 2 ** (-c['w'])
    prev, nd, held = 0, 0, 0
    size_of = {r['id']: r['size'] for r in recs}
    for kind, x in seq:
        if kind == 'out':
            held -= size_of.get(x[0], 0)
            continue
        r = x
        if c['limit_bytes'] and r['cur'] != held:
            fail(f'packet {r["id"]} arrived with byte_size = {r["cur"]}; accepted minus handed on is {held} bytes', 'redk-bytes-held')
            break
        avg = prev * (1 - alpha) + r['cur'] * alpha
        if r['avg'] is None or float(avg) != r['avg']:
            fail(f'packet {r["id"]}: average_queue_size after the put is {r["avg"]!r}; {prev!r} * (1 - {alpha}) + {r["cur"]} * {alpha} = {avg!r}', 'redk-average')
            break
        prev = avg
        reg = redk_region(c, avg)
        needs = reg in ('max', 'min')
        if needs != (r['draw'] is not None):
            fail(f'packet {r["id"]}: average {avg!r} (min_th {c["min_th"]}, max_th {c["max_th"]}, qlimit {c["qlimit"]}) is in region `{reg}`: '
                 f'random.uniform was {"not " if r["draw"] is None else ""}called', 'redk-draw-consumed')
            break
        if needs:
            if nd >= len(c['us']) or r['draw'] != c['us'][nd]:
                fail(f'packet {r["id"]}: the draw recorded {r["draw"]!r} is not entry {nd} of the script', 'redk-draw-order')
                break
            nd += 1
        u = r['draw']
        wantdrop = reg == 'qlimit' or (reg == 'max' and u <= c['max_p']) or \
            (reg == 'min' and u <= (avg - c['min_th']) / (c['max_th'] - c['min_th']) * c['max_p'])
        if wantdrop != r['drop']:
            fail(f'RED: packet {r["id"]}, average {avg!r}, thresholds min {c["min_th"]} max {c["max_th"]} qlimit {c["qlimit"]}, max_p {c["max_p"]}, '
                 f'draw {u!r} (region `{reg}`): packet was {"dropped" if r["drop"] else "accepted"}', 'redk-region')
            break
        if not r['drop']:
            held += r['size']
    if fails:
        return fails
    # (iii) what left the port is what was accepted, in order, nothing lost; the k-th accepted leaves at max(arrival, previous departure) + 8*size/rate
    acc = [r for r in recs if not r['drop']]
    accids = [r['id'] for r in acc]
    for i, _ in outs:
        if i not in accids:
            fail(f'packet {i} was handed to the sink but {"was dropped" if i in size_of else "was never emitted"}', 'redk-out-not-accepted')
            return fails
    if [i for i, _ in outs] != accids:
        fail(f'packets handed on {[i for i, _ in outs][:14]}, packets accepted {accids[:14]} (FIFO, each once, none left behind when the run is over)', 'redk-fifo')
        return fails
    prevd = None
    for r, (i, td) in zip(acc, outs):
        start = r['t'] if prevd is None or r['t'] > prevd else prevd
        wantd = start + r['size'] * 8 / c['rate'] if c['rate'] > 0 else start
        if td != wantd:
            fail(f'packet {i} (size {r["size"]}) left at {td!r}, expected max(arrival {r["t"]!r}, prev {prevd!r}) + 8*size/rate = {wantd!r}', 'redk-departure-time')
            break
        prevd = td
    # the sink: one record per hand-over, arrival instant = that instant, wait = that instant - the instant the generator created the packet
    gt = {r['id']: r['t'] for r in recs}
    wants = [(i, td, td - gt[i]) for i, td in outs]
    if sinks != wants:
        k = next((k for k in range(max(len(sinks), len(wants))) if k >= len(sinks) or k >= len(wants) or sinks[k] != wants[k]), 0)
        fail(f'sink record {k} (id, arrival, wait) = {sinks[k] if k < len(sinks) else None}, hand-over gives {wants[k] if k < len(wants) else None}', 'redk-sink-record')
    if int(cells['scnt']) != len(outs) or int(cells['sbytes']) != sum(size_of[i] for i, _ in outs):
        fail(f'sink counters: packets_received {cells["scnt"]}, bytes_received {cells["sbytes"]}; {len(outs)} packets of '
             f'{sum(size_of[i] for i, _ in outs)} bytes were handed over', 'redk-sink-counters')
    if int(cells['rc']) != len(recs) or int(cells['dr']) != len(recs) - len(acc) or int(cells['bs']) != 0:
        fail(f'port counters {lines[-2]}: {len(recs)} packets offered, {len(recs) - len(acc)} refused, nothing held', 'redk-counters')
    return fails


@guarded_leg(lambda: ([], [], 0))
def run_redk(cases):
    text, impl = [], {}
    for c in cases:
        impl[c['cid']] = redk_impl(c)
        text += redk_text(c)
    model = split_cases(run_driver('redk', '\n'.join(text) + '\n')) if cases else {}
    dis, orc, nontriv = [], [], 0
    hist, seen = _REDK['hist'], set()
    hist.clear()
    for c in cases:
        full = impl[c['cid']]
        a, b = [l for l in full if not l.startswith('cur ')], model.get(c['cid'])
        if a != b:
            i = next((i for i in range(max(len(a), len(b or []))) if i >= len(a) or not b or i >= len(b) or a[i] != b[i]), 0)
            dis.append({'case': c, 'detail': f'redk line {i}: impl `{a[i] if i < len(a) else None}` model `{b[i] if b and i < len(b) else None}`',
                        'impl': a[:300], 'model': (b or [])[:300]})
        for f in redk_oracle(c, full):
            f['case'] = c; f['trace'] = full[:300]
            orc.append(f)
        recs, outs, _, _ = redk_parse(full)
        regs = [(redk_region(c, r['avg']), r) for r in recs if r['avg'] is not None]
        for reg in ('qlimit', 'max', 'min'):
            hist[f'cases_with_drop_in_region_{reg}'] += any(g == reg and r['drop'] for g, r in regs)
            hist[f'cases_reaching_region_{reg}'] += any(g == reg for g, r in regs)
        hist['cases_with_draw_accepted'] += any(r['draw'] is not None and not r['drop'] for r in recs)
        hist['cases_finish_reached_mid_run'] += c['finish'] is not None and 0 < len(recs) < len(c['gaps'])
        hist['cases_finish_nothing_emitted'] += c['finish'] is not None and len(recs) == 0 and len(c['gaps']) > 0
        hist['cases_limit_bytes_true' if c['limit_bytes'] else 'cases_limit_bytes_false'] += 1
        hist['cases_with_bursts'] += any(x['t'] == y['t'] for x, y in zip(recs, recs[1:]))
        hist['cases_with_arrival_at_departure_instant'] += bool({r['t'] for r in recs} & {t for _, t in outs})
        hist['packets_emitted'] += len(recs)
        hist['draws_consumed'] += sum(r['draw'] is not None for r in recs)
        hist['drops'] += sum(r['drop'] for r in recs)
        hist['ended:' + full[0]] += 1
        key = json.dumps({k: v for k, v in c.items() if k != 'cid'}, sort_keys=True)
        if key not in seen and any(r['draw'] is not None or r['drop'] for r in recs):
            nontriv += 1
        seen.add(key)
    return dis, orc, nontriv

# ---- end of the redk leg -----------------------------------------------------------------------------------------------


def run(ctx):
    rng = random.Random(f'C09-{ctx.seed}')
    if ctx.replay:
        j = json.load(open(ctx.replay))
        cases = [j['case']] if j.get('case') else [d['case'] for d in j.get('broken_correspondence', [])]
    else:
        cases = [gen_group(rng, i) for i in range(500 if ctx.quick else 10000)]
    krng = random.Random(f'C09-portk-{ctx.seed}')
    kcases = [c for c in cases if c.get('portk')] if ctx.replay else \
        [gen_portk(krng, i) for i in range(300 if ctx.quick else 5000)]
    rrng = random.Random(f'C09-redk-{ctx.seed}')
    rcases = [c for c in cases if c.get('redk')] if ctx.replay else \
        [gen_redk(rrng, i) for i in range(300 if ctx.quick else 5000)]
    cases = [c for c in cases if not c.get('portk') and not c.get('redk') and not str(c.get('kind', '')).startswith('dyn:')]
    text, runs = [], {}
    for c in cases:
        r = run_impl(c)
        runs[c['cid']] = r
        for _, uc, ur in units(c, r):
            text.append(header(uc)); text += ur.acts; text.append('END')
    model = split_cases(run_driver('fifo', '\n'.join(text) + '\n'))
    dis, orc = [], []
    hist = collections.Counter()
    distinct = set(); nontriv = 0; samples = []
    for c in cases:
        r = runs[c['cid']]
        a = r.obs
        for l in r.acts:
            hist[l.split(' ')[0]] += 1
        hist['mode:' + c['mode']] += 1
        hist['drops'] += len(r.drops)
        if c['mode'] == 'bytes':
            hist['puts_filling_byte_limit_exactly'] += sum(1 for x in r.ledger.puts if x[3] + x[2] == c['qlimit'])
            hist['buffer_sized_packet_at_idle_port'] += sum(1 for x in r.ledger.puts if x[3] == 0 and x[2] == c['qlimit'])
        if c.get('peers'):
            hist['cases_with_peer_ports'] += 1
            hist['peer_ports'] += len(c['peers'])
            hist['peer_ports:element_id_equal_to_the_first'] += sum(1 for p in c['peers'] if p['eid'] and p['eid'] == ('p1' if c['hasid'] else ''))
            hist['peer_ports:twin_configuration'] += sum(1 for p in c['peers'] if p.get('twin'))
            hist['peer_ports:with_monitor'] += sum(1 for p in c['peers'] if p['monitor'])
            hist['peer_ports:packets_put'] += sum(len(pr.arrivals) + len(pr.drops) for pr in r.peers)
            hist['peer_ports:drops'] += sum(len(pr.drops) for pr in r.peers)
        key = json.dumps({k: v for k, v in c.items() if k != 'cid'}, sort_keys=True)
        nt = len(r.drops) > 0 or any(x[0] == y[0] for x, y in zip(r.arrivals[1:], r.departures))
        if nt and key not in distinct:
            nontriv += 1
        distinct.add(key)
        for label, uc, ur in units(c, r):
            if uc.get('reoffer'):
                hist['ports_offered_existing_packet_objects_again'] += 1
            if uc['hasid'] and uc['mode'] != 'red':
                hist['puts_of_packets_already_stamped_under_the_port_id'] += ur.ledger.restamped
            if uc['mode'] == 'packets':
                pp = ur.ledger.pputs
                hist['packet_limit:puts_judged_against_the_harness_account_of_waiting_packets'] += len(pp)
                hist['packet_limit:puts_with_exactly_qlimit-1_waiting'] += sum(1 for x in pp if x[2] == uc['qlimit'] - 1)
                # bursts of at least qlimit packets offered in one instant to a port that was idle (running, its process holding no packet) when the burst began
                byt = collections.Counter(x[0] for x in pp if x[4])
                hist['packet_limit:same-instant_bursts_of_at_least_qlimit_packets_into_an_idle_port'] += sum(1 for t, n in byt.items() if n >= max(uc['qlimit'], 2))
            ua, ub = ur.obs, model.get(uc['cid'])
            if ua != ub:
                i = next((i for i in range(max(len(ua), len(ub or []))) if i >= len(ua) or not ub or i >= len(ub) or ua[i] != ub[i]), 0)
                dis.append({'case': c, 'detail': f'{label}line {i}: impl `{ua[i] if i < len(ua) else None}` model `{ub[i] if ub and i < len(ub) else None}`',
                            'impl': ua[:300], 'model': (ub or [])[:300]})
            for f in oracle(uc, ur) + drop_oracle(uc, ua, ur.acts) + red_oracle(uc, ur):
                f['what'] = label + f['what']
                f['case'] = c; f['trace'] = ua[:300]
                orc.append(f)
        if len(samples) < 2 and nt:
            samples.append({'config': {k: v for k, v in c.items() if k != 'sources'}, 'sources': c['sources'], 'actions': r.acts[:40]})
    # the same configurations built again later in this process (fresh Environment): a port's behaviour is a function of its
    # configuration, its arrivals and (RED) the draws - so what the property speaks about must come out the same
    again = 0
    for c in ([] if ctx.replay else cases[:40]):
        r1, r2 = runs[c['cid']], run_impl(c)
        again += 1
        for (label, uc, u1), (_, _, u2) in zip(units(c, r1), units(c, r2)):
            d1, d2 = digest(u1), digest(u2)
            if d1 != d2:
                k = next(k for k in d1 if d1[k] != d2[k])
                orc.append({'what': f'{label}the same case executed a second time in this process (after {len(cases)} other cases) gives other {k}: '
                                    f'first {str(d1[k])[:200]}, again {str(d2[k])[:200]}', 'signature': 'port-second-execution-differs',
                            'case': c, 'trace': u2.obs[:300]})
                break
    kdis, korc, knt = run_portk(kcases)
    dis += kdis; orc += korc
    rdis, rorc, rnt = run_redk(rcases)
    dis += rdis; orc += rorc
    # oracle-only: rate / qlimit reassigned while the port runs, next hops that offer a packet again from inside their own put()
    dyn = dynport.run_family(ctx, 'C09', ['rate', 'qlimit', 'reflect', 'reflect'], ['rule', 'occupancy', 'service', 'conserve'], 90, 1800)
    orc += dyn['oracle_failures']
    cov = {'evaluations': len(cases), 'distinct_nontrivial': nontriv,
           'rule': 'seeded random port configurations x arrival workloads (1-3 sources, bursts, arrivals at departure instants), in half of the cases next to 1-2 peer ports with their own traffic in the same Environment; non-trivial = distinct case with at least one drop or an arrival at the very instant of a departure',
           'samples': samples, 'traces_validated_against_impl': len(cases) - len({d['case']['cid'] for d in dis}),
           'action_lines_replayed': sum(len(ur.acts) for c in cases for _, _, ur in units(c, runs[c['cid']])), 'cases_executed_a_second_time': again, 'operation_histogram': dict(sorted(hist.items())),
           'portk_program_runs': len(kcases), 'portk_runs_with_bursts_or_drops': knt,
           'portk_rule': 'the Port-on-kernel-model program (PortOnK.lean) run by the driver vs the real Port + source process on the real kernel: how run() ended, every out.put (id, env.now bits), final attributes, final clock',
           'redk_program_runs': len(rcases), 'redk_runs_nontrivial': rnt,
           'redk_rule': 'the generator -> REDPort -> sink program on the kernel model (REDOnK.lean) run by the driver vs the real DistPacketGenerator, REDPort and PacketSink on the real kernel (scripted distributions and draws, taps on the two out links): how run() ended, in order every emission, average after the put, draw, drop, hand-over and sink record (ids, env.now / average / draw / wait bits), final attributes, final clock; non-trivial = distinct case in which a draw was consumed or a packet dropped',
           'redk_histogram': dict(sorted(_REDK['hist'].items())),
           'translated': _PREP.get('translated', []), 'generated_files_rewritten': _PREP.get('rewritten', []),
           'generated_diff_vs_pinned': _PREP.get('diff_vs_pinned', []),
           'bridge_theorems': BRIDGES, 'hand_modelled': HAND_MODELLED,
           'reconfigured_and_reentrant_family_oracle_only': dyn['coverage']}
    return {'coverage': cov, 'disagreements': dis, 'oracle_failures': orc}
