"""Shared machinery of the TCP checks C16 / C17: taps around a real TCPPacketGenerator, harness paths, the kernel
stepping loop that turns a run into the line protocol of `driver tcpsender`, and the sink differential.

Only public API is used: constructors, `put`, `out`, `env.step/peek/now/timeout`, event `callbacks`, and the public
attributes the properties name (`cwnd, ssthresh, rto, rtt_estimate, est_deviation, next_seq, send_buffer, last_ack,
dupack, timers, sent_packets, recv_buffer`) plus `Store.items / get_queue` and `Process.is_alive` of the sender's
wake-up store and process.  The taps are: a wrapper object in front of `sender.put`, a forwarding `out`, and an
instance attribute `sender.timeout_callback` that logs and calls the original bound method.
"""
import math
from vlib.util import bits, quiet

with quiet():
    from onl.sim import Environment
    from onl.packet import Packet, TCPPacketGenerator, TCPSink, TCPReno, TCPCubic, Flow

INF = float('inf')
CUBIC_FIELDS = ['mss', 'W_last_max', 'epoch_start', 'origin_point', 'd_min', 'W_tcp', 'K', 'ack_cnt',
                'tcp_friendliness', 'fast_convergence', 'beta', 'C', 'cwnd_cnt', 'cnt']
CC_LINE_FIELDS = ['mss', 'cwnd', 'ssthresh', 'W_last_max', 'epoch_start', 'origin_point', 'd_min', 'W_tcp', 'K',
                  'ack_cnt', 'tcp_friendliness', 'fast_convergence', 'beta', 'C', 'cwnd_cnt', 'cnt']
EXC_NAMES = {'AssertionError': 'AssertionError', 'KeyError': 'KeyError', 'ValueError': 'ValueError',
             'ZeroDivisionError': 'PartialOp'}


def fb(x):
    """a scalar attribute as a bit pattern ('bad' for anything that is not a real number)"""
    if isinstance(x, bool):
        return '1' if x else '0'
    try:
        return str(bits(float(x)))
    except Exception:
        return 'bad'


def make_cc(kind, mss=512, cwnd=512, ssthresh=65535):
    if kind == 'cubic':
        return TCPCubic()
    return TCPReno(mss=mss, cwnd=cwnd, ssthresh=ssthresh)


class Recorder:
    """an `out` that keeps what it is given"""

    def __init__(self):
        self.items = []

    def put(self, p):
        self.items.append(p)


class TxTap:
    """the sender's `out`: logs (seq, size, stamp) of every packet handed over, then forwards"""

    def __init__(self, nxt):
        self.nxt = nxt
        self.log = []

    def put(self, p):
        self.log.append((p.packet_id, p.size, p.time))
        self.nxt.put(p)


class Path:
    """order-preserving one-way path: the i-th packet put into it (transmission index i) is dropped if i is in
    `drops`, else delivered to `out` after `delays[i % len(delays)]`, never before an earlier packet"""

    def __init__(self, env, out, delays, drops=(), on_put=None):
        self.env, self.out, self.delays, self.drops = env, out, list(delays), set(drops)
        self.on_put = on_put
        self.n = 0
        self.last = 0.0
        self.dropped = []
        self.delivered = 0

    def put(self, p):
        i = self.n
        self.n += 1
        if self.on_put:
            self.on_put(p)
        if i in self.drops:
            self.dropped.append(i)
            return
        at = max(self.env.now + self.delays[i % len(self.delays)], self.last)
        self.last = at
        ev = self.env.timeout(at - self.env.now)
        ev.callbacks.append(lambda e, p=p: self._deliver(p))

    def _deliver(self, p):
        self.delivered += 1
        self.out.put(p)


class LinkPath:
    """loss-free one-way path through a serial link: one packet at a time for `tx` seconds, then `prop` seconds of propagation.
    The i-th packet put into it (transmission index i) with i in `extra` takes `extra[i]` seconds longer behind the link, so the
    packets sent after it may overtake it (mild reordering: consecutive arrivals of the others are >= tx apart, so at most
    floor(extra[i] / tx) packets overtake).  With an empty `extra` the path keeps order.  `on_put(p)` is called at the hand-over,
    `on_deliver(i, p)` just before packet i is handed to `out`; `sent[i]` is the instant transmission i was put (harness clock)."""

    def __init__(self, env, out, tx, prop, extra=None, on_put=None, on_deliver=None):
        self.env, self.out, self.tx, self.prop = env, out, tx, prop
        self.extra = {int(k): v for k, v in (extra or {}).items()}
        self.on_put, self.on_deliver = on_put, on_deliver
        self.n = 0
        self.free = 0.0
        self.sent = []
        self.order = []              # transmission indices in the order of delivery
        self.dropped = []            # (never drops: same public face as Path)
        self.delivered = 0

    def put(self, p):
        i = self.n
        self.n += 1
        self.sent.append(self.env.now)
        if self.on_put:
            self.on_put(p)
        depart = max(self.env.now, self.free) + self.tx
        self.free = depart
        at = depart + self.prop + self.extra.get(i, 0.0)
        ev = self.env.timeout(at - self.env.now)
        ev.callbacks.append(lambda e, p=p, i=i: self._deliver(i, p))

    def _deliver(self, i, p):
        self.delivered += 1
        self.order.append(i)
        if self.on_deliver:
            self.on_deliver(i, p)
        self.out.put(p)


def _cycle(l):
    while True:
        for x in l:
            yield x


class SenderRun:
    """a real TCPPacketGenerator under taps; `events` accumulates the protocol lines, `trace` the observations"""

    def __init__(self, env, kind, cc, rtt_estimate, size, data_out, arrival=None, sizes=None, flow_id=0):
        self.env = env
        self.kind = kind
        self.cc = cc
        self.flow = Flow(flow_id=flow_id, src='s', dst='d', finish_time=INF, size=size)
        if arrival:
            # an application that writes at its own pace: inter-arrival times / write sizes cycle through the lists
            ai, si = iter(_cycle(arrival)), iter(_cycle(sizes or [512]))
            self.flow.arrival_dist = lambda: next(ai)
            self.flow.size_dist = lambda: next(si)
        self.tx = TxTap(data_out)
        with quiet():
            self.sender = TCPPacketGenerator(env, self.flow, cc, rtt_estimate=rtt_estimate)
        self.sender.out = self.tx
        orig_cb = self.sender.timeout_callback
        self.sender.timeout_callback = lambda packet_id: self._fire(orig_cb, packet_id)
        self.lines = [f'INIT {kind} {self.sender.mss} {size if size else "none"} {fb(env.now)}',
                      'CC ' + ' '.join(fb(getattr(cc, f, 0)) for f in CC_LINE_FIELDS),
                      f'EST {fb(self.sender.rtt_estimate)} {fb(self.sender.est_deviation)} {fb(self.sender.rto)}']
        self.trace = ['R I ok tx=[]', self.snap()]
        self.records = []          # dicts for the oracles: tag, now, before, after, tx, detail
        self.tapped = False
        self.error = None
        self.steps = 0

    # ---- observation ----------------------------------------------------------------------------------------
    def proc(self):
        s = self.sender
        if not s.action.is_alive:
            return 'F'
        if len(s.cwnd_avaialbe.get_queue) == 1:
            return 'B'
        return 'R'

    def state(self):
        s, c = self.sender, self.cc
        return {'cwnd': c.cwnd, 'ssthresh': c.ssthresh, 'rto': s.rto, 'srtt': s.rtt_estimate, 'dev': s.est_deviation,
                'nseq': s.next_seq, 'buf': s.send_buffer, 'lack': s.last_ack, 'dup': s.dupack,
                'timers': [(k, t.expire_time) for k, t in s.timers.items()],
                'sent': [(k, p.time) for k, p in s.sent_packets.items()],
                'tok': len(s.cwnd_avaialbe.items), 'proc': self.proc(),
                'cubic': [getattr(c, f, 0) for f in CUBIC_FIELDS]}

    @staticmethod
    def fmt_state(d):
        return (f"S cwnd={fb(d['cwnd'])} ssthresh={fb(d['ssthresh'])} rto={fb(d['rto'])} srtt={fb(d['srtt'])} "
                f"dev={fb(d['dev'])} nseq={d['nseq']} buf={d['buf']} lack={d['lack']} dup={d['dup']} "
                f"timers=[{','.join(f'{k}@{fb(e)}' for k, e in d['timers'])}] "
                f"sent=[{','.join(f'{k}@{fb(t)}' for k, t in d['sent'])}] "
                f"tok={d['tok']} proc={d['proc']} cubic=[{' '.join(fb(x) for x in d['cubic'])}]")

    def snap(self):
        return self.fmt_state(self.state())

    def fmt_tx(self, txs, kind):
        return '[' + ','.join(f'{kind}:{q}/{sz}@{fb(t)}' for q, sz, t in txs) + ']'

    def _event(self, tag, line, call, kind):
        """run `call()` as the protocol event `line`; log answer and snapshot"""
        self.tapped = True
        before = self.state()
        n = len(self.tx.log)
        self.lines.append(line)
        try:
            call()
        except Exception as x:
            self.trace.append(f'R {tag} X {EXC_NAMES.get(type(x).__name__, type(x).__name__)}')
            self.error = (tag, x)
            raise
        txs = self.tx.log[n:]
        after = self.state()
        self.trace.append(f'R {tag} ok tx={self.fmt_tx(txs, kind)}')
        self.trace.append(self.fmt_state(after))
        self.records.append({'tag': tag, 'now': self.env.now, 'before': before, 'after': after, 'tx': txs, 'line': line})

    def _fire(self, orig, packet_id):
        self._event('F', f'F {fb(self.env.now)} {packet_id}', lambda: orig(packet_id), 'r')

    def put(self, ack):
        """the tap in front of `sender.put`"""
        line = f'A {fb(self.env.now)} {ack.flow_id} {ack.ack} {ack.packet_id} {fb(ack.time)}'
        self._event('A', line, lambda: self.sender.put(ack), 'r')

    # ---- the kernel stepping loop ---------------------------------------------------------------------------
    def pstate(self):
        s = self.sender
        return (len(s.cwnd_avaialbe.items), len(s.cwnd_avaialbe.get_queue), s.action.is_alive)

    def run(self, horizon=INF, budget=400000, peers=()):
        """step the kernel until its queue is empty (or the next event lies beyond `horizon`); a resumption of the
        `run` process is recognised by new segments or by a change of the wake-up store / process liveness in a
        kernel step without tap.  `peers`: SenderRuns of other senders living in the same Environment - every sender
        reads its own progress off its own taps and public state around each kernel step and keeps its own protocol
        lines, observations and records"""
        hz = horizon if callable(horizon) else (lambda: horizon)
        env = self.env
        group = [self] + list(peers)
        while env.peek() <= hz() and env.peek() != INF:
            if self.steps >= budget * len(group):
                for g in group:
                    g.error = ('budget', None)
                    g.trace.append('R * X StepBudget')
                return False
            self.steps += 1
            for g in group:
                g.steps = self.steps
                g._pre()
            try:
                with quiet():
                    env.step()
            except Exception as x:
                if all(g.error is None for g in group):
                    # raised by a `run` process (or by something that is not under a tap)
                    for g in group:
                        g.lines.append(f'W {fb(env.now)}')
                        g.trace.append(f'R W X {EXC_NAMES.get(type(x).__name__, type(x).__name__)}')
                        g.error = ('W', x)
                else:
                    tag = next(g.error[0] for g in group if g.error is not None)
                    for g in group:
                        if g.error is None:
                            g.error = (f'{tag} of another sender in the same Environment', x)
                return False
            for g in group:
                g._post()
        for g in group:
            g.lines.append(f'T {fb(env.now)}')
            g.trace.append('R T ok tx=[]')
            g.trace.append(g.snap())
        return True

    def _pre(self):
        self.tapped = False
        self._ps = self.pstate()
        self._n = len(self.tx.log)
        self._before = self.state()

    def _post(self):
        env, ps, n, before = self.env, self._ps, self._n, self._before
        if not self.tapped and (len(self.tx.log) > n or self.pstate() != ps):
            txs = self.tx.log[n:]
            after = self.state()
            # a waiting get() served by the kernel (hand-off) versus a resumption of the process
            tag = 'H' if (ps[1] == 1 and ps[2] and not txs) else 'W'
            self.lines.append(f'{tag} {fb(env.now)}')
            self.trace.append(f'R {tag} ok tx={self.fmt_tx(txs, "n")}')
            self.trace.append(self.fmt_state(after))
            self.records.append({'tag': tag, 'now': env.now, 'before': before, 'after': after, 'tx': txs,
                                 'line': self.lines[-1]})

    def text(self, cid):
        return '\n'.join([f'CASE {cid}'] + self.lines + ['END'])


def first_diff(a, b):
    b = b or []
    for i in range(max(len(a), len(b))):
        x = a[i] if i < len(a) else '<end>'
        y = b[i] if i < len(b) else '<end>'
        if x != y:
            return i, x, y
    return None


def explain_diff(x, y):
    """name the fields in which two snapshot lines differ"""
    if x.startswith('S ') and y.startswith('S '):
        import re
        fx = re.findall(r'(\w+)=(\[[^\]]*\]|\S+)', x)
        fy = dict(re.findall(r'(\w+)=(\[[^\]]*\]|\S+)', y))
        return 'fields ' + ','.join(k for k, v in fx if fy.get(k) != v)
    return ''
