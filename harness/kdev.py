"""development loop: compare implementation and model on generated kernel cases"""
import sys, random, time
from harness import kgen, kscript
from vlib.util import run_driver, split_cases

def main():
    profile = sys.argv[1]; seed = int(sys.argv[2]); n = int(sys.argv[3])
    rng = random.Random(seed)
    cases = []
    for i in range(n):
        if profile in kgen.WEIGHTS: c = kgen.gen_generic(rng, i, profile, malformed=(i % 5 == 4))
        elif profile == 'res': c = kgen.gen_resource(rng, i)
        elif profile == 'store': c = kgen.gen_store(rng, i, malformed=(i % 5 == 4))
        elif profile == 'plan':
            kind = rng.choice(list(kgen.WEIGHTS) + ['res', 'store'])
            b = kgen.gen_generic(rng, i, kind) if kind in kgen.WEIGHTS else (kgen.gen_resource(rng, i) if kind == 'res' else kgen.gen_store(rng, i))
            c = kgen.gen_plan(rng, b, i)
        cases.append(c)
    t0 = time.time()
    impl = {c.cid: kscript.run_case(c) for c in cases}
    t1 = time.time()
    model = split_cases(run_driver('kernel', '\n'.join(c.text() for c in cases) + '\n'))
    t2 = time.time()
    bad = 0; nlines = 0
    for c in cases:
        a, b = impl[c.cid], model.get(c.cid)
        nlines += len(a)
        if a != b:
            bad += 1
            if bad <= 3:
                print('=== MISMATCH case', c.cid); print(c.text())
                for i in range(max(len(a), len(b or []))):
                    x = a[i] if i < len(a) else '-'; y = b[i] if b and i < len(b) else '-'
                    print(('   ' if x == y else '!! ') + f'{x:60s} | {y}')
                    if x != y: break
    print(f'{profile}: cases={n} bad={bad} lines={nlines} impl={t1-t0:.1f}s model={t2-t1:.1f}s')
main()
