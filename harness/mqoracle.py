"""Direct oracles for the multi-queue schedulers: plain Python predicates over the implementation's own trace
(`MQRun.log`, arrivals, departures, Monitor samples, credits) that restate C12 / C13 / C15.  Nothing here uses the
Lean model.  Each function returns a list of {'what', 'signature'} dicts."""
import bisect
from harness.mq import class_of_flow, classes_of

MIN_QUANTUM = 1500


def fail(what, sig):
    return {'what': what, 'signature': sig}


# ---- C12: one at a time, exact service time, never idle, FIFO, exactly once, counters, monitor -------------------

def oracle_c12(c, run):
    fails = []
    kind = c['kind']
    if run.raised:
        return [fail(f'{kind}: the run raised {run.raised}', f'{kind}-raised')]
    if getattr(run, 'exhausted', False):
        return [fail(f'{kind}: the simulation did not come to rest within the step budget (the loop spins?)', f'{kind}-spin')]
    rate = c['rate']
    arr, dep = run.arrivals, run.departures
    A = [t for t, _ in arr]
    # work conservation + exact service time: D_k = S_k + 8*size/rate with S_k = D_{k-1} if a packet is waiting at
    # that instant, else the next arrival instant
    prev = None
    for k, (td, p) in enumerate(dep):
        if prev is None:
            want_start = A[0] if A else None
        elif bisect.bisect_right(A, prev) > k:
            want_start = prev
        else:
            want_start = A[k] if k < len(A) else None
        if want_start is None:
            fails.append(fail(f'{kind}: departure {k} (packet {p.packet_id}) without an arrival', f'{kind}-phantom'))
            break
        want = want_start + p.size * 8.0 / rate
        if td != want:
            why = 'overlaps or aborts / wrong duration' if td < want else 'idle with a backlog / wrong duration'
            fails.append(fail(f'{kind}: packet {p.packet_id} (size {p.size}) left at {td!r}; a work-conserving non-preemptive server of rate '
                              f'{rate} starts it at {want_start!r} (previous end {prev!r}) and ends at {want!r}: {why}',
                              f'{kind}-service-time'))
            break
        prev = td
    # the recorded starts of transmission: one at a time, each followed by its own departure
    open_tx = None
    for ev, t, p in run.log:
        if ev == 'start':
            if open_tx is not None:
                fails.append(fail(f'{kind}: transmission of packet {p.packet_id} started at {t} while packet {open_tx.packet_id} was still in transmission',
                                  f'{kind}-overlap'))
                break
            open_tx = p
        elif ev == 'dep':
            if open_tx is not p:
                fails.append(fail(f'{kind}: packet {p.packet_id} left at {t} but the transmission in progress was {getattr(open_tx, "packet_id", None)}',
                                  f'{kind}-overlap'))
                break
            open_tx = None
    # exactly once
    ids_a = [id(p) for _, p in arr]
    ids_d = [id(p) for _, p in dep]
    if len(set(ids_d)) != len(ids_d):
        fails.append(fail(f'{kind}: a packet was transmitted twice', f'{kind}-duplicate'))
    if set(ids_d) != set(ids_a):
        missing = [p.packet_id for _, p in arr if id(p) not in set(ids_d)]
        fails.append(fail(f'{kind}: {len(arr)} packets accepted, {len(dep)} transmitted when the simulation ran out of events; never sent: {missing[:10]}',
                          f'{kind}-lost'))
    # per-flow FIFO
    flows = sorted({p.flow_id for _, p in arr})
    for f in flows:
        a = [p.packet_id for _, p in arr if p.flow_id == f]
        d = [p.packet_id for _, p in dep if p.flow_id == f]
        if d != a[:len(d)]:
            fails.append(fail(f'{kind}: flow {f} arrived as {a[:12]} but left as {d[:12]}', f'{kind}-flow-fifo'))
            break
    # counters (checked by the run after every action)
    if run.counter_fail:
        fails.append(fail(f'{kind}: {run.counter_fail[0]}', f'{kind}-counters'))
    # monitor samples
    for (t, included, vals, truth, _svc, _ph, in_tx) in run.samples:
        for f, (n, b) in vals.items():
            wn, wb = truth.get(f, (0, 0))
            if not included and in_tx is not None and in_tx.flow_id == f:
                wn, wb = wn - 1, wb - in_tx.size
            if (n, b) != (wn, wb):
                fails.append(fail(f'{kind}: Monitor(service_included={included}) sampled flow {f} at t={t} as {n} packets / {b} bytes; '
                                  f'{wn} packets / {wb} bytes of it are waiting{" or in transmission" if included else ""}',
                                  'monitor-sample'))
                return fails
    return fails


# ---- C13: static priority -----------------------------------------------------------------------------------------

def oracle_c13(c, run):
    """at every decision of the loop no packet of a strictly higher priority was waiting; priorities are positive"""
    fails = []
    # a run that the watchdog cut because the loop stopped yielding is still judged on the decisions it took until then (its log is
    # complete up to the last kernel step); any other exception ends the statement's domain ("the run never raises" is C12's)
    spin = bool(run.raised) and str(run.raised).startswith('TimeoutError')
    if run.exhausted or (run.raised and not spin):
        return [], {}
    prio = dict(map(tuple, c['table']))          # the values as configured (not the ranks the model is given)
    waiting = []          # packets arrived and not yet chosen, in global action order
    chosen = None
    stats = {'decisions': 0, 'multi_level_decisions': 0, 'max_levels': 0}
    log = run.log
    # third clause, restated on the taps: "a transmission in progress is never aborted in favour of a later, more urgent arrival" - between
    # the start of a transmission and the departure of that packet no other transmission starts
    cur, arrived_at = None, {}
    for ev, t, p in log:
        if ev == 'arr':
            arrived_at[id(p)] = t
        elif ev == 'dep' and cur is not None and p is cur[1]:
            cur = None
        elif ev == 'start':
            if cur is not None and p is not cur[1]:
                t0, p0 = cur
                ta = arrived_at.get(id(p))
                if ta is not None and ta >= t0 and prio.get(p.flow_id, 0) > prio.get(p0.flow_id, 0):
                    fails.append(fail(f'sp: the transmission of packet {p0.packet_id} (flow {p0.flow_id}, priority {prio.get(p0.flow_id)}, size {p0.size}) started at t={t0} '
                                      f'and was due to end at {t0 + p0.size * 8.0 / c["rate"]}; at t={t}, before that packet left, the transmission of packet {p.packet_id} '
                                      f'(flow {p.flow_id}, priority {prio.get(p.flow_id)}), which arrived later (t={ta}), was started: a transmission in progress was given up '
                                      f'for a later, more urgent arrival', 'sp-transmission-aborted'))
                    break
            cur = (t, p)
    for idx, (ev, t, p) in enumerate(log):
        if ev == 'arr':
            waiting.append(p)
        elif ev == 'scan':
            # the packet this scan commits to is the one whose transmission starts next (if any before the next scan)
            nxt = None
            for ev2, t2, p2 in log[idx + 1:]:
                if ev2 == 'start':
                    nxt = (t2, p2)
                    break
                if ev2 == 'scan':
                    break
            if nxt is None:
                if waiting and any(prio.get(q.flow_id, 0) > 0 for q in waiting):
                    fails.append(fail(f'sp: the loop scanned at t={t} with packets {[q.packet_id for q in waiting][:8]} waiting and started no transmission',
                                      'sp-idle'))
                    break
                continue
            t2, p2 = nxt
            if t2 != t:
                fails.append(fail(f'sp: decision at t={t} but the transmission of packet {p2.packet_id} started at t={t2}', 'sp-late-start'))
                break
            levels = {prio[q.flow_id] for q in waiting}
            stats['decisions'] += 1
            stats['max_levels'] = max(stats['max_levels'], len(levels))
            if len(levels) > 1:
                stats['multi_level_decisions'] += 1
            higher = [q for q in waiting if prio[q.flow_id] > prio[p2.flow_id]]
            if higher:
                q = higher[0]
                fails.append(fail(f'sp: at t={t} the transmission of packet {p2.packet_id} (flow {p2.flow_id}, priority {prio[p2.flow_id]}) was started '
                                  f'while packet {q.packet_id} (flow {q.flow_id}, priority {prio[q.flow_id]}) was waiting',
                                  'sp-priority-inversion'))
                break
            if p2 in waiting:
                waiting.remove(p2)
    # instant-level restatement from departures alone: start = departure - 8*size/rate
    rate = c['rate']
    if not fails:
        arr = run.arrivals
        dep_time = {id(p): t for t, p in run.departures}
        for td, p in run.departures:
            ts = td - p.size * 8.0 / rate
            for ta, q in arr:
                if q is p or prio[q.flow_id] <= prio[p.flow_id]:
                    continue
                # q arrived strictly before the start instant (with a margin for rounding) and left after p
                if ta < ts - 1e-9 and dep_time.get(id(q), float('inf')) > td:
                    fails.append(fail(f'sp: packet {p.packet_id} (priority {prio[p.flow_id]}) was in service from {ts} to {td} although packet '
                                      f'{q.packet_id} (priority {prio[q.flow_id]}) had arrived at {ta} and was still waiting',
                                      'sp-priority-inversion'))
                    return fails, stats
    return fails, stats


# ---- C15: reference simulations of the textbook disciplines ------------------------------------------------------

class RefRR:
    """round robin over `flows` in declaration order: one packet per visit, empty flows skipped; the scan restarts at
    the first flow after an idle period"""

    def __init__(self, c):
        self.keys = list(c['flows'])
        self.q = {}
        self.ptr = 0

    def arrive(self, cls, p):
        self.q.setdefault(cls, []).append(p)

    def scan(self, fresh):
        n = len(self.keys)
        if not any(self.q.get(k) for k in self.keys):
            self.ptr = 0
            return None
        # finish the current pass, then whole passes
        while True:
            while self.ptr < n:
                k = self.keys[self.ptr]
                self.ptr += 1
                if self.q.get(k):
                    return self.q[k].pop(0)
            self.ptr = 0


class RefWRR(RefRR):
    """weighted round robin: up to `weight` packets per visit"""

    def __init__(self, c):
        self.keys = [k for k, _ in c['table']]
        self.w = dict(map(tuple, c['table']))
        self.q = {}
        self.ptr, self.sent = 0, 0

    def scan(self, fresh):
        n = len(self.keys)
        if not any(self.q.get(k) for k in self.keys):
            self.ptr, self.sent = 0, 0
            return None
        while True:
            while self.ptr < n:
                k = self.keys[self.ptr]
                if self.sent < self.w[k] and self.q.get(k):
                    self.sent += 1
                    return self.q[k].pop(0)
                self.ptr += 1
                self.sent = 0
            self.ptr = 0


class RefDRR:
    """deficit round robin (Shreedhar & Varghese) over the classes in declaration order: on a visit to a backlogged class
    credit += quantum; head packets are sent while they fit; credit -= size; credit := 0 when the class has emptied.
    `backlog[c]` counts the packets of c waiting or in transmission (the test the statement calls "backlogged")."""

    def __init__(self, c):
        self.keys = [k for k, _ in c['table']]
        w = dict(map(tuple, c['table']))
        mw = min(w.values())
        self.Q = {k: MIN_QUANTUM * w[k] / mw for k in self.keys}
        self.q = {k: [] for k in self.keys}
        self.credit = {k: 0.0 for k in self.keys}
        self.backlog = {k: 0 for k in self.keys}
        self.pos = None          # index of the class being visited, None = between rounds
        self.in_visit = False
        self.tx = None           # (class, packet) in transmission
        self.peeked = set()      # classes whose head has already been found too large for the credit
        self.trace = []

    def arrive(self, cls, p):
        self.q[cls].append(p)
        self.backlog[cls] += 1

    def complete(self):
        """the transmission in progress has ended"""
        if self.tx is not None:
            k, p = self.tx
            self.backlog[k] -= 1
            self.credit[k] -= p.size
            if self.backlog[k] == 0:
                self.credit[k] = 0.0
            self.tx = None

    def scan(self, fresh):
        """run the discipline until a packet is put on the line (returned), the system is idle (None), or a head that
        was not examined before turns out too large (None with `self.paused`: the real loop yields there)"""
        self.paused = False
        if fresh:
            self.complete()
        n = len(self.keys)
        guard = 0
        while True:
            guard += 1
            if guard > 100000:
                raise RuntimeError('reference DRR does not terminate')
            if self.pos is None:
                if sum(self.backlog.values()) <= 0:
                    return None
                self.pos, self.in_visit = 0, False
            if self.pos >= n:
                self.pos = None
                continue
            k = self.keys[self.pos]
            if not self.in_visit:
                if self.backlog[k] > 0:
                    self.credit[k] += self.Q[k]
                self.in_visit = True
            if self.credit[k] > 0 and self.backlog[k] > 0:
                head = self.q[k][0]
                if head.size <= self.credit[k]:
                    self.q[k].pop(0)
                    self.peeked.discard(k)
                    self.tx = (k, head)
                    return head
                # too large: the visit ends, the packet stays at the head of its class
                self.pos += 1
                self.in_visit = False
                if k not in self.peeked:
                    self.peeked.add(k)
                    self.paused = True
                    return None
                continue
            self.pos += 1
            self.in_visit = False


def oracle_c15(c, run):
    """replay the arrivals into the reference discipline at the instants (in global action order) at which the real loop
    scans, and compare the packet put on the line; DRR: credit range and fairness bound"""
    kind = c['kind']
    fails = []
    if run.raised or run.exhausted:
        return [], {}
    stats = {'decisions': 0, 'multi_class_decisions': 0, 'parked': 0, 'windows': 0, 'max_fair_ratio': 0.0}
    ref = {'rr': RefRR, 'wrr': RefWRR, 'drr': RefDRR}[kind](c)
    log = run.log
    pending = None            # packet the reference has put on the line and whose start we expect
    for idx, (ev, t, p) in enumerate(log):
        if ev == 'arr':
            ref.arrive(class_of_flow(c, p.flow_id), p)
        elif ev in ('scan', 'rescan'):
            if pending is not None:
                fails.append(fail(f'{kind}: the reference put packet {pending.packet_id} on the line but the scheduler scanned again at t={t} without starting it',
                                  f'{kind}-order'))
                break
            nb = sum(1 for k in ref.keys if ref.q.get(k))
            pending = ref.scan(fresh=(ev == 'scan'))
            if pending is not None:
                stats['decisions'] += 1
                if nb > 1:
                    stats['multi_class_decisions'] += 1
            elif getattr(ref, 'paused', False):
                stats['parked'] += 1
        elif ev == 'start':
            if pending is not p:
                fails.append(fail(f'{kind}: at t={t} the scheduler started packet {p.packet_id} (flow {p.flow_id}); the {kind.upper()} discipline '
                                  f'({"cyclic declaration order, " + ("one packet" if kind == "rr" else "up to weight packets" if kind == "wrr" else "credit += quantum, head sent while it fits") + " per visit"}) '
                                  f'serves packet {getattr(pending, "packet_id", None)} next', f'{kind}-order'))
                break
            pending = None
    if kind == 'drr' and not fails:
        fails += drr_credit_and_fairness(c, run, stats)
    return fails, stats


def drr_credit_and_fairness(c, run, stats):
    fails = []
    keys = [k for k, _ in c['table']]
    w = dict(map(tuple, c['table']))
    mw = min(w.values())
    Q = {k: MIN_QUANTUM * w[k] / mw for k in keys}
    sizes = [p.size for _, p in run.arrivals]
    if not sizes:
        return fails
    lmax = max(sizes)
    # quantum and credit range, from the scheduler's own public `quantum` / `deficit`
    for k in keys:
        if run.sched.quantum[k] != Q[k]:
            fails.append(fail(f'drr: quantum[{k}] = {run.sched.quantum[k]}, expected 1500*{w[k]}/{mw} = {Q[k]}', 'drr-quantum'))
            return fails
    for (t, label, deficit, counts) in run.deficit_log:
        for k in keys:
            d = deficit[k]
            if not (0 <= d < Q[k] + lmax):
                fails.append(fail(f'drr: credit of class {k} is {d} after `{label}` at t={t}: outside [0, quantum {Q[k]} + largest packet {lmax})',
                                  'drr-credit-range'))
                return fails
            if counts.get(k) == 0 and d != 0:
                fails.append(fail(f'drr: class {k} is empty after `{label}` at t={t} but keeps credit {d}', 'drr-credit-kept'))
                return fails
    # fairness: over every window in which two classes stay backlogged (waiting or in transmission)
    backlog = {k: 0 for k in keys}
    sent = {k: 0 for k in keys}
    series = []                      # after every log entry: (backlog copy, sent copy)
    for ev, t, p in run.log:
        if ev == 'arr':
            backlog[class_of_flow(c, p.flow_id)] += 1
        elif ev == 'dep':
            k = class_of_flow(c, p.flow_id)
            backlog[k] -= 1
            sent[k] += p.size
        series.append((dict(backlog), dict(sent)))
    for ai in range(len(keys)):
        for bi in range(ai + 1, len(keys)):
            a, b = keys[ai], keys[bi]
            bound = 4 + 3 * lmax * (1 / Q[a] + 1 / Q[b])
            lo = hi = None
            start = None
            for pos, (bl, st) in enumerate(series + [({a: 0, b: 0}, None)]):
                if bl[a] > 0 and bl[b] > 0:
                    f = st[a] / Q[a] - st[b] / Q[b]
                    if lo is None:
                        lo = hi = f
                        start = pos
                        stats['windows'] += 1
                    lo, hi = min(lo, f), max(hi, f)
                    stats['max_fair_ratio'] = max(stats['max_fair_ratio'], (hi - lo) / bound)
                    if hi - lo >= bound:
                        fails.append(fail(f'drr: classes {a} and {b} stay backlogged over log positions {start}..{pos}, yet their normalised service '
                                          f'S/Q differs by {hi - lo} >= 4 + 3*Lmax*(1/Q_a + 1/Q_b) = {bound}', 'drr-unfair'))
                        return fails
                else:
                    lo = hi = None
    return fails
