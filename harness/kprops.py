"""Shared correspondence runner for the kernel properties C01-C07 (script differential against model K)."""
import glob, json, os, random, re, collections
from harness import kgen, kscript
from harness.kscript import Case
from vlib.util import run_driver, split_cases, VERIF, unbits


def first_diff(a, b):
    for i in range(max(len(a), len(b or []))):
        x = a[i] if i < len(a) else '<end>'
        y = b[i] if b and i < len(b) else '<end>'
        if x != y:
            return i, x, y
    return None


def corpus_cases(prop):
    out = []
    for path in sorted(glob.glob(os.path.join(VERIF, 'harness', 'corpus', prop, '*.json'))):
        c = Case.from_json(json.load(open(path)))
        c.cid = 'corpus-' + os.path.basename(path)[:-5]
        out.append(c)
    return out


def gen_cases(rng, spec, n):
    """spec: list of (weight, kind) with kind in generic profiles | 'res' | 'store' | 'plan:<kind>'"""
    kinds = [k for _, k in spec]
    ws = [w for w, _ in spec]
    cases = []
    for i in range(n):
        kind = rng.choices(kinds, weights=ws)[0]
        plan = kind.startswith('plan:')
        base = kind[5:] if plan else kind
        malformed = rng.random() < 0.15
        if base in kgen.WEIGHTS:
            c = kgen.gen_generic(rng, i, base, malformed=malformed)
        elif base == 'res':
            c = kgen.gen_resource(rng, i)
        elif base == 'victim':
            c = kgen.gen_intr(rng, i)
        elif base == 'chain':
            c = kgen.gen_chain(rng, i)
        elif base == 'decided':
            c = kgen.gen_decided(rng, i)
        elif base == 'launcher':
            c = kgen.gen_launcher(rng, i)
        elif base == 'ack':
            c = kgen.gen_ack(rng, i)
        elif base == 'untilfail':
            c = kgen.gen_until_fail(rng, i)        # already a split plan
        elif base == 'crashplan':
            c = kgen.gen_crash_plan(rng, i)       # already a split plan
        elif base == 'untilreact':
            c = kgen.gen_until_react(rng, i)      # already a split plan
        elif base == 'untiljoin':
            c = kgen.gen_until_join(rng, i)       # already a split plan
        elif base == 'store':
            c = kgen.gen_store(rng, i, malformed=malformed)
        else:
            raise ValueError(kind)
        c.kind = kind
        if plan:
            c = kgen.gen_plan(rng, c, i)
            c.kind = kind
        cases.append(c)
    return cases


def times_of(lines):
    return [int(m.group(1)) for l in lines for m in [re.search(r'@(\d+)$', l)] if m]


def coincidences(lines):
    """number of instants at which at least two observations happened"""
    cnt = collections.Counter(times_of([l for l in lines if l[0] in 'PB']))
    return sum(1 for v in cnt.values() if v >= 2)


MAX_OBS_LINE = 6000


def _run_cases(cases, oracles, nontrivial, attribute=None):
    """implementation, model and oracles on a list of cases; returns the partial results of this batch.  `attribute(list of (case, impl
    lines, model lines))` -> list of bool says, for the cases on which implementation and model disagree, whether the disagreement is
    about what this property constrains (default: every one is)"""
    for i, c in enumerate(cases):
        c.cid = f'{i}'
    impl, runners = {}, {}
    for c in cases:
        runners[c.cid] = kscript.Runner(c)
        impl[c.cid] = runners[c.cid].run()
    model = {}
    CH = 2000
    # A condition over conditions with repeated operands has a value whose flattened form doubles with every level; a handful of random
    # scripts per million would reach 10^8 entries (minutes and gigabytes in the library itself).  The runner cuts such a script short
    # (kscript.MAX_COND_LEAVES); it is neither replayed nor judged (counted in the histogram).
    oversized = {c.cid for c in cases if runners[c.cid].oversized or any(len(l) > MAX_OBS_LINE for l in impl[c.cid])}
    replayed = [c for c in cases if c.cid not in oversized]
    for i in range(0, len(replayed), CH):
        chunk = replayed[i:i + CH]
        model.update(split_cases(run_driver('kernel', '\n'.join(c.text() for c in chunk) + '\n')))
    disagreements, oracle_failures = [], []
    dis_all = []
    hist = collections.Counter()
    distinct = {}          # script text -> non-trivial?
    samples = []
    for c in cases:
        a, b = impl[c.cid], model.get(c.cid)
        for p in c.progs:
            for ins in p:
                hist[ins[0]] += 1
                if ins[0] in ('allof', 'anyof') and len(ins) == 4 and ins[1] % 2 == 0:
                    hist['shape:condition written with & / |'] += 1
                if ins[0] in ('raise', 'fail') and 'Cancelled' in ins:
                    hist['shape:exception not derived from Exception'] += 1
        hist['kind:' + getattr(c, 'kind', 'corpus')] += 1
        for n_ in runners[c.cid].notes:
            if n_[0] == 'cond-form':
                hist[f'shape:condition operands as {n_[1]}' + (' (empty)' if n_[2] == 0 else '')] += 1
            elif n_[0] == 'retev':
                hist[f'shape:process returns an event object ({n_[1]})'] += 1
            elif n_[0] == 'exit-unwinding':
                hist[f'shape:with-block left by {n_[1]}' + (f'({n_[2]})' if n_[1] == 'Interrupt' else '') + ' handled outside it'] += 1
            elif n_[0] == 'evicted':
                hist['shape:eviction decided during ' + ('a kernel step' if n_[6][0] == 'step' else f'a {n_[6][0]} call')] += 1
        txt = c.text().split('\n', 1)[1]
        nt = bool((nontrivial or default_nontrivial)(c, a))
        distinct[txt] = distinct.get(txt, False) or nt
        if c.cid in oversized:
            hist['left out: a condition value of more than %d leaf occurrences (doubling with the nesting depth)' % kscript.MAX_COND_LEAVES] += 1
        elif a != b:
            dis_all.append((c, a, b))
        for orc in (oracles if c.cid not in oversized else ()):
            for f in orc(c, a, runners[c.cid]) or []:
                f.setdefault('case', c.to_json())
                f.setdefault('trace', a[:400])
                oracle_failures.append(f)
        if len(samples) < 2 and nt:
            samples.append({'script': c.text().splitlines(), 'implementation_trace': a[:60]})
    own = attribute(dis_all) if (attribute is not None and dis_all) else [True] * len(dis_all)
    foreign = []
    for (c, a, b), mine in zip(dis_all, own):
        d = first_diff(a, b)
        rec = {'case': c.to_json(), 'detail': f'line {d[0]}: impl `{d[1]}` model `{d[2]}`' if d else 'length', 'impl': a[:400], 'model': (b or [])[:400]}
        (disagreements if mine else foreign).append(rec)
    for l in impl.values():
        for x in l:
            hist['obs:' + x.split(' ')[0] + (':' + x.split(' ')[2] if x[0] == 'P' else '')] += 1
            if x.startswith('X '):
                hist['raise:' + x.split(' ')[1]] += 1
    import hashlib
    return {'n': len(cases), 'disagreements': disagreements[:20], 'n_dis': len(disagreements), 'oracle_failures': oracle_failures[:20],
            'foreign': [{k: v for k, v in f.items() if k != 'model'} for f in foreign[:3]], 'n_foreign': len(foreign),
            'hist': hist, 'distinct': {hashlib.sha1(t.encode()).hexdigest(): v for t, v in distinct.items()}, 'samples': samples,
            'lines': sum(len(v) for v in impl.values())}


_JOB = {}


SHARD_BATCH = 3000            # cases a worker holds (runners, traces) at a time


def _merge_parts(parts):
    """partial results of several batches as one partial result (same keys as `_run_cases`)"""
    hist = collections.Counter()
    distinct = {}
    for p in parts:
        hist.update(p['hist'])
        for t, v in p['distinct'].items():
            distinct[t] = distinct.get(t, False) or v
    return {'n': sum(p['n'] for p in parts), 'disagreements': [d for p in parts for d in p['disagreements']][:20],
            'n_dis': sum(p['n_dis'] for p in parts), 'oracle_failures': [f for p in parts for f in p['oracle_failures']][:20],
            'foreign': [f for p in parts for f in p.get('foreign', [])][:3], 'n_foreign': sum(p.get('n_foreign', 0) for p in parts),
            'hist': hist, 'distinct': distinct, 'samples': parts[0]['samples'] if parts else [], 'lines': sum(p['lines'] for p in parts)}


def _shard(k):
    """one worker of the thorough tier: its own PRNG stream, its own driver processes (forked: inherits _JOB); the cases are generated
    and judged batch by batch so that a worker never holds more than SHARD_BATCH runners and traces"""
    j = _JOB
    rng = random.Random(f'{j["prop"]}-{j["seed"]}-shard{k}')
    parts, left = [], j['per_shard']
    while left > 0:
        n = min(SHARD_BATCH, left)
        parts.append(_run_cases(gen_cases(rng, j['spec'], n), j['oracles'], j['nontrivial'], j.get('attribute')))
        left -= n
    return _merge_parts(parts)


def _run_shards():
    """the shards on worker processes; a worker that dies (e.g. killed for memory by the OS) breaks the pool instead of hanging it, and
    the shards are then run one after the other in this process"""
    import concurrent.futures, multiprocessing
    try:
        with concurrent.futures.ProcessPoolExecutor(THOROUGH_SHARDS, mp_context=multiprocessing.get_context('fork')) as ex:
            return list(ex.map(_shard, range(THOROUGH_SHARDS)))
    except concurrent.futures.process.BrokenProcessPool:
        return [_shard(k) for k in range(THOROUGH_SHARDS)]


THOROUGH_SHARDS = 12          # worker processes of the thorough tier (the sandbox has 16 cores)
THOROUGH_FACTOR = 12          # the thorough tier runs this many times the nominal number of cases, spread over the shards


def run_kernel(ctx, prop, spec, n_quick, n_thorough, oracles=(), nontrivial=None, rule='', attribute=None):
    rng = random.Random(f'{prop}-{ctx.seed}')
    if ctx.replay:
        j = json.load(open(ctx.replay))
        cases = [Case.from_json(j['case'])] if j.get('case') else []
        for d in j.get('broken_correspondence', []) or []:
            if d.get('case'):
                cases.append(Case.from_json(d['case']))
        parts = [_run_cases(cases, oracles, nontrivial, attribute)]
    elif ctx.quick:
        parts = [_run_cases(corpus_cases(prop) + gen_cases(rng, spec, n_quick), oracles, nontrivial, attribute)]
    else:
        # thorough: the corpus and the quick stream in this process, then THOROUGH_FACTOR x n_thorough fresh cases on worker processes
        parts = [_run_cases(corpus_cases(prop) + gen_cases(rng, spec, n_quick), oracles, nontrivial, attribute)]
        import multiprocessing
        _JOB.update(prop=prop, seed=ctx.seed, spec=spec, oracles=oracles, nontrivial=nontrivial, attribute=attribute,
                    per_shard=max(1, THOROUGH_FACTOR * n_thorough // THOROUGH_SHARDS))
        parts += _run_shards()
    disagreements = [d for p in parts for d in p['disagreements']]
    oracle_failures = [f for p in parts for f in p['oracle_failures']]
    hist = collections.Counter()
    distinct = {}
    for p in parts:
        hist.update(p['hist'])
        for t, v in p['distinct'].items():
            distinct[t] = distinct.get(t, False) or v
    n = sum(p['n'] for p in parts)
    ndis = sum(p['n_dis'] for p in parts)
    cov = {
        'evaluations': n,
        'distinct_nontrivial': sum(1 for v in distinct.values() if v),
        'rule': rule or 'seeded random script programs; non-trivial = distinct script text with at least one instant at which two or more observations coincide',
        'samples': parts[0]['samples'],
        'traces_validated_against_impl': n - ndis - sum(p.get('n_foreign', 0) for p in parts),
        'observation_lines_compared': sum(p['lines'] for p in parts),
        'operation_histogram': dict(sorted(hist.items())),
        'worker_processes': len(parts) - 1,
    }
    nf = sum(p.get('n_foreign', 0) for p in parts)
    if attribute is not None:
        cov['disagreements_not_about_this_property'] = {
            'count': nf, 'why': (attribute.__doc__ or '').strip(), 'samples': [f for p in parts for f in p.get('foreign', [])][:3]}
    return {'coverage': cov, 'disagreements': disagreements, 'oracle_failures': oracle_failures}


def default_nontrivial(case, lines):
    return coincidences(lines) >= 1


# ---- model-free oracles over the implementation trace -------------------------------------------

def oracle_time_monotone(case, lines, runner=None):
    ts = [unbits(t) for t in times_of(lines)]
    for a, b in zip(ts, ts[1:]):
        if b < a:
            return [{'what': f'simulated time decreased from {a} to {b}', 'signature': 'time-decreased'}]
    return []


# ---- C03: split plans against the uninterrupted run (pure implementation oracle) -------------------

import math


def observable(lines):
    """what process bodies and probe callbacks can see"""
    return [l for l in lines if l[0] in 'PB']


def oracle_split(case, lines, runner=None):
    if case.mode != 'plan':
        return []
    base = Case.from_json({**case.to_json(), 'plan': []})
    r0 = kscript.Runner(base)
    ref = r0.run()
    if any(l.startswith('X ') for l in ref):
        return []          # the uninterrupted run raises: what happens after an exception is outside the statement
    r1 = kscript.Runner(case)
    got = r1.run()
    fails = []
    # an exception other than the refusals of run(until<=now) / step() on an empty schedule is not expected either
    bad = [l for l in got if l.startswith('X ') and not l.startswith('X ValueError') and not l.startswith('X EmptySchedule')
           and not l.startswith('X RuntimeError')]
    if observable(got) != observable(ref):
        a, b = observable(ref), observable(got)
        i = next((i for i in range(max(len(a), len(b))) if i >= len(a) or i >= len(b) or a[i] != b[i]), 0)
        fails.append({'what': f'split run differs from the uninterrupted run at observation {i}: '
                              f'uninterrupted `{a[i] if i < len(a) else "<end>"}` split `{b[i] if i < len(b) else "<end>"}` '
                              f'(plan {case.plan})', 'signature': 'split-trace-differs'})
    for n in r1.notes:
        if n[0] == 'until-time':
            _, t, t0, now = n
            if t <= t0:
                fails.append({'what': f'run(until={t}) at now={t0} was accepted instead of being refused with ValueError', 'signature': 'until-time-not-refused'})
            elif now != t:
                fails.append({'what': f'run(until={t}) returned with now={now}', 'signature': 'until-time-now'})
        if n[0] == 'until-event':
            if not n[1]:
                fails.append({'what': 'run(until=event) returned before the event was processed', 'signature': 'until-event-unprocessed'})
            elif n[2] and not n[3]:
                fails.append({'what': 'run(until=event) did not return the event value', 'signature': 'until-event-value'})
    return fails


def split_is_the_cause(dis):
    """C03 is about stopping and resuming (and about reproducibility, which the direct oracles of harness/c03.py restate): when the
    implementation and the kernel model disagree on a *split* run, the disagreement is C03's if they agree on the uninterrupted run
    of the same program - then it is the stop that one of them gets wrong.  If they disagree on the uninterrupted run as well, what
    differs is the kernel's behaviour on that program (resources, stores, conditions, interrupts ...), which is the subject of the
    correspondence of C01, C02, C04-C07 - their checks replay uninterrupted runs of the same program families - and says nothing
    about stopping; such a disagreement is recorded in the evidence and not counted here.  (The direct oracle `oracle_split`
    compares split and uninterrupted run of the implementation in every case, whatever the model says.)"""
    return [not (agrees is False) for agrees in _base_agrees(dis)]


def stop_is_not_the_cause(dis):
    """The converse, for the kernel properties whose text says nothing about stopping a run (C02, C04-C07; C01 names the run-until stop
    and keeps every case): a disagreement between implementation and kernel model on a *split* run counts only if they also disagree
    on the uninterrupted run of the same program.  If they agree there, what differs is how `run(until=...)` / `step()` stop and
    resume the run - C03's subject, whose check replays the same split programs - and the case is recorded in the evidence, not
    counted.  Cases of the `untilfail` family (a failed until-event re-raised by `run`: the last clause of C02) always count."""
    return [(agrees is not True) or getattr(c, 'kind', '') == 'untilfail' for (c, a, b), agrees in zip(dis, _base_agrees(dis))]


def _base_agrees(dis):
    """for every disagreeing case that is a split run: do implementation and model agree on the uninterrupted run of the same program?
    (None: not a split run, or beyond the first 300 disagreements of the batch - such a case always counts)"""
    out = [None] * len(dis)
    bases = {}
    for i, (c, a, b) in enumerate(dis[:300]):
        if c.mode != 'plan' or not c.plan:
            continue
        base = Case.from_json({**c.to_json(), 'plan': []})
        base.cid = f'b{i}'
        bases[i] = base
    if not bases:
        return out
    model = split_cases(run_driver('kernel', '\n'.join(b.text() for b in bases.values()) + '\n'))
    for i, base in bases.items():
        try:
            impl = kscript.Runner(base).run()
        except Exception:
            continue
        out[i] = impl == model.get(base.cid)
    return out
