"""C03 - runs are reproducible and unaffected by where they are stopped and resumed."""
import hashlib, json, os, subprocess, sys, random
from harness import kprops, kgen, kscript, koracle, kbridge
from harness.kbridge import TRUSTED_EXTRA
EXTRA_MODULES = kbridge.MODULES['C03']      # Props/KernelGen03: the refusal test and the stop event of run(until=<number>)
prepare = kbridge.prepare_for('C03')    # regenerates Generated/KernelRun03.lean only
from vlib.util import VERIF, REPO
ASSUMPTIONS = ['"observable trace" = what process bodies and probe callbacks see (env.now, values, exceptions, order)',
               'hash-seed independence is sampled (fresh interpreters with several PYTHONHASHSEED values), not a theorem',
               # b-fixwfq: the restriction to whole weights is lifted for WFQ (repaired in /repo: `fix: WFQ sums the weights of the active classes in table order`)
               'hash-seed scenarios: WFQ is also configured with weights that are not whole numbers (0.6, 1.1, 0.7 ... over string class ids, family `wfqw` of harness/netfan.py: '
               'the fixed program of findings/demos/C03_wfq_float_weights_hashseed.py plus 11 drawn ones; their trace is the departures seen by `out` and the lines the scheduler '
               'itself prints in debug mode - the finish stamp of every arrival - with `element_id` set to a constant because the constructor draws a uuid4); '
               'the other scheduler tables of the hash-seed scenarios (SP priorities, DRR weights, VC vticks, switch tables) stay integers or floats equal to integers',
               'run(until=event) for an event that fails re-raises its exception after all of its waiters have run (repaired in /repo)']
SPEC = [(3, 'plan:time'), (3, 'plan:outcome'), (2, 'plan:cond'), (2, 'plan:intr'), (2, 'plan:res'), (2, 'plan:store'), (1, 'untilfail'), (1, 'untilreact'), (2, 'crashplan'), (2, 'untiljoin')]

CHILD = r'''
import sys, json, hashlib
from harness import kscript
cases = json.load(sys.stdin)
out = []
for j in cases:
    lines = kscript.run_case(kscript.Case.from_json(j))
    out.append(hashlib.sha256("\n".join(lines).encode()).hexdigest())
print(json.dumps(out))
'''

def digests_in_fresh_interpreter(cases, hashseed):
    env = dict(os.environ, PYTHONHASHSEED=str(hashseed), PYTHONPATH=f'{VERIF}:{REPO}')
    r = subprocess.run([sys.executable, '-c', CHILD], input=json.dumps([c.to_json() for c in cases]),
                       capture_output=True, text=True, env=env, timeout=600)
    if r.returncode != 0:
        raise RuntimeError('fresh interpreter failed: ' + r.stderr[-800:])
    return json.loads(r.stdout)

def run(ctx):
    if ctx.replay:
        case = json.load(open(ctx.replay)).get('case') or {}
        if 'scenario' in case:          # a failing network program: re-execute it (the split ones alone, the others with the whole family)
            from harness import netscen
            res = {'coverage': {'evaluations': 1, 'distinct_nontrivial': 1, 'rule': 'replay of a network program', 'samples': [case]},
                   'disagreements': [], 'oracle_failures': []}
            if 'plan' in case:
                f = netscen.split_one(case['scenario'].split('-')[0], case['scenario'].split('-')[1], case['flows'], case['seed'], case['plan'], case['attach'])
                res['oracle_failures'] += [f] if f else []
                return res
            return net_part(ctx, res, [0, 4242])
    res = kprops.run_kernel(ctx, 'C03', SPEC, 1200, 30000, oracles=[kprops.oracle_split, koracle.oracle_until_event_return, koracle.oracle_driven_run_order], attribute=kprops.split_is_the_cause)
    # reproducibility: same program, same and other interpreter processes, several hash seeds
    rng = random.Random(f'C03-hash-{ctx.seed}')
    cases = kprops.gen_cases(rng, SPEC + [(2, 'res'), (2, 'store'), (2, 'cond')], 150 if ctx.quick else 1500)
    for i, c in enumerate(cases):
        c.cid = str(i)
    here = [hashlib.sha256('\n'.join(kscript.run_case(c)).encode()).hexdigest() for c in cases]
    again = [hashlib.sha256('\n'.join(kscript.run_case(c)).encode()).hexdigest() for c in cases]
    seeds = [0, 1, 4242, rng.randrange(1 << 30)] if not ctx.quick else [0, 4242]
    nfresh = 0
    for hs in seeds:
        other = digests_in_fresh_interpreter(cases, hs)
        nfresh += len(other)
        for c, a, b in zip(cases, here, other):
            if a != b:
                res['oracle_failures'].append({'what': f'trace digest differs in a fresh interpreter with PYTHONHASHSEED={hs}',
                                               'signature': 'hashseed-dependence', 'case': c.to_json()})
    for c, a, b in zip(cases, here, again):
        if a != b:
            res['oracle_failures'].append({'what': 'two executions of the same program in one interpreter differ',
                                           'signature': 'not-reproducible', 'case': c.to_json()})
    res['coverage']['reproducibility_runs'] = 2 * len(cases) + nfresh
    res['coverage']['hash_seeds'] = seeds
    return net_part(ctx, res, seeds)


def net_part(ctx, res, seeds):
    # network scenarios (schedulers, port, wire; int and string flow ids) under several hash seeds
    from harness import netscen, netfan
    # ... and the fan-out scenarios of harness/netfan.py (Hub broadcasts to string-named stations, Splitter/NSplitter, string-keyed
    # FIBDemux / switch / scheduler-class tables, one shared log): same-instant delivery order is part of their traces
    all_digests = lambda seed: {**netscen.all_digests(seed), **netfan.all_digests(seed)}
    base = all_digests(ctx.seed)
    nnet = len(base)
    # "executing the same simulation program twice, in the same ... interpreter process ... yields an identical observable
    # trace": every scenario is executed a second time in this process (the stochastic ones - lossy Wire, REDPort, RandomDemux -
    # re-seed `random` at their start, as the program does); other simulations, stochastic ones included, ran in between
    stats = dict(netscen.STATS)
    fstats = dict(netfan.STATS)
    again_net = all_digests(ctx.seed)
    nnet += len(again_net)
    for k in base:
        if base[k] != again_net.get(k):
            res['oracle_failures'].append({'what': f'network scenario {k}: the second execution of the same seeded program in the same interpreter '
                                                   f'process gave a different delivery trace (first run: {stats.get(k)} packets sent/delivered, '
                                                   f'second run: {netscen.STATS.get(k)})',
                                           'signature': 'not-reproducible-net', 'case': {'scenario': k, 'seed': ctx.seed, 'executions': 2}})
    res['coverage']['fanout_scenarios'] = len(fstats)
    res['coverage']['fanout_scenarios_with_3_or_more_deliveries_in_one_instant'] = sum(1 for a, b in fstats.values() if b >= 3)
    res['coverage']['fanout_puts'] = sum(a for a, b in fstats.values())
    what = lambda k: f'network scenario {k}' + (f' ({netfan.describe(k)}; {fstats[k][0]} fan-out puts, up to {fstats[k][1]} deliveries '
                                                f'logged in one instant)' if k in fstats else '')
    res['coverage']['stochastic_scenarios'] = len(stats)
    res['coverage']['stochastic_scenarios_with_loss'] = sum(1 for a, b in stats.values() if 0 < b < a)
    for hs in seeds:
        env = dict(os.environ, PYTHONHASHSEED=str(hs), PYTHONPATH=f'{VERIF}:{REPO}')
        r = subprocess.run([sys.executable, '-m', 'harness.netfan', str(ctx.seed)], capture_output=True, text=True, env=env, timeout=900, cwd=VERIF)
        if r.returncode != 0:
            raise RuntimeError('network scenario interpreter failed: ' + r.stderr[-800:])
        other = json.loads(r.stdout)
        nnet += len(other)
        for k in base:
            if base[k] != other.get(k):
                where = ''
                if k in fstats and sum(1 for f in res['oracle_failures'] if f['signature'] == 'hashseed-dependence-net') < 3:
                    # say where the two traces part: the scenario once more, alone, here and in a fresh interpreter under that seed
                    r1 = subprocess.run([sys.executable, '-m', 'harness.netfan', str(ctx.seed), k], capture_output=True, text=True, env=env, timeout=900, cwd=VERIF)
                    if r1.returncode == 0:
                        where = ' - ' + netfan.first_difference(netfan.one_trace(ctx.seed, k), json.loads(r1.stdout))
                res['oracle_failures'].append({'what': f'{what(k)}: the delivery trace under PYTHONHASHSEED={hs} differs from the in-process run{where}',
                                               'signature': 'hashseed-dependence-net', 'case': {'scenario': k, 'seed': ctx.seed, 'hashseed': hs}})
    # second half on network programs: the monitored scenarios driven by run(until=t)/step() pieces against the single run(until=T)
    sf, scov = netscen.split_failures(ctx.seed)
    res['oracle_failures'] += sf
    res['coverage'].update(scov)
    res['coverage']['network_scenario_runs'] = nnet
    res['coverage'].update(kbridge.coverage('C03'))
    return res
