"""Fan-out scenarios for the reproducibility half of C03 ("the same program, in another interpreter process and under any
string-hash seed, yields an identical observable trace"): programs in which *string ids meet same-instant fan-out*.

`harness/netscen.py` gives string flow ids to the schedulers, but every packet there has one way to go.  Here one `put` reaches
several devices in the same instant - a `Hub` broadcast to 4-6 string-named endpoints (ports given, not given, partly given),
`Splitter`/`NSplitter` copies, string-keyed `FIBDemux` tables (`ends`, `fib`), a `FairPacketSwitch`/`SimplePacketSwitch` whose
weight table is keyed by strings, schedulers whose classes are strings behind `flow2class` - and the receivers write ONE shared
log, feed ONE shared downstream queue and one `PacketSink`, so that the global order of the same-instant deliveries is part of
the trace.  Any iteration over a set (or other hash-ordered container) of strings on such a path shows up as a trace that
differs between PYTHONHASHSEEDs.  The scenarios are oracle-only programs (no Lean replay); `harness/c03.py` runs them in this
process (twice) and inside the fresh interpreters it starts anyway for `netscen`.

Only what a program can observe through the public API goes into a trace: instants, ids, sizes, order."""
import hashlib, json, random, sys
from copy import copy
from onl.sim import Environment
from onl.device import SingleDevice
from onl.packet import Packet, PacketSink
from onl.netdev import Port, Wire
from onl.netdev.hub import Hub
from onl.netdev.demux import FIBDemux, FlowDemux
from onl.netdev.splitter import Splitter, NSplitter
from onl.netdev.switch import SimplePacketSwitch, FairPacketSwitch
from onl.scheduler import SP, WFQ, DRR, VC
from vlib.util import bits, quiet

# element ids / flow ids / class ids: short strings whose hash order differs from their list order under most seeds
NAMES = ['alpha', 'bravo', 'charlie', 'delta', 'echo', 'foxtrot', 'golf', 'hotel', 'h1', 'h2', 'h10', 'sw-a', 'sw-b', 'core', 'edge.0', 'edge.1', 'x', 'y', '']
GRID = [0.5, 1.0, 1.0, 1.5, 2.0, 2.0, 3.0]        # instants at which the senders act: chosen from a small grid so that broadcasts coincide

TRACES = {}         # scenario key -> the trace itself (json-able), for the report when a digest differs
STATS = {}          # scenario key -> (fan-out puts, largest number of deliveries logged in one instant): non-vacuity


class Station(SingleDevice):
    """an end device with a string id: logs every arrival into the log shared by all stations of the program and passes a copy
    on into the shared downstream queue"""

    def __init__(self, env, element_id, log, uplink=None):
        self.env, self.log, self.uplink = env, log, uplink
        self.element_id = element_id
        self.out = None

    def put(self, packet):
        self.log.append((bits(self.env.now), self.element_id, packet.src, packet.flow_id, packet.packet_id, packet.size))
        if self.uplink is not None:
            self.uplink.put(copy(packet))


def _downstream(env, log):
    """the shared downstream queue: Port -> (recorder + PacketSink keyed by `src`)"""
    uplink = Port(env, 64000.0, None, False, 'uplink')
    sink = PacketSink(env, rec_flow_ids=False)

    class Rec:
        def put(self, p):
            log.append((bits(env.now), '<uplink>', p.src, p.flow_id, p.packet_id, p.size))
            sink.put(p)
    uplink.out = Rec()
    return uplink, sink


def _sink_view(sink):
    """what a program reads from a PacketSink: the per-source tables in the order the sink lists them"""
    return [(k, sink.packets_received[k], sink.bytes_received[k], [bits(t) for t in sink.arrivals[k]]) for k in sink.arrivals]


def _finish(key, env, log, sink, nfan):
    with quiet():
        env.run(until=10000)
    per_instant = {}
    for e in log:
        per_instant[e[0]] = per_instant.get(e[0], 0) + 1
    STATS[key] = (nfan[0], max(per_instant.values(), default=0))
    TRACES[key] = json.loads(json.dumps([log, _sink_view(sink) if sink is not None else None]))
    return hashlib.sha256(repr((log, _sink_view(sink) if sink is not None else None)).encode()).hexdigest()


def hub_scenario(key, seed):
    """a real Hub with 4-6 string-named stations; the per-endpoint ports are not given / all Wires of one delay / all Ports of
    one rate / given for some endpoints only; 2-4 of the stations broadcast bursts at instants of a common grid"""
    rng = random.Random(f'netfan-hub-{seed}')
    env = Environment()
    log = []
    uplink, sink = _downstream(env, log)
    n = rng.randint(4, 6)
    names = rng.sample(NAMES, n)
    stations = [Station(env, nm, log, uplink if rng.random() < 0.7 else None) for nm in names]
    style = rng.choice(['none', 'wire', 'port', 'some', 'wire'])
    d = rng.choice([0.25, 1.0, 3.0])
    def mk(i):
        if style == 'wire' or (style == 'some' and i % 2 == 0):
            return Wire(env, lambda: d, None, i)
        if style == 'port':
            return Port(env, 16000.0, None, False, f'hp{i}')
        return None
    ports = [] if style == 'none' else [mk(i) for i in range(n)]
    if rng.random() < 0.5:
        hub = Hub(env, stations, ports)
    else:
        hub = Hub(env, [], [])                       # endpoints attached one by one
        for i, st in enumerate(stations):
            hub.add_endpoint(st, ports[i] if ports else None)
    nfan = [0]
    def sender(st, k):
        pid = 1000 * (k + 1)
        last = 0.0
        for _ in range(rng.randint(2, 4)):
            t = rng.choice(GRID)
            yield env.timeout(t)
            for _ in range(rng.choice([1, 1, 2])):
                pid += 1
                nfan[0] += 1
                st.out.put(Packet(env.now, rng.choice([100, 500, 1500]), pid, src=st.element_id, flow_id=rng.choice(names)))
    for k, st in enumerate(rng.sample(stations, rng.randint(2, min(4, n)))):
        env.process(sender(st, k))
    return _finish(key, env, log, sink, nfan)


def split_scenario(key, seed):
    """source -> NSplitter(N) / Splitter -> string-keyed FIBDemux tables (`ends` by flow id, `fib` + `outs`, default output), a
    FlowDemux (int flow ids), wires; every leaf is a string-named station of the shared log"""
    rng = random.Random(f'netfan-split-{seed}')
    env = Environment()
    log = []
    uplink, sink = _downstream(env, log)
    flows = rng.sample(NAMES, 5)
    leaves = [Station(env, nm, log, uplink if rng.random() < 0.6 else None) for nm in rng.sample(NAMES, 6)]
    d = rng.choice([0.25, 1.0])
    def behind_wire(st, i):
        w = Wire(env, lambda: d, None, i)
        w.out = st
        return w
    fanout = rng.randint(2, 4)
    root = NSplitter(fanout) if fanout > 2 or rng.random() < 0.5 else Splitter()
    branches = []
    for b in range(fanout):
        kind = rng.choice(['ends', 'fib', 'wire', 'leaf'])
        if kind == 'ends':
            ends = {f: rng.choice(leaves) for f in rng.sample(flows, 3)}
            dev = FIBDemux(outs=[behind_wire(rng.choice(leaves), 10 + b)], ends=ends, fib={f: 0 for f in flows}, default_out=rng.choice(leaves))
        elif kind == 'fib':
            outs = [behind_wire(rng.choice(leaves), 20 + b), rng.choice(leaves), behind_wire(rng.choice(leaves), 30 + b)]
            dev = FIBDemux(outs=outs, fib={f: rng.randrange(3) for f in rng.sample(flows, 4)}, default_out=rng.choice(leaves))
        elif kind == 'wire':
            dev = behind_wire(rng.choice(leaves), 40 + b)
        else:
            dev = rng.choice(leaves)
        branches.append(dev)
    if isinstance(root, NSplitter):
        for b, dev in enumerate(branches):
            root.outs[b] = dev
    else:
        root.out1, root.out2 = branches[0], branches[1]
    # an int-keyed FlowDemux beside it (flow ids = positions of the string ids), fed by the same sources
    fd = FlowDemux([rng.choice(leaves) for _ in range(3)], default_out=rng.choice(leaves))
    nfan = [0]
    def source(k):
        pid = 1000 * (k + 1)
        for _ in range(rng.randint(3, 6)):
            yield env.timeout(rng.choice(GRID))
            for _ in range(rng.choice([1, 2])):
                pid += 1
                nfan[0] += 1
                f = rng.choice(flows)
                root.put(Packet(env.now, rng.choice([100, 500, 1500]), pid, src=f'src{k}', flow_id=f))
                if rng.random() < 0.4:
                    pid += 1
                    fd.put(Packet(env.now, 200, pid, src=f'src{k}', flow_id=flows.index(f)))
    for k in range(rng.randint(2, 3)):
        env.process(source(k))
    return _finish(key, env, log, sink, nfan)


def switch_scenario(key, seed):
    """a Hub in front of packet switches: every broadcast enters, in one instant, a FairPacketSwitch (weight table and fib keyed by
    string flow ids, all four servers) or a SimplePacketSwitch through one station per switch; the switch ports feed the shared log"""
    rng = random.Random(f'netfan-switch-{seed}')
    env = Environment()
    log = []
    uplink, sink = _downstream(env, log)
    flows = rng.sample(NAMES, 4)
    ids = {f: i for i, f in enumerate(flows)}
    server = rng.choice(['SP', 'VirtualClock', 'WFQ', 'DRR'])
    w = {f: rng.choice([1, 2, 3]) for f in flows}
    if server == 'VirtualClock':
        w = {f: float(v) for f, v in w.items()}
    nfan = [0]

    class Feeder(SingleDevice):
        """station that hands what it receives from the hub to a switch"""
        def __init__(self, element_id, sw, relabel):
            self.element_id, self.sw, self.relabel, self.out = element_id, sw, relabel, None
        def put(self, packet):
            p = copy(packet)
            if self.relabel:
                p.flow_id = ids[p.flow_id] % 2
            self.sw.put(p)

    feeders = []
    for s, nm in enumerate(rng.sample(NAMES, rng.randint(3, 4))):
        if s % 2 == 0:
            sw = FairPacketSwitch(env, 2, 8000.0, 50, w, server, element_id=nm)
            sw.demux.fib = {f: rng.randrange(2) for f in flows}
            for i, sched in enumerate(sw.ports):
                sched.out = Station(env, f'{nm}/out{i}', log, uplink)
            feeders.append(Feeder(nm, sw, False))
        else:
            sw = SimplePacketSwitch(env, 2, 8000.0, 50, element_id=nm)
            for i, port in enumerate(sw.ports):
                port.out = Station(env, f'{nm}/out{i}', log, uplink)
            feeders.append(Feeder(nm, sw, True))
    talkers = [Station(env, nm, log) for nm in ('t-one', 't-two')]
    Hub(env, feeders + talkers)
    def talk(st, k):
        pid = 1000 * (k + 1)
        for _ in range(rng.randint(3, 6)):
            yield env.timeout(rng.choice(GRID))
            for _ in range(rng.choice([1, 2, 3])):
                pid += 1
                nfan[0] += 1
                st.out.put(Packet(env.now, rng.choice([100, 500, 1500]), pid, src=st.element_id, flow_id=rng.choice(flows)))
    for k, st in enumerate(talkers):
        env.process(talk(st, k))
    return _finish(key, env, log, sink, nfan)


def class_scenario(key, seed):
    """schedulers whose classes are strings behind `flow2class` (int flow ids -> string class ids; the weight / priority / vtick
    table is keyed by the class strings), several flows per class, two schedulers fed in the same instant through a Splitter"""
    rng = random.Random(f'netfan-class-{seed}')
    env = Environment()
    log = []
    uplink, sink = _downstream(env, log)
    classes = rng.sample(NAMES, rng.randint(3, 5))
    nflows = len(classes) * 2
    f2c = lambda f: classes[f % len(classes)]
    scheds = []
    for s in range(2):
        kind = rng.choice(['sp', 'wfq', 'drr', 'vc'])
        w = {c: rng.choice([1, 2, 3]) for c in classes}
        if kind == 'sp':
            # SP serves per *flow* id: its table is keyed by the flows themselves (strings here) and flow2class only labels packets
            w = {c: w[c] for c in classes}
            sch = SP(env, 8000.0, w)
        elif kind == 'wfq':
            sch = WFQ(env, 8000.0, w, flow2class=f2c)
        elif kind == 'drr':
            sch = DRR(env, 8000.0, w, flow2class=f2c)
        else:
            sch = VC(env, 8000.0, {c: float(v) for c, v in w.items()}, flow2class=f2c)
        sch.out = Station(env, f'{kind}{s}', log, uplink)
        scheds.append((kind, sch))
    sp = Splitter()

    class ToSched:
        def __init__(self, kind, sch): self.kind, self.sch = kind, sch
        def put(self, p):
            if self.kind == 'sp':
                p = copy(p); p.flow_id = f2c(p.flow_id)
            self.sch.put(p)
    sp.out1, sp.out2 = ToSched(*scheds[0]), ToSched(*scheds[1])
    nfan = [0]
    def source(k):
        pid = 1000 * (k + 1)
        for _ in range(rng.randint(4, 8)):
            yield env.timeout(rng.choice(GRID))
            for _ in range(rng.choice([1, 2, 3])):
                pid += 1
                nfan[0] += 1
                sp.put(Packet(env.now, rng.choice([100, 500, 1500]), pid, src=f'src{k}', flow_id=rng.randrange(nflows)))
    for k in range(3):
        env.process(source(k))
    return _finish(key, env, log, sink, nfan)


# ---- BEGIN b-fixwfq: WFQ over string class ids with NON-INTEGER weights (family `wfqw`) ----
WFQW_WEIGHTS = [0.1, 0.2, 0.3, 0.7, 1.1, 0.6]      # the demo's table: sums of three or more of them depend on the order of addition
WFQW_MORE = [0.6, 1.1, 0.7, 0.1, 0.2, 0.3, 1.3, 2.5, 0.05, 3.3, 1e-3, 7.0, 0.9]


def _wfqw_run(key, env, sched, lines, nfan, out):
    """run the program; the trace is what it prints (the scheduler was built with `debug=True`: the library itself prints the
    finish stamp of every arrival and every departure) and the departures its `out` sees"""
    import contextlib, io
    buf = io.StringIO()
    with contextlib.redirect_stdout(buf):
        env.run(until=10000)
    lines += buf.getvalue().splitlines()
    per_instant = {}
    for e in out:
        per_instant[e[0]] = per_instant.get(e[0], 0) + 1
    STATS[key] = (nfan[0], max(per_instant.values(), default=0))
    TRACES[key] = json.loads(json.dumps([out, None, lines]))
    return hashlib.sha256(repr((out, lines)).encode()).hexdigest()


def wfqw_scenario(key, seed):
    """`WFQ` whose classes are *strings* and whose weights are *not whole numbers* (0.6, 1.1, 0.7 ...): three sources put bursts of
    several flows at instants of a small grid, so that three and more classes are backlogged when virtual time is advanced.
    `update_vtime` adds the weights of the backlogged classes; C03 ("under any string-hash seed ... an identical trace") needs
    that sum - hence virtual time, every finish stamp the scheduler prints in debug mode, and the order in which near-ties are
    served - not to depend on the iteration order of a set of strings.  Scenario 0 is the fixed program of
    findings/demos/C03_wfq_float_weights_hashseed.py (its departures part under PYTHONHASHSEED 0 / 1 on the tree before the
    `fix:` commit "WFQ sums the weights of the active classes in table order"); the others are drawn from the seed: string flow
    ids served directly, or int flow ids behind a `flow2class` into string classes."""
    k = int(key.split('-')[2])
    fixed = k == 0
    rng = random.Random(75) if fixed else random.Random(f'netfan-wfqw-{seed}')
    env = Environment()
    out, lines, nfan = [], [], [0]
    if fixed:
        names = ['voice', 'video', 'data', 'bulk', 'ctrl', 'alpha', 'bravo']
        flows = rng.sample(names, 5)
        w = {f: rng.choice(WFQW_WEIGHTS) for f in flows}
        sched = WFQ(env, 8000.0, w, debug=True)
        pick = lambda: rng.choice(flows)
        rounds, gaps, sizes, bursts = 15, [0, 0, 0.5, 1, 0.125, 0.3], [100, 500, 1500, 300], [1, 2, 3]
    else:
        classes = rng.sample(NAMES, rng.randint(3, 7))
        table = WFQW_WEIGHTS if rng.random() < 0.5 else WFQW_MORE
        w = {c: rng.choice(table) for c in classes}
        if rng.random() < 0.5:
            sched = WFQ(env, rng.choice([8000.0, 64000.0, 1e6]), w, debug=True)
            pick = lambda: rng.choice(classes)
        else:
            nflows = len(classes) * 2
            sched = WFQ(env, rng.choice([8000.0, 64000.0, 1e6]), w, flow2class=lambda f: classes[f % len(classes)], debug=True)
            pick = lambda: rng.randrange(nflows)
        rounds, gaps, sizes, bursts = rng.randint(6, 15), rng.choice([[0, 0, 0.5, 1, 0.125, 0.3], GRID, [0, 0.1, 0.3, 0.7]]), [100, 500, 1500, 300], [1, 2, 3]

    class Rec:
        def put(self, p): out.append((bits(env.now), '<wfq out>', p.src, p.flow_id, p.packet_id, p.size))
    sched.out = Rec()
    sched.element_id = 'wfqw'              # the constructor draws a uuid4, which the debug lines would print

    def src(j):
        pid = 1000 * j
        for _ in range(rounds):
            yield env.timeout(rng.choice(gaps))
            for _ in range(rng.choice(bursts)):
                pid += 1
                nfan[0] += 1
                sched.put(Packet(env.now, rng.choice(sizes), pid, src=f'src{j}', flow_id=pick()))
    for j in range(3):
        env.process(src(j + 1))
    return _wfqw_run(key, env, sched, lines, nfan, out)
# ---- END b-fixwfq ----


FAMILIES = (('hub', hub_scenario, 8), ('split', split_scenario, 4), ('switch', switch_scenario, 4), ('class', class_scenario, 4),
            ('wfqw', wfqw_scenario, 12))


def all_digests(seed):
    """scenario key -> digest of its trace; keys start with `fan-` (netscen's keys do not)"""
    out = {}
    for fam, fn, count in FAMILIES:
        for k in range(count):
            key = f'fan-{fam}-{k}'
            out[key] = fn(key, seed * 100 + k)
    return out


def describe(key):
    fam = key.split('-')[1]
    return {'hub': 'a Hub broadcasting to 4-6 string-named stations (ports given / not given), several senders in the same instants',
            'split': 'Splitter/NSplitter fan-out into string-keyed FIBDemux tables, a FlowDemux and wires',
            'switch': 'a Hub feeding Fair/SimplePacketSwitches whose weight and forwarding tables are keyed by string flow ids',
            'class': 'two schedulers with string class ids behind flow2class, fed in the same instant through a Splitter',
            'wfqw': 'a WFQ scheduler (debug output on) whose classes are strings and whose weights are not whole numbers, three bursty sources'}[fam]


def main(seed):
    """what the fresh interpreters of C03 print: the digests of netscen's scenarios and of the fan-out scenarios, one JSON object"""
    from harness import netscen
    d = netscen.all_digests(seed)
    d.update(all_digests(seed))
    return d


def one_trace(seed, key):
    """the trace of one fan-out scenario (executed alone)"""
    fam, fn, count = next(f for f in FAMILIES if f[0] == key.split('-')[1])
    fn(key, seed * 100 + int(key.split('-')[2]))
    return TRACES[key]


def first_difference(a, b):
    """where two traces [log, sink view] part: a sentence for the report"""
    from vlib.util import unbits
    show = lambda e: f'(t={unbits(e[0])}, receiver {e[1]!r}, src {e[2]!r}, flow {e[3]!r}, packet {e[4]})'
    for i in range(max(len(a[0]), len(b[0]))):
        x = a[0][i] if i < len(a[0]) else None
        y = b[0][i] if i < len(b[0]) else None
        if x != y:
            return f'shared log entry {i}: ' + (show(x) if x else '<end>') + ' here, ' + (show(y) if y else '<end>') + ' there'
    if len(a) > 2 and len(b) > 2 and a[2] != b[2]:          # b-fixwfq: the lines the program printed (family `wfqw`)
        i = next((i for i, (x, y) in enumerate(zip(a[2], b[2])) if x != y), min(len(a[2]), len(b[2])))
        return f'printed line {i}: `{a[2][i] if i < len(a[2]) else "<end>"}` here, `{b[2][i] if i < len(b[2]) else "<end>"}` there'
    return 'the PacketSink tables differ' if a[1] != b[1] else 'no difference when executed alone'


if __name__ == '__main__':
    if len(sys.argv) > 2:
        print(json.dumps(one_trace(int(sys.argv[1]), sys.argv[2])))
    else:
        print(json.dumps(main(int(sys.argv[1]))))
