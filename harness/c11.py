"""C11 - token-bucket output conforms to (rate, bucket) and delays nothing needlessly (TokenBucket, TwoRateTokenBucket)."""
from vlib.util import guarded_leg
import random, collections, json, math
from onl.sim import Environment
from onl.netdev import TokenBucket, TwoRateTokenBucket
from harness.fifo import FifoRun, Recorder, run_many, make_packet, INF
from harness.fshrink import shrink
from vlib.util import bits, run_driver, split_cases, quiet

ASSUMPTIONS = [
    'sizes are positive integers, rate/cir/pir/peak > 0 when given, bucket sizes >= 0, pbs is given (and not 0) whenever pir is, an `out` is attached',
    'theorems are over exact rationals; the replay compares IEEE doubles bit for bit (levels, update_time, instants)',
    'the oracle recomputes every release instant and colour by the property\'s own recurrence in Python floats with the same expression order and demands equality; '
    'the envelope, level-bound and peak-spacing inequalities are evaluated on the observed debit instants (`update_time` at the moment of `out.put`) with a tolerance of '
    '4 ulp per summand (of the byte figures, and of the instants scaled by rate/8), because token levels and instants are rounded sums',
    'the shaper process on the real kernel refines the FifoServer LTS: checked by replay (labels from Process.target); for the TokenBucket '
    'written as a process on the kernel MODEL it is a theorem (Props/C11K.lean), and that program is compared bit for bit with the real TokenBucket (tbk leg)',
]
EXTRA_MODULES = ('OnlVerif.Props.C11K', 'OnlVerif.Props.C11K2')
TRUSTED_EXTRA = ['the kernel guarantees (G1-G3) that make `tick` admissible only at quiescence are theorems of model K (C01), assumed for the device LTS',
                 'py2lean/elem.py + elements.py (typed AST-subset translator that splits a server generator at its `yield env.timeout` statements; '
                 'hand-written field schema of TokenBucket / TwoRateTokenBucket objects, declared effects `self.store.put(packet)`, `self.out.put(packet)`, `packet.color = …`); '
                 'the bridge theorems C11.tb_generated_eq_model, C11.tworate_generated_eq_model tie its output to the model']
BRIDGES = ['C11.tb_generated_eq_model', 'C11.tworate_generated_eq_model']
HAND_MODELLED = ['TokenBucket.run / TwoRateTokenBucket.run (the `while True` / `get` frame; the round itself is translated)', 'the constructors (initial levels)']
_PREP = {}


def prepare(ctx):
    """regenerate lean/OnlVerif/Generated/Bucket.lean from the source under $ONL_REPO (a translator failure or a bridge
    theorem that no longer compiles is a broken obligation)"""
    from py2lean import translate, elements
    _PREP['translated'] = elements.TRANSLATED['Bucket']
    _PREP['rewritten'] = translate.regenerate_all(only=('Bucket',))
    _PREP['diff_vs_pinned'] = translate.diff_vs_pinned('Bucket')

COL = {'': 0, 'green': 1, 'yellow': 2, 'red': 3}


def fbits(x):
    return 'None' if x is None else str(bits(x))


def snap_tb(run):
    d = run.dev
    return f'cb={bits(d.current_bucket)} ut={bits(d.update_time)} rc={d.packets_received} sn={d.packets_sent}'


def snap_tr(run):
    d = run.dev
    return (f'cc={bits(d.current_bucket_commit)} cp={fbits(d.current_bucket_peak)} ut={bits(d.update_time)} '
            f'rc={d.packets_received} sn={d.packets_sent}')


class Tap(Recorder):
    """the `out` of the shaper: records, at the moment of `out.put`, the public figures of the device"""

    def __init__(self, run):
        super().__init__(run)
        run.release = []          # (out instant, packet, update_time, levels, colour)

    def put(self, packet):
        super().put(packet)
        d = self.run.dev
        if hasattr(d, 'current_bucket'):
            lv = (d.current_bucket,)
        else:
            lv = (d.current_bucket_commit, d.current_bucket_peak)
        self.run.release.append((self.run.env.now, packet, d.update_time, lv, packet.color))


DY_RATE = [8, 8.0, 64.0, 800, 8000.0, 4096.0, 1e6]
DY_SIZE = [8, 16, 64, 100, 128, 1000, 1500, 4000]
DY_BUCKET = [0, 64, 100, 128, 1500, 3000, 10000]
GAPS = [0, 0, 0, 0.5, 1, 1, 2, 0.125, 10, 100, 1000.0, 1e5]


def gen_sources(rng, sizes):
    out = []
    for _ in range(rng.randint(1, 3)):
        script = []
        for _ in range(rng.randint(1, 8)):
            gap = rng.choice(GAPS + [round(rng.random() * 4, 3), rng.random() * 50])
            burst = [(rng.randrange(3), rng.choice(sizes)) for _ in range(rng.choice([1, 1, 1, 2, 3, 6]))]
            script.append((gap, burst))
        out.append(script)
    return out


def gen_case(rng, cid, kind=None, dyadic=None):
    dyadic = rng.random() < 0.6 if dyadic is None else dyadic
    kind = kind or rng.choice(['tb', 'tworate'])
    c = {'cid': str(cid), 'kind': kind, 'dyadic': dyadic, 'own_ids': rng.random() < 0.3}
    sizes = DY_SIZE if dyadic else [rng.randint(1, 3000) for _ in range(4)] + [40, 1500]
    def rate():
        return rng.choice(DY_RATE) if dyadic else rng.choice([rng.uniform(1, 1e4), rng.uniform(1e3, 1e7), rng.randint(1, 10 ** 6)])
    def bucket():
        return rng.choice(DY_BUCKET) if dyadic else rng.choice([rng.randint(0, 5000), rng.randint(1, 200), round(rng.uniform(0, 4000), 2)])
    if kind == 'tb':
        c['rate'], c['bucket'] = rate(), bucket()
        c['peak'] = None if rng.random() < 0.45 else (rng.choice([0, 0.0]) if rng.random() < 0.08 else rate() * rng.choice([1, 2, 4, 16]))
    else:
        c['cir'], c['cbs'] = rate(), bucket()
        if rng.random() < 0.6:
            c['pir'] = c['cir'] * rng.choice([1, 2, 4, 1.5]) if rng.random() < 0.8 else rate()
            b = bucket()
            c['pbs'] = b if b else rng.choice([64, 1500])
        else:
            c['pir'] = rng.choice([None, None, 0])
            c['pbs'] = rng.choice([None, None, 1500])
    c['sources'] = gen_sources(rng, sizes)
    if kind == 'tworate' and rng.random() < 0.5:
        # packets that already carry a colour when they reach this bucket (as after an upstream shaper, or a packet sent
        # through a shaper a second time): "colours EVERY packet green when all configured buckets covered it ..., yellow
        # when ..., red when ..." makes the colour a function of this bucket's state alone, so the incoming colour is not
        # an input of the model. The n-th packet put (over all sources) arrives with precolour[n mod len].
        c['precolour'] = [rng.choice(['', 'green', 'yellow', 'red', 'red', 'yellow']) for _ in range(rng.randint(1, 7))]
    return c


ASSUMPTIONS.append('peer shapers: in about 45% of the cases one or two further buckets of the same class (other rate / bucket size / peak, other CIR / CBS / PIR / PBS, '
                   'now and then an equal configuration) with their own sources live in the same Environment; every instance is replayed through the model as a '
                   'case of its own and judged by the oracle on its own history only')
CONFIG_KEYS = ('rate', 'bucket', 'peak', 'cir', 'cbs', 'pir', 'pbs')


def gen_group(rng, cid):
    """the shaper under test and, in about 45% of the cases, one or two PEER shapers alive in the same Environment: "the bucket
    (filled at `rate`, capped at bucket_size, initially full)" is the bucket of ONE shaper; what another TokenBucket /
    TwoRateTokenBucket with another rate, size or PIR setting releases next to it changes nothing of its releases and colours."""
    c = gen_case(rng, cid)
    if rng.random() < 0.55:
        return c
    c['peers'] = []
    for j in range(rng.choice([1, 1, 2])):
        other = 'tworate' if c['kind'] == 'tb' else 'tb'
        p = gen_case(rng, f'{cid}.p{j + 1}', c['kind'] if rng.random() < 0.85 else other, c['dyadic'] if rng.random() < 0.7 else None)
        if p['kind'] == c['kind'] and rng.random() < 0.2:
            for k in CONFIG_KEYS:          # a twin built from an equal configuration (its own traffic)
                if k in c:
                    p[k] = c[k]
            p['twin'] = True
        p['shared_ids'] = rng.random() < 0.4
        c['peers'].append(p)
    c['peers_first'] = rng.random() < 0.3
    return c


def header(c):
    if c['kind'] == 'tb':
        return f"CASE {c['cid']} tb {bits(c['rate'])} {bits(c['bucket'])} {fbits(c['peak'])}"
    return f"CASE {c['cid']} tworate {bits(c['cir'])} {bits(c['cbs'])} {fbits(c['pir'])} {fbits(c['pbs'])}"


ASSUMPTIONS.append('two-rate cases may feed packets that already carry a colour; the incoming colour is not an input of the model nor of the oracle '
                   '(the property colours every packet by the state of this bucket alone)')


def feeder(env, dev, script, counter, pre=None, nput=None):
    for gap, burst in script:
        yield env.timeout(gap)
        for flow, size in burst:
            counter[0] += 1
            p = make_packet(env, counter[0], flow, size)
            if pre:
                p.color = pre[nput[0] % len(pre)]
                nput[0] += 1
            dev.put(p)


def build(env, c, counter):
    if c['kind'] == 'tb':
        dev = TokenBucket(env, c['rate'], c['bucket'], c['peak'])
        run = FifoRun(env, dev, snap_tb)
    else:
        dev = TwoRateTokenBucket(env, c['cir'], c['cbs'], c['pir'], c['pbs'])
        run = FifoRun(env, dev, snap_tr)
    dev.out = Tap(run)
    nput = [0]
    for script in c['sources']:
        env.process(feeder(env, dev, script, [0] if c.get('own_ids') else counter, c.get('precolour'), nput))
    run.raised = None
    run.peers = []
    return run


def run_impl(c):
    """the shaper of case `c` - and the peer shapers of its group in the same Environment - run to exhaustion; returns the
    FifoRun of the shaper under test (the peers' runs in `.peers`)"""
    env = Environment()
    peers = c.get('peers') or []
    counter = [0]
    mk = lambda: [build(env, p, counter if p.get('shared_ids') else [0]) for p in peers]
    built = mk() if c.get('peers_first') else []
    run = build(env, c, counter)
    if not c.get('peers_first'):
        built = mk()
    run.peers = built
    try:
        run_many(env, [run] + built)
    except BaseException as x:      # the property says nothing is lost: the run must not raise
        run.raised = f'{type(x).__name__}: {x}'
        for r in built:
            r.raised = run.raised
    return run


def units(c, r):
    """[(label, sub-case, FifoRun)]: the shaper under test and the peers of its group, each a case of its own"""
    out = [('', c, r)]
    peers = c.get('peers') or []
    for j, (pc, pr) in enumerate(zip(peers, r.peers)):
        cfg = {k: pc[k] for k in CONFIG_KEYS if k in pc}
        out.append((f'instance {j + 2} of {len(peers) + 1} shapers in one Environment ({pc["kind"]} {cfg}'
                    f'{", the configuration of the first" if pc.get("twin") else ""}): ', dict(pc, cid=f"{c['cid']}.p{j + 1}"), pr))
    return out


def digest(r):
    """what the property speaks about, for the comparison of two executions of one case"""
    return [(tout, p.packet_id, ut, lv, col) for tout, p, ut, lv, col in r.release]


# ---- direct oracle (independent of the Lean model) -------------------------------------------------

def tol(n, *xs):
    return 4 * n * math.ulp(max([abs(x) for x in xs] + [1e-300]))


def envelope_fails(rel, rate, cap, what):
    """for all i <= j:  sum(size_i..size_j) <= max(cap, size_i) + rate*(t_j - t_i)/8   (rel = [(t, size)])"""
    n = len(rel)
    for i in range(n):
        tot = 0
        for j in range(i, n):
            tot += rel[j][1]
            bound = max(cap, rel[i][1]) + rate * (rel[j][0] - rel[i][0]) / 8.0
            # rounding enters through the byte sums/levels and, scaled by rate/8, through the instants (rounded sums of waits)
            slack = tol(j - i + 2, tot, bound, cap) + rate / 8.0 * tol(j - i + 2, rel[i][0], rel[j][0])
            if tot > bound + slack:
                return (f'{what}: departures {i}..{j} carry {tot} bytes between token-debit instants {rel[i][0]!r} and {rel[j][0]!r}; '
                        f'the envelope max({cap}, {rel[i][1]}) + {rate}*dt/8 allows {bound!r}')
    return None


def oracle(c, run):
    """the oracle on every instance of the case's group, each on its own history"""
    fails = []
    for label, uc, ur in units(c, run):
        for f in oracle_one(uc, ur):
            f['what'] = label + f['what']
            fails.append(f)
    return fails


def oracle_one(c, run):
    fails = []
    def fail(what, sig):
        fails.append({'what': what, 'signature': sig})
    if run.raised:
        fail(f'the run raised {run.raised}', 'tb-raised' if c['kind'] == 'tb' else 'tworate-raised')
        return fails
    acc, rel = run.arrivals, run.release
    if run.drops:
        fail('the shaper refused a packet', 'tb-put-drop')
    # nothing lost, FIFO, exactly once
    if [id(p) for _, p in acc] != [id(r[1]) for r in rel]:
        fail(f'{len(acc)} packets entered, {len(rel)} left once the simulation ran out of events, or the order differs (ids in: '
             f'{[p.packet_id for _, p in acc][:12]}, out: {[r[1].packet_id for r in rel][:12]})', 'tb-fifo-lossless')
        return fails
    d = run.dev
    if d.packets_received != len(acc) or d.packets_sent != len(rel):
        fail('packets_received / packets_sent do not count the packets', 'tb-counters')
    prev_out = None
    if c['kind'] == 'tb':
        rate, B, peak = c['rate'], c['bucket'], c['peak']
        level, upd = B, 0.0
        for k, ((a, p), (tout, _, ut, lv, _)) in enumerate(zip(acc, rel)):
            h = a if prev_out is None or a > prev_out else prev_out       # reaches the head of the queue
            lvl = min(B, level + rate * (h - upd) / 8.0)
            if p.size > lvl:
                t = h + (p.size - lvl) * 8.0 / rate
                level = 0.0
            else:
                t = h
                level = lvl - p.size
            upd = t
            out = t + p.size * 8.0 / peak if peak else t
            if ut != t or tout != out:
                fail(f'packet {p.packet_id} (size {p.size}) at the head at {h!r} with {lvl!r} tokens: tokens debited at {ut!r}, released at {tout!r}; '
                     f'earliest conforming instant {t!r}, release {out!r}', 'tb-release-time')
                break
            if lv[0] != level:
                fail(f'packet {p.packet_id}: level after the debit {lv[0]!r}, expected {level!r}', 'tb-level')
                break
            if lv[0] < 0 or lv[0] > max(B, 0) + tol(1, B):
                fail(f'packet {p.packet_id}: level after the debit {lv[0]!r} outside [0, {B}]', 'tb-level-bounds')
            if peak and prev_out is not None and tout - prev_out < p.size * 8.0 / peak - tol(2, tout, prev_out):
                fail(f'packet {p.packet_id}: released {tout - prev_out!r} after its predecessor, peak spacing is {p.size * 8.0 / peak!r}', 'tb-peak-spacing')
            prev_out = tout
        m = envelope_fails([(r[2], r[1].size) for r in rel], rate, B, '(rate, bucket) envelope')
        if m:
            fail(m, 'tb-envelope')
    else:
        cir, cbs, pir, pbs = c['cir'], c['cbs'], c['pir'], c['pbs']
        commit, peakl, upd = cbs, pbs, 0.0
        for k, ((a, p), (tout, _, ut, lv, colour)) in enumerate(zip(acc, rel)):
            h = a if prev_out is None or a > prev_out else prev_out
            cm = min(cbs, commit + cir * (h - upd) / 8.0)
            t = h
            if pir:
                pk = min(pbs, peakl + pir * (h - upd) / 8.0)
                if p.size > pk:                       # had to wait for peak tokens
                    t = h + (p.size - pk) * 8.0 / pir
                    want, commit, peakl = 'red', cm, 0.0
                elif p.size > cm:                     # only the committed tokens were short
                    want, commit, peakl = 'yellow', 0.0, pk - p.size
                else:
                    want, commit, peakl = 'green', cm - p.size, pk - p.size
                state = f'{pk!r} peak and {cm!r} committed tokens'
            else:
                if p.size > cm:
                    t = h + (p.size - cm) * 8.0 / cir
                    want, commit = 'yellow', 0.0
                else:
                    want, commit = 'green', cm - p.size
                state = f'{cm!r} committed tokens (no PIR)'
            upd = t
            if colour != want:
                pre = c.get('precolour')
                came = f' (it arrived carrying colour {pre[k % len(pre)]!r})' if pre else ''
                fail(f'packet {p.packet_id} (size {p.size}) reached the head at {h!r} with {state}: coloured {colour!r}, expected {want!r}{came}', 'tworate-colour')
                break
            if tout != t or ut != t:
                fail(f'packet {p.packet_id} (size {p.size}) reached the head at {h!r} with {state}: released at {tout!r} (update_time {ut!r}), expected {t!r}',
                     'tworate-release-time')
                break
            if lv[0] != commit or lv[1] != peakl:
                fail(f'packet {p.packet_id}: buckets after the debit (commit {lv[0]!r}, peak {lv[1]!r}), expected ({commit!r}, {peakl!r})', 'tworate-levels')
                break
            if lv[0] < 0 or (pir and lv[1] < 0):
                fail(f'packet {p.packet_id}: a bucket went negative {lv!r}', 'tworate-level-bounds')
            prev_out = tout
        m = envelope_fails([(r[2], r[1].size) for r in rel if r[4] == 'green'], cir, cbs, 'green traffic against (CIR, CBS)')
        if m:
            fail(m, 'tworate-green-envelope')
        if pir:
            m = envelope_fails([(r[2], r[1].size) for r in rel], pir, pbs, 'all traffic against (PIR, PBS)')
        else:
            m = envelope_fails([(r[2], r[1].size) for r in rel], cir, cbs, 'all traffic against (CIR, CBS), no PIR')
        if m:
            fail(m, 'tworate-envelope')
    return fails


# ---- BEGIN tbk leg: the TokenBucket as a process on the kernel MODEL (lean/OnlVerif/Net/TBOnK.lean, driver mode `tbk`) ----
@guarded_leg(None)
def run_tbk(ctx, res=None):
    """Extra leg for Props/C11K.lean: the K program of the TokenBucket (run / put + a source process), run at Float by the
    compiled driver, against the real TokenBucket with a real source process on the real kernel under env.run() (public API only),
    compared line for line; plus the token-bucket recurrence restated over the implementation's own put / out observations.
    Called twice from run(): without `res` it answers whether ctx.replay is a replay of this leg (then only this leg runs); with
    the result dict of the main leg it appends its coverage / disagreements / failures in place."""
    from vlib.util import unbits

    def replay_cases():
        j = json.load(open(ctx.replay))
        cs = ([j['case']] if j.get('case') else []) + [d['case'] for d in (j.get('broken_correspondence') or []) if d.get('case')]
        return [c for c in cs if isinstance(c, dict) and c.get('kind') == 'tbk']

    if res is None:
        if not (ctx.replay and replay_cases()):
            return None
        res = {'coverage': {'evaluations': 0, 'distinct_nontrivial': 0, 'rule': 'replay of a tbk case', 'samples': []},
               'disagreements': [], 'oracle_failures': []}
        run_tbk(ctx, res)
        k = res['coverage']['tb_on_kernel_model']
        res['coverage'].update(evaluations=k['evaluations'], distinct_nontrivial=k['distinct_nontrivial'], samples=[k['sample']])
        return res

    def gen(rng, cid):
        dyadic = rng.random() < 0.6
        sizes = DY_SIZE if dyadic else [rng.randint(1, 3000) for _ in range(4)] + [40, 1500]
        rate = float(rng.choice(DY_RATE)) if dyadic else rng.choice([rng.uniform(1, 1e4), rng.uniform(1e3, 1e7), float(rng.randint(1, 10 ** 6))])
        bucket = rng.choice(DY_BUCKET) if dyadic else rng.choice([rng.randint(0, 5000), rng.randint(1, 200), round(rng.uniform(0, 4000), 2)])
        peak = None if rng.random() < 0.45 else (rng.choice([0, 0.0]) if rng.random() < 0.08 else rate * rng.choice([1, 2, 4, 16]))
        n = rng.randint(0, 12)
        arr = [[float(rng.choice(GAPS[:9] + [round(rng.random() * 4, 3)])), rng.choice(sizes)] for _ in range(n)]
        return {'cid': f't{cid}', 'kind': 'tbk', 'rate': rate, 'bucket': bucket, 'peak': peak, 'arrivals': arr}

    def text(c):
        return ([f"CASE {c['cid']} {bits(float(c['rate']))} {bits(float(c['bucket']))} {'None' if c['peak'] is None else bits(float(c['peak']))}"]
                + [f'arr {bits(g)} {sz}' for g, sz in c['arrivals']] + ['END'])

    def impl(c):
        env = Environment()
        hist = []
        tb = TokenBucket(env, c['rate'], c['bucket'], c['peak'])

        class Rec:
            def put(self, packet):
                hist.append(f'out {packet.packet_id} {bits(env.now)}')
        tb.out = Rec()

        def src():
            for i, (gap, sz) in enumerate(c['arrivals']):
                yield env.timeout(gap)
                hist.append(f'put {i} {bits(env.now)}')
                tb.put(make_packet(env, i, 0, sz))
        env.process(src())
        try:
            with quiet():
                env.run()
            tag = 'RET'
        except BaseException as x:        # noqa - the property says the run never raises
            tag = f'RAISED {type(x).__name__}'
        lines = [tag] + hist + [f'cells rc={tb.packets_received} sn={tb.packets_sent} cb={bits(float(tb.current_bucket))} '
                                f'ut={bits(float(tb.update_time))}', f'now {bits(env.now)}']
        return lines + ['oracle -' if tag != 'RET' else 'oracle ok' if not oracle_k(c, lines) else 'oracle REJECT']

    def oracle_k(c, lines):
        """the token-bucket recurrence of C11 restated over the implementation's own put / out observations, in Python floats with the
        code's expression order, exact equality: the packet reaches the head at g = max(put instant, previous departure); the level is
        refilled to min(bucket, level + rate*(g - updated)/8); if smaller than the size the packet waits (size - level)*8/rate and the
        level becomes 0, else the level is debited; with a truthy peak it waits size*8/peak more; it leaves exactly then; FIFO; all leave"""
        if lines[0] != 'RET':
            return [{'what': f'the run ended with {lines[0]}', 'signature': 'tbk-raised'}]
        waiting, level, upd, free = [], c['bucket'], 0.0, 0.0
        sizes = [sz for _, sz in c['arrivals']]
        for l in lines[1:]:
            w = l.split()
            if w[0] == 'put':
                waiting.append((int(w[1]), unbits(int(w[2]))))
            elif w[0] == 'out':
                i, t = int(w[1]), unbits(int(w[2]))
                if not waiting or waiting[0][0] != i:
                    return [{'what': f'packet {i} leaves out of order', 'signature': 'tbk-order'}]
                tp = waiting.pop(0)[1]
                g = max(free, tp)
                lv = min(c['bucket'], level + c['rate'] * (g - upd) / 8.0)
                if sizes[i] > lv:
                    d = g + (sizes[i] - lv) * 8.0 / c['rate']; level = 0.0; upd = d
                else:
                    d = g; level = lv - sizes[i]; upd = g
                if c['peak']:
                    d = d + sizes[i] * 8.0 / c['peak']
                if t != d:
                    return [{'what': f'packet {i} leaves at {t!r}, the recurrence prescribes {d!r}', 'signature': 'tbk-release-time'}]
                free = t
        if waiting:
            return [{'what': f'packets {[i for i, _ in waiting][:6]} never left', 'signature': 'tbk-drain'}]
        return []

    rng = random.Random(f'C11-tbk-{ctx.seed}')
    cases = replay_cases() if ctx.replay else [gen(rng, i) for i in range(300 if ctx.quick else 5000)]
    txt, got = [], {}
    for c in cases:
        got[c['cid']] = impl(c)
        txt += text(c)
    model = split_cases(run_driver('tbk', '\n'.join(txt) + '\n')) if cases else {}
    hist, nontriv = collections.Counter(), 0
    dis, orc = res['disagreements'], res['oracle_failures']
    for c in cases:
        a, b = got[c['cid']], model.get(c['cid'])
        if a != b:
            i = next((i for i in range(max(len(a), len(b or []))) if i >= len(a) or not b or i >= len(b) or a[i] != b[i]), 0)
            dis.append({'case': c, 'detail': f'tbk line {i}: impl `{a[i] if i < len(a) else None}` model `{b[i] if b and i < len(b) else None}`',
                        'impl': a[:300], 'model': (b or [])[:300]})
        for f in oracle_k(c, a):
            f['case'] = c; f['trace'] = a[:300]
            orc.append(f)
        puts = {l.split()[1]: l.split()[2] for l in a if l.startswith('put ')}
        outs = {l.split()[1]: l.split()[2] for l in a if l.startswith('out ')}
        waited = sum(1 for i in outs if outs[i] != puts.get(i))
        hist['packets'] += len(puts); hist['released later than they arrived'] += waited
        hist['released at their arrival instant'] += len(outs) - waited
        hist['peak:' + ('None' if c['peak'] is None else 'zero' if not c['peak'] else 'set')] += 1
        if waited and len(outs) - waited:
            nontriv += 1
    res['coverage']['tb_on_kernel_model'] = {
        'evaluations': len(cases), 'distinct_nontrivial': nontriv, 'lines_compared': sum(len(v) for v in got.values()),
        'rule': 'random TokenBucket configurations (dyadic and arbitrary-float rates, bucket sizes incl. 0 and smaller than the packets, peak None / 0 / set) '
                'x one source (bursts, idle gaps) run by the K program at Float (driver mode tbk) and by the real TokenBucket with a real source '
                'process under env.run(); non-trivial = at least one packet waited and at least one was released at its arrival instant',
        'histogram': dict(sorted(hist.items())), 'sample': cases[0] if cases else None}
    return None
# ---- END tbk leg ----


# ---- BEGIN trk leg: the TwoRateTokenBucket as a process on the kernel MODEL (lean/OnlVerif/Net/TwoRateOnK.lean, driver mode `trk`) ----
@guarded_leg(None)
def run_trk(ctx, res=None):
    """Extra leg for Props/C11K2.lean: the K program of the TwoRateTokenBucket (run / put + a source process), run at Float by the
    compiled driver, against the real TwoRateTokenBucket with a real source process on the real kernel under env.run() (public API
    only), compared line for line; plus the release recurrence and the colour rule restated over the implementation's own put / out
    observations.  Called twice from run(), like run_tbk: without `res` it answers whether ctx.replay is a replay of this leg."""
    from vlib.util import unbits

    def replay_cases():
        j = json.load(open(ctx.replay))
        cs = ([j['case']] if j.get('case') else []) + [d['case'] for d in (j.get('broken_correspondence') or []) if d.get('case')]
        return [c for c in cs if isinstance(c, dict) and c.get('kind') == 'trk']

    if res is None:
        if not (ctx.replay and replay_cases()):
            return None
        res = {'coverage': {'evaluations': 0, 'distinct_nontrivial': 0, 'rule': 'replay of a trk case', 'samples': []},
               'disagreements': [], 'oracle_failures': []}
        run_trk(ctx, res)
        k = res['coverage']['tworate_on_kernel_model']
        res['coverage'].update(evaluations=k['evaluations'], distinct_nontrivial=k['distinct_nontrivial'], samples=[k['sample']])
        return res

    def gen(rng, cid):
        dyadic = rng.random() < 0.6
        sizes = DY_SIZE if dyadic else [rng.randint(1, 3000) for _ in range(4)] + [40, 1500]
        def rate():
            return float(rng.choice(DY_RATE)) if dyadic else rng.choice([rng.uniform(1, 1e4), rng.uniform(1e3, 1e7), float(rng.randint(1, 10 ** 6))])
        def bucket():
            return rng.choice(DY_BUCKET) if dyadic else rng.choice([rng.randint(0, 5000), rng.randint(1, 200), round(rng.uniform(0, 4000), 2)])
        cir, cbs = rate(), bucket()
        if rng.random() < 0.6:
            pir = cir * rng.choice([1, 2, 4, 1.5]) if rng.random() < 0.8 else rate()
            pbs = bucket() or rng.choice([64, 1500])
        else:
            pir, pbs = rng.choice([None, None, 0]), rng.choice([None, None, 1500])
        n = rng.randint(0, 12)
        arr = [[float(rng.choice(GAPS[:9] + [round(rng.random() * 4, 3)])), rng.choice(sizes)] for _ in range(n)]
        return {'cid': f'r{cid}', 'kind': 'trk', 'cir': cir, 'cbs': cbs, 'pir': pir, 'pbs': pbs, 'arrivals': arr}

    def ob(x):
        return 'None' if x is None else str(bits(float(x)))

    def text(c):
        return ([f"CASE {c['cid']} {ob(c['cir'])} {ob(c['cbs'])} {ob(c['pir'])} {ob(c['pbs'])}"]
                + [f'arr {bits(g)} {sz}' for g, sz in c['arrivals']] + ['END'])

    def impl(c):
        env = Environment()
        hist = []
        tr = TwoRateTokenBucket(env, c['cir'], c['cbs'], c['pir'], c['pbs'])

        class Rec:
            def put(self, packet):
                hist.append(f"out {packet.packet_id} {COL.get(packet.color, 9)} {bits(env.now)}")
        tr.out = Rec()

        def src():
            for i, (gap, sz) in enumerate(c['arrivals']):
                yield env.timeout(gap)
                hist.append(f'put {i} {bits(env.now)}')
                tr.put(make_packet(env, i, 0, sz))
        env.process(src())
        try:
            with quiet():
                env.run()
            tag = 'RET'
        except BaseException as x:        # noqa - the property says the run never raises
            tag = f'RAISED {type(x).__name__}'
        lines = [tag] + hist + [f'cells rc={tr.packets_received} sn={tr.packets_sent} cm={ob(tr.current_bucket_commit)} '
                                f'pk={ob(tr.current_bucket_peak)} ut={ob(tr.update_time)}', f'now {bits(env.now)}']
        return lines + ['oracle -' if tag != 'RET' else 'oracle ok' if not oracle_k(c, lines) else 'oracle REJECT']

    def oracle_k(c, lines):
        """release recurrence and colour rule of C11 restated over the implementation's own put / out observations, in Python floats with
        the code's expression order, exact equality: the packet reaches the head at g = max(put instant, previous departure); both
        configured buckets are refilled to min(size of the bucket, level + rate*(g - updated)/8); with PIR: green at g if both cover the
        packet (both pay), yellow at g if only the committed tokens are short (peak pays, committed emptied), red (size - peak)*8/PIR
        later if the peak tokens are short (peak emptied); without PIR: green at g if the committed bucket covers it, else yellow
        (size - commit)*8/CIR later (committed emptied); FIFO; all leave"""
        if lines[0] != 'RET':
            return [{'what': f'the run ended with {lines[0]}', 'signature': 'trk-raised'}]
        waiting, cm, pk, upd, free = [], c['cbs'], c['pbs'], 0.0, 0.0
        sizes = [sz for _, sz in c['arrivals']]
        for l in lines[1:]:
            w = l.split()
            if w[0] == 'put':
                waiting.append((int(w[1]), unbits(int(w[2]))))
            elif w[0] == 'out':
                i, col, t = int(w[1]), int(w[2]), unbits(int(w[3]))
                if not waiting or waiting[0][0] != i:
                    return [{'what': f'packet {i} leaves out of order', 'signature': 'trk-order'}]
                tp = waiting.pop(0)[1]
                g = max(free, tp)
                cm = min(c['cbs'], cm + c['cir'] * (g - upd) / 8.0)
                if c['pir']:
                    if not c['pbs']:
                        return [{'what': 'PIR without PBS (outside the property)', 'signature': 'trk-config'}]
                    pk = min(c['pbs'], pk + c['pir'] * (g - upd) / 8.0)
                    if sizes[i] > pk:
                        d = g + (sizes[i] - pk) * 8.0 / c['pir']; pk = 0.0; want = 3
                    elif sizes[i] > cm:
                        d = g; pk -= sizes[i]; cm = 0.0; want = 2
                    else:
                        d = g; pk -= sizes[i]; cm -= sizes[i]; want = 1
                else:
                    if sizes[i] > cm:
                        d = g + (sizes[i] - cm) * 8.0 / c['cir']; cm = 0.0; want = 2
                    else:
                        d = g; cm -= sizes[i]; want = 1
                upd = d
                if t != d:
                    return [{'what': f'packet {i} leaves at {t!r}, the recurrence prescribes {d!r}', 'signature': 'trk-release-time'}]
                if col != want:
                    return [{'what': f'packet {i} leaves with colour {col}, the rule prescribes {want} (1 green, 2 yellow, 3 red)', 'signature': 'trk-colour'}]
                free = t
        if waiting:
            return [{'what': f'packets {[i for i, _ in waiting][:6]} never left', 'signature': 'trk-drain'}]
        return []

    rng = random.Random(f'C11-trk-{ctx.seed}')
    cases = replay_cases() if ctx.replay else [gen(rng, i) for i in range(300 if ctx.quick else 5000)]
    txt, got = [], {}
    for c in cases:
        got[c['cid']] = impl(c)
        txt += text(c)
    model = split_cases(run_driver('trk', '\n'.join(txt) + '\n')) if cases else {}
    hist, nontriv = collections.Counter(), 0
    dis, orc = res['disagreements'], res['oracle_failures']
    for c in cases:
        a, b = got[c['cid']], model.get(c['cid'])
        if a != b:
            i = next((i for i in range(max(len(a), len(b or []))) if i >= len(a) or not b or i >= len(b) or a[i] != b[i]), 0)
            dis.append({'case': c, 'detail': f'trk line {i}: impl `{a[i] if i < len(a) else None}` model `{b[i] if b and i < len(b) else None}`',
                        'impl': a[:300], 'model': (b or [])[:300]})
        for f in oracle_k(c, a):
            f['case'] = c; f['trace'] = a[:300]
            orc.append(f)
        puts = {l.split()[1]: l.split()[2] for l in a if l.startswith('put ')}
        outs = {l.split()[1]: l.split()[3] for l in a if l.startswith('out ')}
        cols = collections.Counter(l.split()[2] for l in a if l.startswith('out '))
        waited = sum(1 for i in outs if outs[i] != puts.get(i))
        hist['packets'] += len(puts); hist['released later than they arrived'] += waited
        hist['released at their arrival instant'] += len(outs) - waited
        for k, v in cols.items():
            hist['colour:' + {'1': 'green', '2': 'yellow', '3': 'red'}.get(k, k)] += v
        hist['config:' + ('pir+pbs' if c['pir'] else 'cir-only')] += 1
        if len(cols) >= 2:
            nontriv += 1
    res['coverage']['tworate_on_kernel_model'] = {
        'evaluations': len(cases), 'distinct_nontrivial': nontriv, 'lines_compared': sum(len(v) for v in got.values()),
        'rule': 'random TwoRateTokenBucket configurations (PIR+PBS / CIR only incl. pir 0 and a PBS without PIR; dyadic and arbitrary-float rates, bucket '
                'sizes incl. 0 and smaller than the packets) x one source (bursts, idle gaps) run by the K program at Float (driver mode trk) and by the real '
                'TwoRateTokenBucket with a real source process under env.run(); non-trivial = packets of at least two colours left',
        'histogram': dict(sorted(hist.items())), 'sample': cases[0] if cases else None}
    return None
# ---- END trk leg ----


# ---- long-backlog probes (oracle only; never replayed through the model) -----------------------------

ASSUMPTIONS.append('long-backlog probes (2 per run, oracle only): a shaper is offered 18 000 - 26 000 small packets at two to three times its token rate '
                   '(or in a few huge bursts), so that more than ten thousand packets wait at once, and is then left to drain; demanded: the run does not '
                   'raise, every packet handed to put() is released exactly once, in order ("first in first out ... and nothing is lost")')


def gen_backlog(rng, cid, kind):
    size = rng.choice([40, 64, 100])
    c = {'cid': f'L{cid}', 'kind': 'backlog', 'shaper': kind, 'size': size, 'rate': rng.choice([8e5, 1e6, 4096e3]),
         'bucket': rng.choice([0, size, 1500, 10000]), 'n': rng.choice([18000, 20000, 24000, 26000]),
         'shape': rng.choice(['overload', 'overload', 'bursts']), 'factor': rng.choice([2, 2, 3]), 'chunk': rng.choice([20, 50, 125])}
    if kind == 'tworate' and rng.random() < 0.5:
        c['pir'], c['pbs'] = c['rate'] * 2, rng.choice([1500, 10000])
    return c


def run_backlog(c):
    """-> (failures, stats).  Restates "releases packets first in first out ... and nothing is lost" on a backlog of > 10 000 packets:
    whatever is handed to put() comes out, once, in order, however many packets are waiting."""
    from onl.packet import Packet
    env = Environment()
    if c['shaper'] == 'tb':
        dev = TokenBucket(env, c['rate'], c['bucket'])
    else:
        dev = TwoRateTokenBucket(env, c['rate'], max(c['bucket'], c['size']), c.get('pir'), c.get('pbs'))
    out, stat = [], {'in': 0, 'deepest_backlog': 0, 'last_put': 0.0}

    class Rec:
        def put(self, packet):
            out.append(packet.packet_id)
    dev.out = Rec()
    n, size = c['n'], c['size']
    per = size * 8.0 / c['rate']                   # seconds of tokens per packet

    def src():
        k = 0
        while k < n:
            m = min(n - k, c['chunk'] if c['shape'] == 'overload' else n // 3 + 1)
            for _ in range(m):
                dev.put(Packet(env.now, size, k, src='long', flow_id=0))
                k += 1
            stat['in'] = k
            stat['deepest_backlog'] = max(stat['deepest_backlog'], k - len(out))
            stat['last_put'] = env.now
            # `overload`: chunks at `factor` times the token rate; `bursts`: a third of the packets at once, the next third when about half of it has left
            yield env.timeout(m * per / c['factor'] if c['shape'] == 'overload' else m * per / 2)
    env.process(src())
    raised = None
    try:
        with quiet():
            env.run()
    except BaseException as x:       # noqa
        raised = f'{type(x).__name__}: {x}'
    what = (f'{"TokenBucket" if c["shaper"] == "tb" else "TwoRateTokenBucket"}(rate {c["rate"]}, bucket {c["bucket"]}) was handed {stat["in"]} packets of {size} bytes '
            f'({c["shape"]}, deepest backlog {stat["deepest_backlog"]} packets, last put at {stat["last_put"]!r}) and then left to drain until the simulation ran out of events at {env.now!r}: ')
    fails = []
    if raised:
        fails.append({'what': what + f'the run raised {raised}', 'signature': 'tb-backlog-raised'})
    elif len(out) != stat['in'] or getattr(dev, 'packets_sent', len(out)) != len(out):
        first = next((i for i, (a, b) in enumerate(zip(out, range(n))) if a != b), len(out))
        fails.append({'what': what + f'{len(out)} packets came out ({stat["in"] - len(out)} lost; the first missing id is {first})', 'signature': 'tb-backlog-lost'})
    elif out != list(range(n)):
        first = next(i for i, (a, b) in enumerate(zip(out, range(n))) if a != b)
        fails.append({'what': what + f'the packets came out in another order than they went in (position {first}: id {out[first]})', 'signature': 'tb-backlog-order'})
    return fails, stat


# ---- reconfiguration while running (oracle only; never replayed through the model) -------------------
# The public configuration attributes of a running shaper - TokenBucket `rate`, `bucket_size` (raised and lowered), `peak`;
# TwoRateTokenBucket `cir`, `cbs` and, when it was built with a PIR, `pir`, `pbs` (kept > 0) - are reassigned between packets by
# another process of the simulation (an operator that wakes at scripted instants).  The Lean models take one fixed configuration,
# so these cases are judged by a direct oracle alone.  READING: every clause is judged against the value the attribute has at
# the instant the clause refers to:
# * "capped at bucket_size": at the CURRENT bucket_size, enforced whenever a packet reaches the head of the queue - so the level
#   left after a debit never exceeds the bucket_size in force, and the burst bound sum(size_i..size_j) <= max(bucket_size, size_i)
#   + rate*(t_j - t_i)/8 holds, with the values then in force, over every window of token-debit instants that lies entirely between
#   two reassignments of `rate` / `bucket_size` (in particular from the first departure after a lowering of bucket_size on);
# * "at the earliest instant at which the bucket holds the packet's size ... waiting for exactly the missing tokens": the level
#   refilled to min(bucket_size, level + rate*(h - last update)/8) and the wait (size - level)*8/rate with the values in force at
#   the instant h the packet reaches the head; "plus 8*size/peak" with the peak in force when that wait begins (the debit instant).
# Where this leaves a case open the oracle STANDS DOWN for the packet and goes on from the shaper's own public level / update_time:
# a refill interval (last update, h) in which `rate` was reassigned or `bucket_size` RAISED (which rate filled the bucket for how
# long, and up to which cap, is not said; a lowered bucket_size is unambiguous: the cap applies from the change on and the refill
# is the same either way); a packet already waiting for tokens when the rate is reassigned, or for its peak spacing when `peak` is.
# A case in which a reassignment falls into the very instant of an arrival, a head-of-line instant, a debit or a release is not
# judged at all (the generator keeps the operator's instants off the traffic's grid).

ASSUMPTIONS.append(
    'reconfigured cases (oracle only): `rate` / `bucket_size` / `peak` of a running TokenBucket (`cir` / `cbs`, and `pir` / `pbs` of a TwoRateTokenBucket built '
    'with a PIR) are reassigned by an operator process at instants off the traffic grid, values within the domain of the property (rates > 0, bucket sizes >= 0, '
    'pbs > 0). Each clause is judged with the values in force at the instant it refers to: refill, cap, wait and colour with those at the head-of-line instant, '
    'the peak spacing with the peak at the debit instant, the envelopes over windows of debit instants between two reassignments of the rate / size they name. '
    'The exact recurrence stands down (and resumes from the public level / update_time) for a packet whose refill interval saw a rate reassigned or a bucket '
    'size raised, and for a packet already waiting when the rate it waits by is reassigned; level bound and envelopes are judged throughout')

RC_ATTRS = {'tb': ('rate', 'bucket_size', 'peak'), 'tworate': ('cir', 'cbs', 'pir', 'pbs')}
RC_INIT = {'rate': 'rate', 'bucket_size': 'bucket', 'peak': 'peak', 'cir': 'cir', 'cbs': 'cbs', 'pir': 'pir', 'pbs': 'pbs'}      # attribute -> key of the case


def reconf_case(rng, cid):
    c = gen_case(rng, f'R{cid}', 'tb' if rng.random() < 0.7 else 'tworate')
    c['shaper'], c['kind'] = c['kind'], 'reconf'
    c.pop('precolour', None)
    c['own_ids'] = False
    dyadic = c['dyadic']
    def rate():
        return rng.choice(DY_RATE) if dyadic else rng.choice([rng.uniform(1, 1e4), rng.uniform(1e3, 1e7), rng.randint(1, 10 ** 6)])
    def bucket():
        return rng.choice(DY_BUCKET) if dyadic else rng.choice([rng.randint(0, 5000), rng.randint(1, 200), round(rng.uniform(0, 4000), 2)])
    cur = {a: c[RC_INIT[a]] for a in RC_ATTRS[c['shaper']]}
    def change():
        if c['shaper'] == 'tb':
            attr = rng.choice(['bucket_size', 'bucket_size', 'bucket_size', 'rate', 'rate', 'peak'])
        else:
            attr = rng.choice(['cbs', 'cbs', 'cir'] + (['pbs', 'pir'] if c['pir'] else []))
        if attr in ('rate', 'cir', 'pir'):
            new = rate() if rng.random() < 0.5 else cur[attr] * rng.choice([0.5, 2, 4, 0.25])
        elif attr == 'peak':
            new = rng.choice([None, 0]) if cur['peak'] and rng.random() < 0.4 else cur['rate'] * rng.choice([1, 2, 4, 16])
        else:
            # raised and lowered alike; a lowering below the tokens the bucket holds is the interesting half
            new = bucket()
            if rng.random() < 0.5 and cur[attr]:
                new = cur[attr] // rng.choice([2, 3, 8]) if isinstance(cur[attr], int) else cur[attr] / rng.choice([2, 4])
            if attr == 'pbs' and not new:
                new = rng.choice([64, 1500])
        cur[attr] = new
        return [attr, new]
    # the operator's instants: raw floats strictly inside a gap between two arrival instants (half of them) or anywhere in the run
    arr = sorted({t for s in c['sources'] for t in _arrival_instants(s)})
    span = (arr[-1] if arr else 0.0) + 1.0
    inst = []
    for _ in range(rng.randint(1, 4)):
        gaps = [(x, y) for x, y in zip(arr, arr[1:]) if y > x]
        if gaps and rng.random() < 0.5:
            x, y = rng.choice(gaps)
            inst.append(x + (y - x) * rng.uniform(0.05, 0.95))
        else:
            inst.append(rng.uniform(0.0, span))
    c['reconf'] = [[t] + change() for t in sorted(inst)]
    return c


def _arrival_instants(script):
    t, out = 0.0, []
    for gap, _ in script:
        t = t + gap
        out.append(t)
    return out


class RCOut:
    """the `out` of a reconfigured shaper: records, at the moment of `out.put`, the public figures of the device"""

    def __init__(self, env, dev):
        self.env, self.dev, self.release = env, dev, []      # (out instant, packet, update_time, levels, colour)

    def put(self, packet):
        d = self.dev
        lv = (d.current_bucket,) if hasattr(d, 'current_bucket') else (d.current_bucket_commit, d.current_bucket_peak)
        self.release.append((self.env.now, packet, d.update_time, lv, packet.color))


def run_reconf(c):
    """-> (arrivals [(instant, packet)], releases, applied [(instant, attribute, value)], raised, device)"""
    env = Environment()
    if c['shaper'] == 'tb':
        dev = TokenBucket(env, c['rate'], c['bucket'], c['peak'])
    else:
        dev = TwoRateTokenBucket(env, c['cir'], c['cbs'], c['pir'], c['pbs'])
    out = dev.out = RCOut(env, dev)
    arrivals, applied, raised = [], [], None

    class Entry:
        def put(self, p):
            arrivals.append((env.now, p))
            dev.put(p)

    def operator():
        for t, attr, val in c.get('reconf') or []:
            if t > env.now:
                yield env.timeout(t - env.now)
            setattr(dev, attr, val)
            applied.append((env.now, attr, val))        # the instant it really happened (t up to rounding)
    counter = [0]
    for script in c['sources']:
        env.process(feeder(env, Entry(), script, counter))
    env.process(operator())
    try:
        with quiet():
            env.run()
    except BaseException as x:          # the property says nothing is lost: the run must not raise
        raised = f'{type(x).__name__}: {x}'
    return arrivals, out.release, applied, raised, dev


def oracle_reconf(c):
    """-> (failures, statistics, releases)"""
    st = collections.Counter()
    fails = []
    def fail(what, sig):
        fails.append({'what': what, 'signature': sig})
    acc, rel, applied, raised, dev = run_reconf(c)
    tb = c['shaper'] == 'tb'
    pre = 'tb' if tb else 'tworate'
    if raised:
        fail(f'the run raised {raised}', f'{pre}-raised')
        return fails, st, rel
    # nothing lost, first in first out, exactly once
    if [id(p) for _, p in acc] != [id(r[1]) for r in rel]:
        fail(f'{len(acc)} packets entered, {len(rel)} left once the simulation ran out of events, or the order differs (ids in: '
             f'{[p.packet_id for _, p in acc][:12]}, out: {[r[1].packet_id for r in rel][:12]})', 'tb-fifo-lossless')
        return fails, st, rel
    st['packets'] += len(acc)
    init = {a: c[RC_INIT[a]] for a in RC_ATTRS[c['shaper']]}
    def at(attr, t):
        v = init[attr]
        for r, a, val in applied:
            if a == attr and r < t:
                v = val
        return v
    def reassigned(attr, lo, hi):
        return any(a == attr and lo < r < hi for r, a, _ in applied)
    def raised_in(attr, lo, hi):
        v = at(attr, lo)
        for r, a, val in applied:
            if a == attr and lo < r < hi:
                if val > v:
                    return True
                v = val
        return False
    def told(*attrs):
        hist = [f'{a} = {val!r} at {r!r}' for r, a, val in applied if a in attrs]
        return ('constructed with ' + ', '.join(f'{a} {init[a]!r}' for a in attrs) + ('; another process assigned ' + ', '.join(hist) if hist else ''))
    # head-of-line instants
    heads, prev_out = [], None
    for (a, _), r in zip(acc, rel):
        heads.append(a if prev_out is None or a > prev_out else prev_out)
        prev_out = r[0]
    grid = {a for a, _ in acc} | set(heads) | {r[0] for r in rel} | {r[2] for r in rel}
    if any(r in grid for r, _, _ in applied):
        st['cases_stood_down:reconfigured_in_the_instant_of_an_arrival_head_debit_or_release'] += 1
        return fails, st, rel
    st['cases_judged'] += 1
    prev_out = None
    if tb:
        level, upd = init['bucket_size'], 0.0
        for (a, p), h, (tout, _, ut, lv, _) in zip(acc, heads, rel):
            rate, B = at('rate', h), at('bucket_size', h)
            who = f'packet {p.packet_id} (size {p.size}) at the head at {h!r}, rate {rate!r} and bucket_size {B!r} in force ({told("rate", "bucket_size")})'
            if applied and applied[0][0] < h:
                st['packets_at_the_head_after_a_reconfiguration'] += 1
            if reassigned('rate', upd, h) or raised_in('bucket_size', upd, h):
                st['packets_not_judged_exactly:rate_reassigned_or_bucket_raised_during_the_refill'] += 1
            else:
                lvl = min(B, level + rate * (h - upd) / 8.0)
                if lvl < level:
                    st['refills_capped_below_the_tokens_held:bucket_size_lowered'] += 1
                if p.size > lvl:
                    t, left = h + (p.size - lvl) * 8.0 / rate, 0.0
                else:
                    t, left = h, lvl - p.size
                if t > h and reassigned('rate', h, max(t, ut)):
                    st['packets_not_judged_exactly:rate_reassigned_while_waiting_for_tokens'] += 1
                elif ut != t:
                    fail(f'{who} with {lvl!r} tokens (= min(bucket_size, {level!r} + rate*({h!r} - {upd!r})/8)): tokens debited at {ut!r}, the earliest '
                         f'instant at which the bucket holds its size is {t!r}', 'tb-reconf-release-time')
                    break
                elif lv[0] != left:
                    fail(f'{who} with {lvl!r} tokens (= min(bucket_size, {level!r} + rate*({h!r} - {upd!r})/8)): {lv[0]!r} tokens left after the debit, expected {left!r}',
                         'tb-reconf-level')
                    break
                else:
                    st['packets_judged_exactly'] += 1
            # "capped at bucket_size": what is left after the debit lies within [0, the bucket_size in force], also where the recurrence stood down
            if lv[0] < 0 or lv[0] > max(B, 0) + tol(1, B):
                fail(f'{who}: {lv[0]!r} tokens are left after its debit - the bucket is capped at bucket_size, at most {B!r} can be there', 'tb-reconf-level-bounds')
                break
            # "plus 8*size/peak when a peak rate is set": the peak in force when that wait begins
            peak = at('peak', ut)
            if reassigned('peak', ut, tout):
                st['packets_not_judged_exactly:peak_reassigned_during_the_spacing'] += 1
            else:
                out = ut + p.size * 8.0 / peak if peak else ut
                if tout != out:
                    fail(f'{who}: tokens debited at {ut!r}, peak {peak!r} in force ({told("peak")}): released at {tout!r}, expected {out!r}', 'tb-reconf-peak-release')
                    break
            level, upd, prev_out = lv[0], ut, tout
        envs = [('rate', 'bucket_size', None, '(rate, bucket_size) envelope', 'tb-reconf-envelope')]
    else:
        commit, peakl, upd = init['cbs'], init['pbs'], 0.0
        for (a, p), h, (tout, _, ut, lv, colour) in zip(acc, heads, rel):
            cir, cbs, pir, pbs = at('cir', h), at('cbs', h), at('pir', h), at('pbs', h)
            who = (f'packet {p.packet_id} (size {p.size}) at the head at {h!r}, CIR {cir!r} CBS {cbs!r} PIR {pir!r} PBS {pbs!r} in force '
                   f'({told("cir", "cbs", "pir", "pbs")})')
            if applied and applied[0][0] < h:
                st['packets_at_the_head_after_a_reconfiguration'] += 1
            amb = reassigned('cir', upd, h) or raised_in('cbs', upd, h) or (pir and (reassigned('pir', upd, h) or raised_in('pbs', upd, h)))
            if amb:
                st['packets_not_judged_exactly:rate_reassigned_or_bucket_raised_during_the_refill'] += 1
            else:
                cm = min(cbs, commit + cir * (h - upd) / 8.0)
                t, by = h, None
                if pir:
                    pk = min(pbs, peakl + pir * (h - upd) / 8.0)
                    if p.size > pk:
                        t, by = h + (p.size - pk) * 8.0 / pir, 'pir'
                        want, left = 'red', (cm, 0.0)
                    elif p.size > cm:
                        want, left = 'yellow', (0.0, pk - p.size)
                    else:
                        want, left = 'green', (cm - p.size, pk - p.size)
                    state = f'{pk!r} peak and {cm!r} committed tokens'
                else:
                    if p.size > cm:
                        t, by = h + (p.size - cm) * 8.0 / cir, 'cir'
                        want, left = 'yellow', (0.0, lv[1])
                    else:
                        want, left = 'green', (cm - p.size, lv[1])
                    state = f'{cm!r} committed tokens (no PIR)'
                if colour != want:
                    fail(f'{who} with {state}: coloured {colour!r}, expected {want!r}', 'tworate-reconf-colour')
                    break
                if by and reassigned(by, h, max(t, ut)):
                    st['packets_not_judged_exactly:rate_reassigned_while_waiting_for_tokens'] += 1
                elif tout != t or ut != t:
                    fail(f'{who} with {state}: released at {tout!r} (update_time {ut!r}), expected {t!r}', 'tworate-reconf-release-time')
                    break
                elif (lv[0], lv[1]) != left:
                    fail(f'{who} with {state}: buckets after the debit (commit {lv[0]!r}, peak {lv[1]!r}), expected {left!r}', 'tworate-reconf-levels')
                    break
                else:
                    st['packets_judged_exactly'] += 1
            if lv[0] < 0 or lv[0] > max(cbs, 0) + tol(1, cbs) or (pir and (lv[1] < 0 or lv[1] > pbs + tol(1, pbs))):
                fail(f'{who}: (commit {lv[0]!r}, peak {lv[1]!r}) tokens are left after its debit - outside [0, the bucket sizes in force]', 'tworate-reconf-level-bounds')
                break
            commit, peakl, upd, prev_out = lv[0], lv[1], ut, tout
        envs = [('cir', 'cbs', 'green', 'green traffic against (CIR, CBS)', 'tworate-reconf-green-envelope')]
        envs.append(('pir', 'pbs', None, 'all traffic against (PIR, PBS)', 'tworate-reconf-envelope') if init['pir'] else
                    ('cir', 'cbs', None, 'all traffic against (CIR, CBS), no PIR', 'tworate-reconf-envelope'))
    # the burst bound, with the values then in force, over the windows of token-debit instants between two reassignments of the rate /
    # bucket size it names (before the first, between consecutive ones, after the last).  It is the clause the property spells out as a
    # formula over departures alone: its failures are listed before those of the recurrence above
    recurrence, fails[:] = list(fails), []
    for ra, ba, col, what, sig in envs:
        cuts = [-1.0] + [r for r, a, _ in applied if a in (ra, ba)] + [INF]
        for lo, hi in zip(cuts, cuts[1:]):
            win = [(r[2], r[1].size) for r in rel if lo < r[2] < hi and (col is None or r[4] == col)]
            if not win:
                continue
            rate, B = at(ra, win[0][0]), at(ba, win[0][0])
            st['envelope_windows'] += 1
            if lo >= 0:
                st['envelope_windows_after_a_reassignment'] += 1
            m = envelope_fails(win, rate, B, what + (f' with the values in force since {lo!r} ({told(ra, ba)})' if lo >= 0 else ' before the first reassignment'))
            if m:
                fail(m, sig)
                break
    fails += recurrence
    return fails, st, rel


def shrink_reconf(c, sig):
    """smaller case with the same oracle failure: fewer sources / entries / packets, then fewer reassignments"""
    import copy
    still = lambda cc: any(g['signature'] == sig for g in oracle_reconf(cc)[0])
    best = shrink(c, ['sources'], still, budget=200)
    i = len(best.get('reconf') or []) - 1
    while i >= 0:
        cc = copy.deepcopy(best)
        del cc['reconf'][i]
        try:
            if still(cc):
                best = cc
        except Exception:
            pass
        i -= 1
    return best


def run(ctx):
    tk = run_tbk(ctx)                        # tbk leg: a replay of one of its cases runs only that leg
    if tk is not None:
        return tk
    tk = run_trk(ctx)                        # trk leg: likewise
    if tk is not None:
        return tk
    rng = random.Random(f'C11-{ctx.seed}')
    if ctx.replay:
        j = json.load(open(ctx.replay))
        cases = [j['case']] if j.get('case') else [d['case'] for d in j.get('broken_correspondence', [])]
    else:
        cases = [gen_group(rng, i) for i in range(600 if ctx.quick else 12000)]
    brng = random.Random(f'C11-backlog-{ctx.seed}')
    backlog = [c for c in cases if c.get('kind') == 'backlog'] if ctx.replay else \
        [gen_backlog(brng, i, kind) for i, kind in enumerate(['tb', 'tworate'] * (1 if ctx.quick else 4))]
    rrng = random.Random(f'C11-reconf-{ctx.seed}')
    rccases = [c for c in cases if c.get('kind') == 'reconf'] if ctx.replay else \
        [reconf_case(rrng, i) for i in range(64 if ctx.quick else 1200)]      # about a tenth of the replayed cases
    cases = [c for c in cases if c.get('kind') not in ('backlog', 'reconf')]
    text, runs = [], {}
    for c in cases:
        r = run_impl(c)
        runs[c['cid']] = r
        for _, uc, ur in units(c, r):
            text.append(header(uc)); text += ur.acts; text.append('END')
    model = split_cases(run_driver('fifo', '\n'.join(text) + '\n'))
    dis, orc = [], []
    hist = collections.Counter()
    distinct = set(); nontriv = 0; samples = []; shrunk = 0
    for c in cases:
        r = runs[c['cid']]
        a = r.obs
        if c.get('peers'):
            hist['cases_with_peer_shapers'] += 1
            hist['peer_shapers'] += len(c['peers'])
            hist['peer_shapers:twin_configuration'] += sum(1 for p in c['peers'] if p.get('twin'))
            hist['peer_shapers:other_class'] += sum(1 for p in c['peers'] if p['kind'] != c['kind'])
            hist['peer_shapers:packets_released'] += sum(len(pr.release) for pr in r.peers)
            hist['peer_shapers:packets_that_waited'] += sum(1 for pr in r.peers for rel, (ta, _) in zip(pr.release, pr.arrivals) if rel[2] > ta)
        for l in r.acts:
            hist[l.split(' ')[0]] += 1
        if c['kind'] == 'tb':
            cfg = 'tb:' + ('peak' if c['peak'] else 'nopeak')
            cap = c['bucket']
        else:
            cfg = 'tworate:' + ('pir+pbs' if c['pir'] else 'cir-only')
            cap = c['cbs']
        hist['config:' + cfg] += 1
        waited = sum(1 for (t, p, ut, lv, col), (ta, _) in zip(r.release, r.arrivals) if ut > ta)
        hist['packets_released'] += len(r.release)
        hist['packets_larger_than_bucket'] += sum(1 for _, p in r.arrivals if p.size > cap)
        for rel in r.release:
            if rel[4]:
                hist['colour:' + rel[4]] += 1
        if c.get('precolour'):
            hist['cases_with_precoloured_packets'] += 1
        idle = any(y[0] - x[0] >= 100 for x, y in zip(r.arrivals, r.arrivals[1:]))
        hist['cases_with_idle_gap>=100s'] += idle
        # same-instant coincidences: a packet reaches the head exactly when its predecessor leaves
        hist['head_at_predecessor_release'] += sum(1 for x, y in zip(r.release, r.arrivals[1:]) if y[0] <= x[0])
        immediate = len(r.release) - waited
        nt = waited > 0 and immediate > 0
        key = json.dumps({k: v for k, v in c.items() if k != 'cid'}, sort_keys=True)
        if nt and key not in distinct:
            nontriv += 1
        distinct.add(key)
        for label, uc, ur in units(c, r):
            ua, ub = ur.obs, model.get(uc['cid'])
            if ua != ub:
                i = next((i for i in range(max(len(ua), len(ub or []))) if i >= len(ua) or not ub or i >= len(ub) or ua[i] != ub[i]), 0)
                dis.append({'case': c, 'detail': f'{label}line {i}: impl `{ua[i] if i < len(ua) else None}` model `{ub[i] if ub and i < len(ub) else None}`',
                            'impl': ua[:300], 'model': (ub or [])[:300]})
        for f in oracle(c, r):
            f['case'] = c; f['trace'] = a[:300]
            if shrunk < 3 and not ctx.replay:       # minimise the first failing inputs
                shrunk += 1
                sig = f['signature']
                small = shrink(c, ['sources'], lambda cc: any(g['signature'] == sig for g in oracle(cc, run_impl(cc))))
                r2 = run_impl(small)
                f2 = next((g for g in oracle(small, r2) if g['signature'] == sig), None)
                if f2:
                    f = dict(f2, case=small, trace=r2.obs[:300], shrunk_from=c['cid'])
            orc.append(f)
        if len(samples) < 2 and nt:
            samples.append({'case': c, 'actions': r.acts[:40]})
    # the same configurations built again later in this process (fresh Environment): releases, debit instants, levels and colours
    # are functions of the configuration and the arrivals
    again = 0
    for c in ([] if ctx.replay else cases[:40]):
        r1, r2 = runs[c['cid']], run_impl(c)
        again += 1
        for (label, uc, u1), (_, _, u2) in zip(units(c, r1), units(c, r2)):
            d1, d2 = digest(u1), digest(u2)
            if d1 != d2:
                k = next((k for k in range(min(len(d1), len(d2))) if d1[k] != d2[k]), min(len(d1), len(d2)))
                orc.append({'what': f'{label}the same case executed a second time in this process (after {len(cases)} other cases) releases differently from '
                                    f'release {k} on: first (instant, id, debit instant, levels, colour) {d1[k:k + 1]}, again {d2[k:k + 1]}',
                            'signature': 'tb-second-execution-differs', 'case': c, 'trace': u2.obs[:300]})
                break
    cov = {'evaluations': len(cases), 'distinct_nontrivial': nontriv, 'cases_executed_a_second_time': again,
           'rule': 'in 45% of the cases next to 1-2 peer shapers with their own traffic in the same Environment; seeded random shaper configurations (TokenBucket with/without peak, TwoRateTokenBucket with PIR+PBS / CIR only; dyadic and arbitrary-float '
                   'rates, bucket sizes incl. 0 and smaller than the packets) x arrival workloads (1-3 sources, bursts, idle gaps up to 1e5 s); non-trivial = '
                   'distinct case in which at least one packet waited for tokens and at least one was released without waiting',
           'samples': samples, 'traces_validated_against_impl': len(cases) - len({d['case']['cid'] for d in dis}),
           'action_lines_replayed': sum(len(ur.acts) for c in cases for _, _, ur in units(c, runs[c['cid']])), 'operation_histogram': dict(sorted(hist.items()))}
    cov.update({'translated': _PREP.get('translated', []), 'generated_files_rewritten': _PREP.get('rewritten', []),
                'generated_diff_vs_pinned': _PREP.get('diff_vs_pinned', []), 'bridge_theorems': BRIDGES, 'hand_modelled': HAND_MODELLED})
    cov['long_backlog_probes'] = []
    for c in backlog:
        fl, st = run_backlog(c)
        cov['long_backlog_probes'].append(dict(st, shaper=c['shaper'], shape=c['shape']))
        for f in fl:
            f['case'] = c; f['trace'] = []
            orc.append(f)
    rchist, rcnontriv = collections.Counter(), 0
    for c in rccases:
        fs, st, rel = oracle_reconf(c)
        rchist.update(st)
        rchist['shaper:' + c['shaper']] += 1
        cur = {a: c[RC_INIT[a]] for a in RC_ATTRS[c['shaper']]}
        for _, attr, val in c.get('reconf') or []:
            old_v = cur[attr]
            how = 'set' if not old_v and val else 'cleared' if old_v and not val else 'same' if val == old_v else 'raised' if (val or 0) > (old_v or 0) else 'lowered'
            rchist[f'assigned:{attr}:{how}'] += 1
            cur[attr] = val
        # non-trivial: a packet reached the head after a reassignment and was judged by the exact recurrence with the new values
        if st['packets_at_the_head_after_a_reconfiguration'] and st['packets_judged_exactly']:
            rcnontriv += 1
        for f in fs:
            f['case'] = c
            if shrunk < 3 and not ctx.replay and '-reconf-' in f['signature']:
                shrunk += 1
                small = shrink_reconf(c, f['signature'])
                f2 = next((g for g in oracle_reconf(small)[0] if g['signature'] == f['signature']), None)
                if f2:
                    f = dict(f2, case=small, shrunk_from=c['cid'])
            r2 = rel if f['case'] is c else oracle_reconf(f['case'])[2]
            f['trace'] = [{'released': t, 'id': p.packet_id, 'size': p.size, 'debit': ut, 'levels': lv, 'colour': col} for t, p, ut, lv, col in r2[:80]]
            orc.append(f)
    cov['reconfigured_oracle_only'] = {
        'evaluations': len(rccases), 'distinct_nontrivial': rcnontriv,
        'what': 'a running TokenBucket whose public `rate`, `bucket_size` (raised and lowered), `peak` - a TwoRateTokenBucket whose `cir`, `cbs` and, if built with '
                'a PIR, `pir`, `pbs` - are reassigned between packets by an operator process (1-4 times, inside gaps of the arrival pattern or anywhere in the run); '
                'FIFO / nothing lost, level within the bucket size in force, exact refill-cap-wait-colour recurrence with the values in force at the head-of-line '
                'instant, peak spacing, and the envelopes over the windows of debit instants between reassignments; non-trivial = packets reached the head after a '
                'reassignment and were judged exactly', 'histogram': dict(sorted(rchist.items())), 'sample': rccases[0] if rccases else None}
    res = {'coverage': cov, 'disagreements': dis, 'oracle_failures': orc}
    run_tbk(ctx, res)                        # tbk leg: appends its coverage, disagreements and oracle failures in place
    run_trk(ctx, res)                        # trk leg: likewise
    return res
