"""Long-run probes for C01 (oracle-only cases: plain Python on the real Environment, not replayed by the Lean model).

The script cases of C01 are short (tens of occurrences).  C01 quantifies over all programs, also those that have
already scheduled millions of occurrences when a coincidence happens.  A probe lets a ticker process schedule more
than 2**20 occurrences and then arranges, at a few instants, coincidences between OLD ordinary occurrences (timeouts
created at the very beginning of the run), RECENT ordinary ones, and urgent ones (process starts, interrupts, the numeric
run-until stop) triggered at those instants.  Every registered occurrence is observed by the program itself (the waiting
process resumes / a callback runs / the child's first statement / the victim's handler / run() returns), and the observed
sequence is judged by a direct restatement of C01:

* an occurrence due at t = t0 + d is observed at exactly now == t (and simulated time never decreases);
* if occurrence i is observed before occurrence j then key(i) < key(j), key = (due instant, urgent before ordinary,
  trigger order), or j was only triggered after i had taken effect;
* everything due up to the end of the run has been observed.

All choices derive from random.Random(tag); a failing probe is replayed from its tag and size.
"""
import random
from onl.sim import Environment, Interrupt

URGENT_CLS, ORDINARY_CLS = 0, 1


class Probe:
    sig = 'c01-long'

    def __init__(self, tag, ticks, env=None):
        self.tag, self.ticks = tag, ticks
        self.rng = random.Random(tag)
        self.env = Environment() if env is None else env
        self.context = None      # where in the run the judged coincidences lie (default: after more than `ticks` occurrences)
        self.occ = []        # registered occurrences: dict(what, cls, due, trig_obs)
        self.obs = []        # (occurrence index, env.now) in the order the program observed them
        self.fails = []

    # ---- registering and observing ----------------------------------------------------------------
    def reg(self, what, cls, due):
        self.occ.append({'what': what, 'cls': cls, 'due': due, 'trig_obs': len(self.obs), 'at': self.env.now})
        return len(self.occ) - 1

    def seen(self, i):
        self.obs.append((i, self.env.now))

    def timeout(self, d, what):
        """an ordinary timeout with an observing callback; returns (event, occurrence index)"""
        i = self.reg(f'{what}: timeout({d!r}) created at {self.env.now!r}', ORDINARY_CLS, self.env.now + d)
        ev = self.env.timeout(d)
        ev.callbacks.append(lambda e, i=i: self.seen(i))
        return ev, i

    # ---- processes ----------------------------------------------------------------------------------
    def ticker(self, dt):
        env = self.env
        for _ in range(self.ticks):
            yield env.timeout(dt)

    def child(self, i):
        self.seen(i)                 # first statement of the started process
        yield self.env.timeout(0)

    def victim(self, name):
        never = self.env.event()
        while True:
            try:
                yield never
            except Interrupt as x:
                self.seen(x.cause)       # the cause carries the occurrence index

    def start_child(self, who):
        i = self.reg(f'start of a process created by {who} at {self.env.now!r}', URGENT_CLS, self.env.now)
        self.env.process(self.child(i))

    def do_actions(self, who, actions):
        env = self.env
        for a in actions:
            if a == 'spawn':
                self.start_child(who)
            elif a == 'interrupt':
                v = self.rng.randrange(len(self.victims))
                i = self.reg(f'interrupt of victim {v} issued by {who} at {env.now!r}', URGENT_CLS, env.now)
                self.victims[v].interrupt(i)
            elif a == 'timeout0':
                self.timeout(0, f'{who}, recent')
            elif a == 'succeed':
                i = self.reg(f'event succeeded by {who} at {env.now!r}', ORDINARY_CLS, env.now)
                ev = env.event()
                ev.callbacks.append(lambda e, i=i: self.seen(i))
                ev.succeed()

    def actor(self, name, t, actions):
        """sleeps until t on a timeout created at its start (an OLD ordinary occurrence by then), then acts"""
        env = self.env
        i = self.reg(f'{name}: timeout({t - env.now!r}) created at {env.now!r}', ORDINARY_CLS, env.now + (t - env.now))
        yield env.timeout(t - env.now)
        self.seen(i)
        self.do_actions(name, actions)

    def late(self, t_late, instants, dt):
        """wakes shortly before the coincidence instants and creates RECENT occurrences due at them, and timeouts with
        arbitrary float delays (exact due time)"""
        env, rng = self.env, self.rng
        yield env.timeout(t_late)
        for t in instants:
            for _ in range(rng.randint(0, 2)):
                self.timeout(t - env.now, 'late process, due at a coincidence instant')
        for _ in range(rng.randint(2, 6)):
            self.timeout(rng.choice([0.1, 0.3, 0.7, round(rng.random() * 3 * dt, rng.choice([1, 2, 17])), rng.random()]), 'late process')
        if rng.random() < 0.5:
            self.do_actions('late process', rng.choices(['spawn', 'interrupt', 'timeout0'], k=rng.randint(1, 3)))

    # ---- the run ------------------------------------------------------------------------------------
    def run(self):
        env, rng = self.env, self.rng
        dt = rng.choice([1, 1, 0.5, 0.25, 2])
        n = self.ticks
        offs = sorted(rng.sample(range(2, 30), rng.randint(2, 4)))
        instants = [(n + o) * dt for o in offs]                  # all beyond the ticker's n occurrences... the ticker goes on below
        self.ticks = n + 40
        self.victims = [env.process(self.victim(v)) for v in range(rng.randint(1, 3))]
        makers = []
        for t in instants:
            for k in range(rng.randint(2, 5)):
                r = rng.random()
                if r < 0.35:
                    makers.append(('bystander', t, []))
                elif r < 0.5:
                    makers.append(('plain', t, None))
                else:
                    makers.append(('actor', t, rng.choices(['spawn', 'interrupt', 'timeout0', 'succeed', 'spawn', 'interrupt'], k=rng.randint(1, 3))))
        rng.shuffle(makers)
        for j, (kind, t, actions) in enumerate(makers):
            if kind == 'plain':
                self.timeout(t, 'set-up code')
            else:
                env.process(self.actor(f'{kind} {j}', t, actions))
        env.process(self.late((n - rng.randint(1, 5)) * dt, instants, dt))
        env.process(self.ticker(dt))
        # numeric run-until stops: one early (its sentinel is old when it is due), then at / between the coincidence instants
        stops = [(n - 8) * dt]
        for t in instants:
            x = rng.random()
            if x < 0.6:
                stops.append(t)
            elif x < 0.8:
                stops.append(t - dt / 2)
        stops.append((n + 35) * dt)
        for t in stops:
            i = self.reg(f'run(until={t!r}) called at {env.now!r}', URGENT_CLS, t)
            try:
                env.run(until=t)
            except BaseException as x:
                self.fails.append({'what': f'run(until={t!r}) called at {env.now!r} raised {x!r} after {self.ticks} ticks', 'signature': 'c01-long-raised'})
                return self.judge()
            self.seen(i)
        return self.judge()

    def judge(self):
        occ, obs, env = self.occ, self.obs, self.env
        ctx = self.context or f'after more than {self.ticks} scheduled occurrences'
        pos = {}
        last = None
        for k, (i, now) in enumerate(obs):
            if i in pos:
                self.fails.append({'what': f'{occ[i]["what"]} took effect twice', 'signature': f'{self.sig}-twice'}); break
            pos[i] = k
            if now != occ[i]['due']:
                self.fails.append({'what': f'{occ[i]["what"]}: due at {occ[i]["due"]!r}, took effect at {now!r} '
                                           f'({ctx})', 'signature': f'{self.sig}-due'}); break
            if last is not None and now < last:
                self.fails.append({'what': f'simulated time decreased from {last!r} to {now!r}', 'signature': 'time-decreased'}); break
            last = now
        key = lambda i: (occ[i]['due'], occ[i]['cls'], i)
        cls = {URGENT_CLS: 'urgent', ORDINARY_CLS: 'ordinary'}
        done = False
        for a in range(len(obs)):
            i = obs[a][0]
            for b in range(a + 1, len(obs)):
                j = obs[b][0]
                if not (key(i) < key(j) or occ[j]['trig_obs'] > a):
                    self.fails.append({'what': f'{ctx}, at {obs[a][1]!r}: [{occ[i]["what"]}] ({cls[occ[i]["cls"]]}, '
                                               f'trigger #{i}) took effect before [{occ[j]["what"]}] ({cls[occ[j]["cls"]]}, trigger #{j}, due at '
                                               f'{occ[j]["due"]!r}), which was already pending and comes first (time, then urgent before ordinary, '
                                               f'then trigger order)', 'signature': f'{self.sig}-order'})
                    done = True; break
            if done:
                break
        if not self.fails:
            for i, o in enumerate(occ):
                if i not in pos and o['due'] < env.now:
                    self.fails.append({'what': f'{o["what"]} (due at {o["due"]!r}) never took effect; now is {env.now!r}', 'signature': f'{self.sig}-lost'}); break
        return self.fails[:3]


class IntClockProbe(Probe):
    """C01 quantifies over "timeouts with integer, float and zero delays": a program may keep an INTEGER clock (nanosecond
    ticks, epoch nanoseconds given as `initial_time`).  Python integers are exact at any magnitude, so "t = t0 + d exactly" and
    "the numeric run-until stop takes effect at t" must hold beyond 2**53 too, where neighbouring integers are no longer
    distinct doubles.  The probe starts the clock at 2**53 + k, uses integer delays and integer `until`s only, arranges
    coincidences of ordinary and urgent occurrences at a few instants and stops the run at, and next to, those instants; the
    observed sequence is judged by the same restatement of C01 as the long-run probe (exact due instant, compared as Python
    ints; time, then urgent before ordinary, then trigger order; nothing lost), and `now == t` after every `run(until=t)`."""
    sig = 'c01-intclock'

    def __init__(self, tag):
        rng = random.Random(tag + '-t0')
        self.t0 = 2 ** 53 + rng.choice([0, 1, 2, 3, 5, 8, 2 ** 53 + 1, 10 ** 17 + 7, 3 * 2 ** 60 + 1, rng.randrange(2 ** 54)])
        super().__init__(tag, 0, Environment(initial_time=self.t0))
        self.context = f'on an integer clock started at {self.t0} (beyond 2**53)'

    def int_ticker(self, n):
        env = self.env
        for _ in range(n):
            i = self.reg(f'ticker: timeout(1) created at {env.now!r}', ORDINARY_CLS, env.now + 1)
            yield env.timeout(1)
            self.seen(i)

    def run(self):
        env, rng, t0 = self.env, self.rng, self.t0
        offs = sorted(rng.sample(range(1, 16), rng.randint(2, 4)))
        instants = [t0 + o for o in offs]
        self.victims = [env.process(self.victim(v)) for v in range(rng.randint(1, 2))]
        makers = []
        for t in instants:
            for k in range(rng.randint(1, 4)):
                r = rng.random()
                if r < 0.3:
                    makers.append(('bystander', t, []))
                elif r < 0.5:
                    makers.append(('plain', t, None))
                else:
                    makers.append(('actor', t, rng.choices(['spawn', 'interrupt', 'timeout0', 'succeed'], k=rng.randint(1, 3))))
        rng.shuffle(makers)
        for j, (kind, t, actions) in enumerate(makers):
            if kind == 'plain':
                self.timeout(t - env.now, 'set-up code')
            else:
                env.process(self.actor(f'{kind} {j}', t, actions))
        if rng.random() < 0.8:
            env.process(self.int_ticker(offs[-1] + 3))
        stops = []
        for t in instants:
            x = rng.random()
            if x < 0.55:
                stops.append(t)
            elif x < 0.75:
                stops.append(t - 1)
            elif x < 0.85:
                stops.append(t + 1)
        stops = sorted(set(s for s in stops if s > t0)) + [t0 + offs[-1] + 5]
        for t in stops:
            i = self.reg(f'run(until={t!r}) called at {env.now!r}', URGENT_CLS, t)
            try:
                env.run(until=t)
            except BaseException as x:
                self.fails.append({'what': f'run(until={t!r}) called at {env.now!r} {self.context} raised {x!r}', 'signature': f'{self.sig}-raised'})
                return self.judge()
            self.seen(i)
            if env.now != t:
                self.fails.append({'what': f'run(until={t!r}) {self.context} returned with now == {env.now!r} (off by {int(env.now) - t})',
                                   'signature': f'{self.sig}-until-now'})
                return self.judge()
        return self.judge()


def run_intclock(case):
    p = IntClockProbe(case['tag'])
    fails = p.run()[:3]
    for f in fails:
        f['case'] = case
        f['trace'] = [f'{p.occ[i]["what"]} -> took effect at {now!r}' for i, now in p.obs[-60:]]
    return fails, {'t0': p.t0, 'occurrences_registered': len(p.occ), 'observed': len(p.obs),
                   'urgent': sum(1 for o in p.occ if o['cls'] == URGENT_CLS)}


def intclock_probes(ctx, prop='C01'):
    """the integer-clock probes of one check run: (failures, coverage)"""
    fails, cov = [], []
    for k in range(8 if ctx.quick else 200):
        f, c = run_intclock({'probe': 'int-clock', 'tag': f'{prop}-intclock-{ctx.seed}-{k}'})
        fails += f
        cov.append(c)
    return fails, {'probes': len(cov), 'occurrences_registered': sum(c['occurrences_registered'] for c in cov),
                   'observed': sum(c['observed'] for c in cov), 'urgent': sum(c['urgent'] for c in cov),
                   'clock_starts': sorted({c['t0'] for c in cov})[:12]}


def probe_case(tag, ticks):
    return {'probe': 'long-run', 'tag': tag, 'ticks': ticks}


def run_probe(case):
    p = Probe(case['tag'], case['ticks'])
    fails = p.run()
    for f in fails:
        f['case'] = case
        f['trace'] = [f'{p.occ[i]["what"]} -> took effect at {now!r}' for i, now in p.obs[-60:]]
    return fails, {'occurrences_registered': len(p.occ), 'observed': len(p.obs),
                   'urgent': sum(1 for o in p.occ if o['cls'] == URGENT_CLS), 'ticks': p.ticks}


def probes(ctx, prop='C01'):
    """the probes of one check run: (failures, coverage)"""
    rng = random.Random(f'{prop}-long-{ctx.seed}')
    n = 1 if ctx.quick else 8
    fails, cov = [], []
    for k in range(n):
        base = 2 ** 20 if (ctx.quick or k % 3) else rng.choice([2 ** 21, 3 * 2 ** 20])
        case = probe_case(f'{prop}-long-{ctx.seed}-{k}', base + rng.randint(500, 30000))
        f, c = run_probe(case)
        fails += f
        cov.append(c)
    return fails, cov
