"""C18 - demuxes, switches, hubs, splitters and fat-tree FIBs deliver to the right place.

Three correspondence/oracle parts:
 (a) dispatch: real FlowDemux / FIBDemux / SimplePacketSwitch / FairPacketSwitch / Hub / Splitter / NSplitter objects with
     recording devices on every output, against the model's dispatch list (driver mode `route`);
 (b) fat tree: FatTree(k) node list, attributes and ordered adjacency lists, `generate_fib` tables for flows from the real
     `generate_flows`, and table walks, against the structural model; direct oracles (counts, degrees, BFS, walks);
 (c) end-to-end fat-tree simulations: every packet arrives at its own flow's sink and at no other.
"""
import collections, copy as _copy, json, random

from vlib.util import run_driver, split_cases, quiet

PROP = 'C18'

ASSUMPTIONS = [
    'flow ids are non-negative integers, fewer than 10000 flows (the ACK class of flow f is f + 10000)',
    'downstream devices are opaque: their put() does not raise and does not call back into the dispatching device '
    '(FIBDemux catches KeyError/IndexError/ValueError raised *inside* a downstream put as if its own lookup had failed)',
    'a forwarding-table entry naming a port outside the output list is sent to the default output (IndexError is handled); '
    'negative ports index from the end as Python lists do (outside the property: modelled, no oracle)',
    'Hub element ids are compared with ==; endpoints sharing an element id are all treated as the sender; ids are strings, ints (as fat-tree hosts have) or tuples, '
    'the endpoints are real Device subclasses and packet.src carries the id value the harness chose (the oracle decides who the sender is from that value, not from what the endpoint reports)',
    '"header fields" of a packet = its attributes time, size, packet_id, realtime, src, dst, flow_id, payload, color, ack, '
    'current_time (rebinding an attribute) and the tables perhop_time / priorities (in-place writes); a copy is taken after the '
    'original was handed to the first output, so it inherits the stamps made until then',
    'networkx keeps adjacency in insertion order and all_shortest_paths returns shortest paths (library); the harness checks '
    'each sampled path length against its own BFS',
    'end-to-end simulations use buffers large enough that no port drops a packet',
]

TRUSTED_EXTRA = [
    'py2lean/route.py (ast translator for FlowDemux.put, FIBDemux.put, Splitter.put into the effect language OnlVerif/Net/PyEff.lean); '
    'theorem generated_dispatch_agrees ties the generated definitions to the dispatch models for all inputs',
    'the models of Hub, NSplitter, the switch constructors, FatTree.__init__ and generate_fib are hand-written; their tie to the '
    'source is the differential replay of this harness',
]

_PREP = {}


def prepare(ctx):
    """regenerate lean/OnlVerif/Generated/Route.lean from the source under $ONL_REPO (translator failure = broken obligation)"""
    from py2lean import route
    _PREP.update(route.regenerate())

HDR_FIELDS = ['time', 'size', 'packet_id', 'realtime', 'src', 'dst', 'flow_id', 'payload', 'color', 'ack', 'current_time']
SERVERS = ['SP', 'VirtualClock', 'WFQ', 'DRR']


# ------------------------------------------------------------------------------------------------
# recording devices
# ------------------------------------------------------------------------------------------------

def _classes():
    from onl.device import Device

    class Rec(Device):
        """records every packet object handed to it"""

        def __init__(self, dev, log):
            self.dev, self.log = dev, log
            self.out = None

        def put(self, packet):
            self.log.append((self.dev, packet))

    class Ep(Rec):
        def __init__(self, eid, dev, log):
            Rec.__init__(self, dev, log)
            self.element_id = eid

    return Rec, Ep


def _falsy_classes():
    """Recording devices whose truth value is False: a collector that reports how many packets it *holds* through
    `__len__` (it keeps none), or one that defines `__bool__`.  Perfectly legal devices; "the flow's registered end
    device if there is one", "output f", "every attached endpoint" speak of registration, not of truthiness."""
    Rec, Ep = _classes()

    class EmptyRec(Rec):
        def __len__(self):
            return 0

    class NoRec(Rec):
        def __bool__(self):
            return False

    class EmptyEp(Ep):
        def __len__(self):
            return 0

    class NoEp(Ep):
        def __bool__(self):
            return False

    return {'rec': [EmptyRec, NoRec], 'ep': [EmptyEp, NoEp]}


def pick_falsy(rng, c, candidates):
    """mark some of the device ids `candidates` of dispatch case `c` as falsy objects (`c['falsy']`).  Only positions where
    the property gives a rule AND the unchanged code makes no truth test are candidates: the end devices of a FIBDemux /
    FairPacketSwitch, the entries of an output list, hub endpoints.  Default outputs, hub port devices and splitter outputs are
    never made falsy: the code reads `if self.default_out:` / `if port:` / `if self.out1:` there, and the statement ("else to the
    default output, else nowhere") leaves open whether an output that is set but falsy counts as present - the oracle stands down."""
    cand = sorted(set(candidates))
    c['falsy'] = sorted(d for d in cand if rng.random() < 0.6) if (cand and rng.random() < 0.35) else []


DOWNSTREAM_EXC = {'IndexError': IndexError, 'KeyError': KeyError, 'ValueError': ValueError, 'RuntimeError': RuntimeError,
                  'TypeError': TypeError, 'AttributeError': AttributeError, 'LookupError': LookupError}


def _thrower_class():
    """A user-written device with a bug of its own (a resequencing buffer indexed past its window, a lookup in a table of its own, a
    pop from an empty list): it accepts the packet - the hand-over is recorded BEFORE anything else happens - and then fails with an
    exception on the n-th packet it is handed, once.  Armed by the harness when the packets of the case begin (not during a warm-up)."""
    Rec, _ = _classes()

    class Thrower(Rec):
        def __init__(self, dev, log, nth, exc, state):
            Rec.__init__(self, dev, log)
            self.nth, self.exc, self.state, self.count = nth, exc, state, 0

        def put(self, packet):
            self.log.append((self.dev, packet))
            if not self.state['armed']:
                return
            self.count += 1
            if self.count == self.nth:
                x = DOWNSTREAM_EXC[self.exc](f'device {self.dev} failed inside its own put() on the packet number {self.nth} it was handed')
                self.state['fired'].append((self.dev, packet, x))
                raise x

    return Thrower


def N(x):
    return 'N' if x is None else str(x)


def drain(env, horizon=float('inf'), max_steps=400000):
    """run the simulation through the public step()/peek() API, bounded (a routing loop must not hang the check)"""
    n = 0
    while env.peek() <= horizon and env.peek() != float('inf'):
        env.step()
        n += 1
        if n >= max_steps:
            raise RuntimeError(f'simulation still busy after {max_steps} kernel steps (routing loop?)')


# ------------------------------------------------------------------------------------------------
# (a) dispatch: generation
# ------------------------------------------------------------------------------------------------

def gen_flow(rng, known, hi, malformed):
    r = rng.random()
    if malformed and r < 0.06:
        return -rng.randint(1, 4)
    if known and r < 0.55:
        return rng.choice(known)
    if r < 0.75:
        return hi
    if r < 0.9:
        return rng.randint(0, hi + 3)
    return rng.choice([hi + 1, 9999, 10000 + rng.randint(0, 5)])


def gen_dispatch(rng, i):
    kind = rng.choices(['flowdemux', 'fibdemux', 'simple', 'fair', 'hub', 'splitter', 'nsplitter'],
                       weights=[4, 8, 2, 4, 6, 2, 3])[0]
    malformed = rng.random() < 0.15
    c = {'kind': kind, 'malformed': malformed}
    npk = rng.randint(1, 4)
    if kind == 'flowdemux':
        n = rng.choice([0, 1, 2, 3, 5, 8])
        pool = rng.randint(1, 9)
        c['outs'] = [100 + rng.randrange(pool) for _ in range(n)]
        c['default'] = rng.choice([None, 200, 100]) if rng.random() < 0.7 else None
        c['pkts'] = [[p, gen_flow(rng, list(range(n)), n, malformed), 0] for p in range(npk)]
        pick_falsy(rng, c, [d for d in c['outs'] if d != c['default']])
        if rng.random() < 0.4:
            # history: the same object first served packets with fewer outputs, then `outs` grew in place
            c['warm'] = {'nouts': rng.randint(0, n), 'flows': [x[1] for x in c['pkts']] + [rng.randint(0, n + 1)]}
    elif kind == 'fibdemux':
        r = rng.random()
        if r < 0.08:
            c['outs'] = None
        elif r < 0.15:
            c['outs'] = []
        else:
            c['outs'] = [100 + j for j in range(rng.randint(1, 6))]
        nouts = len(c['outs'] or [])
        flows = rng.sample(range(0, 12), rng.randint(0, 6))
        c['ends'] = [[f, 300 + j] for j, f in enumerate(rng.sample(range(0, 12), rng.randint(0, 3)))] if rng.random() < 0.6 else []
        r = rng.random()
        if r < 0.08:
            c['fib'] = None
        elif r < 0.22:
            c['fib'] = []
        else:
            fib = []
            for f in flows:
                q = rng.random()
                if q < 0.8 and nouts:
                    port = rng.randrange(nouts)
                elif q < 0.95:
                    port = nouts + rng.randint(0, 2)
                else:
                    port = -rng.randint(1, nouts + 1) if malformed else rng.randrange(max(nouts, 1))
                fib.append([f, port])
            c['fib'] = fib
        c['default'] = 200 if rng.random() < 0.5 else None
        known = [f for f, _ in c['ends']] + [f for f, _ in (c['fib'] or [])]
        c['pkts'] = [[p, gen_flow(rng, known, 12, malformed), 0] for p in range(npk)]
        pick_falsy(rng, c, [d for _, d in c['ends']] + [d for d in (c['outs'] or []) if d != c['default']])
        if c['fib'] is not None and rng.random() < 0.5:
            # history: the same object first served packets of the same flows under an earlier configuration (fewer routes,
            # fewer outputs, other end devices), then was reconfigured - through the `fib` setter or by updating the very
            # dict / list objects it was given.  A demux has no memory: the packets of the case must go where a fresh one sends them.
            c['warm'] = {'fib': [e for e in c['fib'] if rng.random() < 0.4],
                         'nouts': rng.randint(0, nouts), 'ends': [e for e in c['ends'] if rng.random() < 0.4],
                         'mode': rng.choice(['setter', 'inplace']),
                         'flows': [x[1] for x in c['pkts']] + [rng.randint(0, 12)]}
    elif kind == 'simple':
        n = rng.randint(0, 6)
        c['nports'] = n
        c['pkts'] = [[p, gen_flow(rng, list(range(n)), n, False), 0] for p in range(npk)]
        c['peer'] = rng.random() < 0.5          # a second switch of the same class is built and wired in the same Environment
    elif kind == 'fair':
        n = rng.randint(0, 5)
        c['nports'] = n
        c['server'] = rng.choice(SERVERS) if rng.random() < 0.92 else rng.choice(['FIFO', 'wfq', 'RR'])
        flows = rng.sample(range(0, 10), rng.randint(0, 6))
        r = rng.random()
        if r < 0.1:
            c['fib'] = None
        elif r < 0.22:
            c['fib'] = []
        else:
            c['fib'] = [[f, rng.randrange(n) if (n and rng.random() < 0.85) else n + rng.randint(0, 2)] for f in flows]
        c['ends'] = [[f, 300 + j] for j, f in enumerate(rng.sample(range(0, 10), rng.randint(0, 2)))] if rng.random() < 0.5 else []
        known = [f for f, _ in c['ends']] + [f for f, _ in (c['fib'] or [])]
        c['pkts'] = [[p, gen_flow(rng, known, 10, False), 0] for p in range(npk)]
        pick_falsy(rng, c, [d for _, d in c['ends']])
        c['peer'] = rng.random() < 0.5
    elif kind == 'hub':
        n = rng.choice([0, 1, 2, 3, 4, 6])
        idpool = n + 2 if rng.random() < 0.6 else max(1, n // 2)      # small pool: endpoints share element ids
        eids = [rng.randrange(idpool) for _ in range(n)] if rng.random() < 0.5 else rng.sample(range(idpool + n), n)
        c['eps'] = [[eids[j], 10 + j] for j in range(n)]
        r = rng.random()
        if r < 0.35:
            c['ports'] = []
            c['ports_arg'] = rng.random() < 0.3          # Hub(env, eps, []) rather than Hub(env, eps)
        elif r < 0.43:
            m = rng.choice([x for x in (n - 1, n + 1, 1) if x > 0 and x != n] or [n + 1])
            c['ports'] = [rng.choice([None, 50 + j]) for j in range(m)]
            c['ports_arg'] = True
        else:
            c['ports'] = [rng.choice([None, 50 + j]) if rng.random() < 0.8 else 50 + j for j in range(n)]
            c['ports_arg'] = True
        c['adds'] = [[rng.randrange(idpool + 2), 30 + j, rng.choice([None, 70 + j])] for j in range(rng.choice([0, 0, 1, 2]))]
        alle = [e for e, _ in c['eps']] + [a[0] for a in c['adds']]
        c['pkts'] = [[p, 0, rng.choice(alle) if (alle and rng.random() < 0.8) else 99] for p in range(npk)]
        pick_falsy(rng, c, [d for _, d in c['eps']] + [a[1] for a in c['adds']])
        # element ids need not be strings: FatTree hosts are ints, topology files give tuples
        c['idtype'] = rng.choice(['str', 'str', 'int', 'int', 'tuple'])
    elif kind == 'splitter':
        c['out1'] = rng.choice([None, 1, 1, 1])
        c['out2'] = rng.choice([None, 2, 2, 1])
        c['pkts'] = [[p, rng.randint(0, 5), 0] for p in range(npk)]
    else:
        n = rng.choice([-1, 0, 1]) if rng.random() < 0.1 else rng.randint(2, 6)
        c['ns'] = n
        c['sets'] = sorted([j, 1 + j if rng.random() < 0.9 else 1] for j in range(max(n, 0)) if rng.random() < 0.7)
        c['pkts'] = [[p, rng.randint(0, 5), 0] for p in range(npk)]
    return c


ASSUMPTIONS.append('downstream devices that raise (oracle-only cases, not replayed by the model, which has no failing device): in a separate batch of '
                   'FlowDemux / FIBDemux / FairPacketSwitch cases one or two of the devices the rule leads to record the hand-over and then raise '
                   'IndexError / KeyError / ValueError / RuntimeError / TypeError / AttributeError / LookupError on their n-th packet, once.  Demanded: every '
                   'packet is handed to exactly the output the rule names, before, on and after the failing packet; whether the exception reaches the caller '
                   'is not stated by the property and only recorded.  NOT generated (a finding on the unchanged code, reported): a FIBDemux output reached '
                   'through the forwarding table that raises KeyError / IndexError / ValueError while a default output is set - the unchanged FIBDemux '
                   'catches these three around the downstream put() as well and hands the packet to the default output too')


def rule_devices(c, flow):
    """the devices the property's rule names for a packet of `flow` in demux / switch case `c` (None where the statement is silent)"""
    k = c['kind']
    if k == 'flowdemux':
        if flow < 0:
            return None
        return [c['outs'][flow]] if flow < len(c['outs']) else ([c['default']] if c['default'] is not None else [])
    if k == 'fibdemux':
        return demux_expect(c, flow, c['outs'], c['default'])
    if k == 'fair':
        return demux_expect(c, flow, list(range(c['nports'])), None)
    return None


def gen_raise_case(rng, i):
    """A dispatch case (FlowDemux, FIBDemux, FairPacketSwitch - the devices that hand a packet over synchronously to a device of the user) in
    which one or two of the devices that the rule leads packets to FAIL inside their own put(): on the n-th packet they are handed they
    record the hand-over and raise (`c['raisers']` = [[device, n, exception name], ...]).  More packets than an ordinary case, so that
    packets before, on and after the failing one are judged.  (SimplePacketSwitch hands over to its own Ports only, which call the
    user's device later from their process: nothing downstream runs inside its put(); its routing is that of a FlowDemux with no default
    output, which is generated here.)  Oracle-only: the model of the route driver has no failing devices."""
    while True:
        c = gen_dispatch(rng, i)
        k = c['kind']
        if k not in ('flowdemux', 'fibdemux', 'fair'):
            continue
        if k == 'fair' and c['server'] not in SERVERS:
            continue
        if k == 'flowdemux':
            known = list(range(len(c['outs']))) + [len(c['outs'])]
        else:
            known = [f for f, _ in c['ends']] + [f for f, _ in (c['fib'] or [])]
        if k == 'flowdemux' and rng.random() < 0.3:
            c['default'] = rng.choice([200, 200, 100])        # FlowDemux with a default output: the "else" of its rule
            c['falsy'] = [d for d in c.get('falsy') or [] if d != c['default']]      # (a default output is never a falsy object, see pick_falsy)
        n0 = len(c['pkts'])
        for p in range(n0, n0 + rng.randint(1, 6)):
            c['pkts'].append([p, rng.choice(known) if (known and rng.random() < 0.85) else gen_flow(rng, known, 12, False), 0])
        reach = collections.Counter()
        for _, f, _ in c['pkts']:
            for d in rule_devices(c, f) or []:
                if k != 'fair' or d >= 300:          # behind a switch only the end devices are called from inside put()
                    reach[d] += 1
        if not reach:
            continue
        raisers = []
        for d in rng.sample(sorted(reach), min(len(reach), rng.choice([1, 1, 1, 2]))):
            nth = rng.randint(1, reach[d]) if rng.random() < 0.9 else reach[d] + 1
            exc = rng.choice(['IndexError', 'IndexError', 'IndexError', 'KeyError', 'KeyError', 'ValueError', 'ValueError',
                              'RuntimeError', 'TypeError', 'AttributeError', 'LookupError'])
            if k == 'fibdemux' and c['default'] is not None and d in (c['outs'] or []) and exc in ('KeyError', 'IndexError', 'ValueError'):
                # NOT generated - a finding on the UNCHANGED code, reported instead of silenced: FIBDemux.put wraps `self.outs[self._fib[f]].put(packet)`
                # in `except (KeyError, IndexError, ValueError)`, so one of these three raised INSIDE the put() of the output the table names is
                # taken for a failed lookup and the packet is handed to the default output as well (two outputs for one packet, error swallowed;
                # e.g. FIBDemux(outs=[A], fib={0: 0}, default_out=D), A.put raising KeyError: a packet of flow 0 reaches A and D).  Just this
                # combination is avoided; with no default output (error swallowed, one hand-over) and with every other exception it is generated.
                exc = rng.choice(['RuntimeError', 'TypeError', 'AttributeError', 'LookupError'])
            raisers.append([d, nth, exc])
        c['raisers'] = sorted(raisers)
        c['falsy'] = [d for d in c.get('falsy') or [] if d not in reach]
        c['oracle_only'] = 'downstream devices that raise'
        return c


def pairs(l):
    return ' '.join(f'{a}:{b}' for a, b in l)


def case_text(c, cid):
    L = [f'CASE {cid} {c["kind"]}']
    k = c['kind']
    if k in ('flowdemux', 'fibdemux'):
        L.append('OUTS N' if c['outs'] is None else ('OUTS ' + ' '.join(map(str, c['outs']))).rstrip())
        L.append('DEFAULT ' + N(c['default']))
    if k in ('fibdemux', 'fair'):
        L.append(('ENDS ' + pairs(c['ends'])).rstrip())
        L.append('FIB N' if c['fib'] is None else ('FIB ' + pairs(c['fib'])).rstrip())
    if k in ('simple', 'fair'):
        L.append(f'NPORTS {c["nports"]}')
    if k == 'fair':
        L.append(f'SERVER {c["server"]}')
    if k == 'hub':
        L.append(('EPS ' + pairs(c['eps'])).rstrip())
        L.append(('PORTS ' + ' '.join(N(p) for p in c['ports'])).rstrip())
        for e, d, p in c['adds']:
            L.append(f'ADD {e} {d} {N(p)}')
    if k == 'splitter':
        L += [f'OUT1 {N(c["out1"])}', f'OUT2 {N(c["out2"])}']
    if k == 'nsplitter':
        L.append(f'NS {c["ns"]}')
        for j, d in c['sets']:
            L.append(f'SET {j} {d}')
    if k in ('fattree', 'sim'):
        L[0] = f'CASE {cid} fattree'
        L += [f'K {c["k"]}', f'TCP {int(c["tcp"])}', f'DUMP {int(c["dump"])}']
        if k == 'sim':
            L.append(f'NET {c["k"]}')
        for fid, path in c['flows']:
            L.append(f'FLOW {fid} ' + ' '.join(map(str, path)))
    else:
        for pid, flow, src in c['pkts']:
            L.append(f'PKT {pid} {flow} {src}')
    L.append('END')
    return '\n'.join(L)


# ------------------------------------------------------------------------------------------------
# (a) dispatch: the real objects + the direct oracle
# ------------------------------------------------------------------------------------------------

class Failures(list):
    def add(self, what, signature, case, trace):
        if isinstance(case, dict) and case.get('rival') and case.get('kind') in ('fattree', 'sim'):
            what += (f' [a second FatTree({case["k"]}) object of the same process generated its own flows (seed {case["rival"]["rseed"]}) and forwarding '
                     f'tables after this tree\'s generate_fib and before its tables were read]')
        if isinstance(case, dict) and case.get('rekey') and case.get('kind') == 'fattree':
            rk = case['rekey']
            what += (f' [the flow dict given to generate_fib holds two generate_flows batches renumbered from {rk["bases"]} under keys that are not '
                     f'the flows\' ids ({rk["keys"]}); a flow\'s id is flow.fid]')
        self.append({'what': what, 'signature': signature, 'case': case, 'trace': trace})


def fmt_deliveries(pkt, entries):
    """`D dev id.copy` lines: copy 0 is the object that was put, other objects are numbered in order of first appearance"""
    seen = []
    out = []
    for dev, obj in entries:
        if obj is pkt:
            n = 0
        else:
            for j, o in enumerate(seen):
                if o is obj:
                    n = j + 1
                    break
            else:
                seen.append(obj)
                n = len(seen)
        out.append(f'D {dev} {pkt.packet_id}.{n}')
    return out


def demux_expect(c, flow, outs, default):
    """the property's rule for FIBDemux, or None where the statement is silent"""
    ends = dict((f, d) for f, d in c.get('ends', []))
    if c['fib'] is None or flow < 0:
        return None
    if flow in ends:
        return [ends[flow]]
    if not outs:                                   # no output devices: every flow without an end device is an unknown flow
        return [default] if default is not None else []
    fib = dict((f, p) for f, p in c['fib'])
    if flow in fib:
        if 0 <= fib[flow] < len(outs):
            return [outs[fib[flow]]]
        return None
    return [default] if default is not None else []


def ident(idtype, e):
    """the element id of hub endpoint number `e` (and the `src` of the packets it sends): a string, an int or a tuple"""
    return e if idtype == 'int' else ('host', e) if idtype == 'tuple' else f'ep{e}'


def mk_packet(pid, flow, src, idtype='str'):
    from onl.packet import Packet
    p = Packet(0.0, 100, pid, src=ident(idtype, src), dst='dst0', flow_id=flow, payload=('pl', pid))
    p.perhop_time['pre'] = 0.5          # a stamp and a priority entry made before the packet reaches the device under test
    p.priorities['pre'] = 3
    return p


TABLES = ['perhop_time', 'priorities']


def heap_lines(objs):
    """`C j c`: the j-th delivered object carries the tables' earlier entries; `I i j f t q`: is rebinding a field of / an in-place
    write into perhop_time / priorities of the i-th delivered object visible through the j-th (0 = no)"""
    out = []
    for j, o in enumerate(objs):
        out.append(f'C {j} {int(o.perhop_time.get("pre") == 0.5 and o.priorities.get("pre") == 3)}')
    for i, oi in enumerate(objs):
        for j, oj in enumerate(objs):
            if i == j:
                continue
            old, keep = oj.size, oi.size
            oi.size = ('mut',)
            f = int(oj.size != old)
            oi.size = keep
            vis = []
            for tab in TABLES:
                getattr(oi, tab)['zz'] = 1
                vis.append(int('zz' in getattr(oj, tab)))
                del getattr(oi, tab)['zz']
            out.append(f'I {i} {j} {f} {vis[0]} {vis[1]}')
    return out


def port_stamp_check(c, k, outs, fails):
    """real Ports behind every set output of a fresh splitter: a port stamping the object it is given must not stamp the others"""
    from onl.netdev import Splitter, NSplitter, Port
    from onl.sim import Environment
    Rec, _ = _classes()
    env = Environment()
    log = []
    if k == 'splitter':
        sp = Splitter()
    else:
        sp = NSplitter(len(outs))
    for j, d in enumerate(outs):
        if d is None:
            continue
        pt = Port(env, 0, None, False, f'pt{j}')
        pt.out = Rec(j, log)
        if k == 'splitter':
            setattr(sp, 'out1' if j == 0 else 'out2', pt)
        else:
            sp.outs[j] = pt
    pk = mk_packet(99, 0, 0)
    sp.put(pk)
    drain(env)
    for j, obj in log:
        stamps = set(x for x in obj.perhop_time if str(x).startswith('pt'))
        allowed = {f'pt{j}'} | ({'pt0'} if outs[0] is not None else set())
        if f'pt{j}' not in stamps or not stamps <= allowed:
            fails.add(f'{k} with a Port behind every output: the object that left output {j} carries the per-hop stamps {sorted(stamps)} '
                      f'(allowed: {sorted(allowed)}) - a port stamping one object stamped another', 'splitter-port-stamp', c,
                      [f'{jj}: {sorted(map(str, o.perhop_time))}' for jj, o in log])
            break


def run_dispatch(c, fails, hist):
    from onl.netdev.demux import FlowDemux, FIBDemux
    from onl.netdev import Hub, Splitter, NSplitter, SimplePacketSwitch, FairPacketSwitch
    from onl.sim import Environment
    Rec, Ep = _classes()
    k = c['kind']
    log = []
    devs = {}
    falsy = set(c.get('falsy') or [])
    if falsy:
        fc = _falsy_classes()
        hist[k + ':with-falsy-devices'] += 1

    # downstream devices whose put() raises (oracle-only cases, see gen_raise_case): [[device id, n, exception name], ...]
    throwers = {d: (nth, exc) for d, nth, exc in (c.get('raisers') or [])}
    tstate = {'armed': False, 'fired': []}
    Thrower = _thrower_class() if throwers else None

    def dev(d):
        if d is None:
            return None
        if d not in devs:
            if d in throwers:
                devs[d] = Thrower(d, log, throwers[d][0], throwers[d][1], tstate)
            else:
                devs[d] = (fc['rec'][d % 2] if d in falsy else Rec)(d, log)
        return devs[d]

    def downstream(p, exc):
        """-> (the exception the rule oracle has to judge, a note for the report).  The property's rule says where a packet is handed; it
        does not say what the dispatching device does with an exception raised INSIDE the put() of the device the rule names: whether it
        reaches the caller is left open (recorded as a histogram), so an exception is no failure of the rule when a downstream device
        really failed on this very packet.  What stays demanded is the rule itself: handed to exactly the output it names - a
        downstream failure is no reason to hand the packet to a second output as well (the hand-overs were logged before the raise)."""
        mine = [(d, x) for d, q, x in tstate['fired'] if q is p]
        if not mine:
            return exc, ''
        for d, x in mine:
            hist[f'downstream-raise:{k}:{type(x).__name__}:' + ('reached-the-caller' if exc else 'swallowed')] += 1
        who = ' and '.join(f'device {d} raised {type(x).__name__}' for d, x in mine)
        return None, f' [{who} inside its own put() on this packet, after it had accepted it; the caller {"saw " + exc if exc else "saw no exception"}]'

    fnote = f' [devices {sorted(falsy)} are objects whose truth value is False: registered / attached is not the same as truthy]' if falsy else ''

    idtype = c.get('idtype', 'str')

    def mk_ep(e, d):
        ep = (fc['ep'][d % 2] if d in falsy else Ep)(ident(idtype, e), d, log)
        ep.hid = ident(idtype, e)          # the id as the harness chose it (what `ep.element_id` reports is the library's business)
        return ep

    lines = []
    pkts = [mk_packet(*p, idtype=idtype) for p in c['pkts']]

    def put_all(target, after=None):
        tstate['armed'] = True
        for p in pkts:
            lines.append(f'P {p.packet_id}')
            del log[:]
            exc = None
            try:
                with quiet():
                    target.put(p)
            except Exception as x:      # noqa
                exc = type(x).__name__
            entries = list(log)
            lines.extend(fmt_deliveries(p, entries))
            if exc:
                lines.append('X ' + exc)
                hist['raise:' + exc] += 1
            if after:
                after(p, entries, exc)

    if k == 'flowdemux':
        w = c.get('warm')
        if w:
            outs_obj = [dev(x) for x in c['outs'][:w['nouts']]]
            d = FlowDemux(outs_obj, dev(c['default']))
            for j, f in enumerate(w['flows']):
                try:
                    with quiet():
                        d.put(mk_packet(1000 + j, f, 0))
                except Exception:      # noqa
                    pass
            outs_obj.extend(dev(x) for x in c['outs'][w['nouts']:])
            hist['flowdemux:with-history'] += 1
        else:
            d = FlowDemux([dev(x) for x in c['outs']], dev(c['default']))

        def chk(p, entries, exc):
            f = p.flow_id
            if f < 0:
                return
            exp = [c['outs'][f]] if f < len(c['outs']) else ([c['default']] if c['default'] is not None else [])
            hist['flowdemux:' + ('out' if f < len(c['outs']) else 'default' if c['default'] is not None else 'nowhere')] += 1
            got = [dv for dv, _ in entries]
            exc, dnote = downstream(p, exc)
            if exc or got != exp or any(o is not p for _, o in entries):
                fails.add(f'FlowDemux: packet of flow {f} went to {got}{" raising " + exc if exc else ""}, the rule says {exp}' + fnote + dnote,
                          'flowdemux-rule' + (':downstream-raise' if dnote else ''), c, lines[-6:])
        put_all(d, chk)
    elif k == 'fibdemux':
        kw = {}
        outs = None if c['outs'] is None else [dev(x) for x in c['outs']]
        ends = dict((f, dev(x)) for f, x in c['ends'])
        fib = None if c['fib'] is None else dict((f, p) for f, p in c['fib'])
        w = c.get('warm')
        if w and fib is not None:
            outs0 = None if outs is None else outs[:w['nouts']]
            ends0 = dict((f, dev(x)) for f, x in w['ends'])
            fib0 = dict((f, p) for f, p in w['fib'])
            d = FIBDemux(outs=outs0, ends=ends0, fib=fib0, default_out=dev(c['default']))
            for j, f in enumerate(w['flows']):
                try:
                    with quiet():
                        d.put(mk_packet(1000 + j, f, 0))
                except Exception:      # noqa
                    pass
            if w['mode'] == 'setter':
                d.fib = fib
                d.outs = outs
                d.ends = ends
            else:
                fib0.clear(); fib0.update(fib)
                d.ends.clear(); d.ends.update(ends)      # (an empty `ends` argument is replaced by a dict of the demux's own)
                if outs0 is not None:
                    outs0[:] = outs
                else:
                    d.outs = outs
            hist['fibdemux:with-history:' + w['mode']] += 1
        else:
            d = FIBDemux(outs=outs, ends=ends, fib=fib, default_out=dev(c['default']))

        def chk(p, entries, exc):
            exp = demux_expect(c, p.flow_id, c['outs'], c['default'])
            got = [dv for dv, _ in entries]
            if exp is None:
                hist['fibdemux:outside-statement'] += 1
                return
            hist['fibdemux:' + ('end' if p.flow_id in dict(map(tuple, c['ends'])) else 'table' if p.flow_id in dict(map(tuple, c['fib']))
                                else 'default' if exp else 'nowhere') + (':emptytable' if c['fib'] == [] else '')] += 1
            exc, dnote = downstream(p, exc)
            if exc or got != exp or any(o is not p for _, o in entries):
                fails.add(f'FIBDemux(fib={fib}): packet of flow {p.flow_id} went to {got}{" raising " + exc if exc else ""}, the rule says {exp}' + fnote + dnote,
                          'fibdemux-rule' + (':empty-table' if c['fib'] == [] else '') + (':downstream-raise' if dnote else ''), c, lines[-6:])
        put_all(d, chk)
    elif k in ('simple', 'fair'):
        env = Environment()
        n = c['nports']
        allf = sorted(set([p[1] for p in c['pkts']] + [f for f, _ in (c.get('fib') or [])])) or [0]
        sw = None
        try:
            with quiet():
                if k == 'simple':
                    sw = SimplePacketSwitch(env, n, 1e6, 64, element_id='sw')
                else:
                    weights = {f: 1 + (f % 3) for f in allf}
                    sw = FairPacketSwitch(env, n, 1e6, 64, weights, c['server'], element_id='sw')
        except Exception as x:      # noqa
            lines.append('X ' + type(x).__name__)
            hist['raise:ctor:' + type(x).__name__] += 1
            return lines
        if len(sw.ports) != n:
            fails.add(f'{k} switch built with nports={n} has {len(sw.ports)} ports', 'switch-ports', c, lines[-3:])
        for j in range(min(n, len(sw.ports))):
            sw.ports[j].out = dev(j)
        if k == 'fair':
            if c['fib'] is not None:
                sw.demux.fib = dict((f, p) for f, p in c['fib'])
            for f, x in c['ends']:
                sw.demux.ends[f] = dev(x)
        if c.get('peer') and (k == 'simple' or c['server'] in SERVERS):
            # a second switch of the same class, built and wired AFTER the one under test in the same Environment (devices 800+j behind its
            # ports): "every packet reaching exactly one output" speaks of the outputs of the switch the packet was handed to
            with quiet():
                if k == 'simple':
                    peer = SimplePacketSwitch(env, max(n, 1), 1e6, 64, element_id='peer')
                else:
                    peer = FairPacketSwitch(env, max(n, 1), 1e6, 64, weights, c['server'], element_id='peer')
                    peer.demux.fib = {f: 0 for f in allf}
            for j, pt in enumerate(peer.ports):
                pt.out = dev(800 + j)
            hist[k + ':with-a-peer-switch'] += 1
        excs = {}
        tstate['armed'] = True
        for p in pkts:
            try:
                with quiet():
                    sw.put(p)
            except Exception as x:      # noqa
                excs[p.packet_id] = type(x).__name__
        with quiet():
            drain(env)
        for p in pkts:
            lines.append(f'P {p.packet_id}')
            entries = [(dv, o) for dv, o in log if o is p]
            lines.extend(fmt_deliveries(p, entries))
            exc = excs.get(p.packet_id)
            if exc:
                lines.append('X ' + exc)
                hist['raise:' + exc] += 1
            f = p.flow_id
            if k == 'simple':
                exp = [f] if 0 <= f < n else []
            else:
                exp = demux_expect(c, f, list(range(n)), None)
            if exp is None:
                hist[k + ':outside-statement'] += 1
                continue
            hist[k + (':' + c['server'] if k == 'fair' else '') + ':' + ('one-output' if exp else 'nowhere')] += 1
            got = [dv for dv, _ in entries]
            exc, dnote = downstream(p, exc)
            if exc or got != exp:
                fails.add(f'{k} switch ({c.get("server", "FIFO")}): packet of flow {f} reached outputs {got}{" raising " + exc if exc else ""}, '
                          f'the rule says {exp}' + fnote + dnote, 'switch-rule' + (':downstream-raise' if dnote else ''), c, lines[-6:])
        stray = [(dv, o.packet_id) for dv, o in log if not any(o is p for p in pkts)]
        if stray:
            fails.add(f'switch emitted objects that were never put: {stray}', 'switch-stray', c, lines[-6:])
    elif k == 'hub':
        env = Environment()
        # another hub lives in the same process, built the other documented way (no lists, endpoints attached one by one):
        # hubs are independent objects, nothing of it may show up at this one
        decoy = Hub(env)
        for j in range(2):
            decoy.add_endpoint(Ep(f'decoy{j}', 900 + j, log), None)
        eps = [mk_ep(e, d) for e, d in c['eps']]
        ports = [None if x is None else dev(x) for x in c['ports']]
        try:
            if not c['eps'] and not c['ports_arg']:
                hub = Hub(env)
            else:
                hub = Hub(env, eps, ports) if c['ports_arg'] else Hub(env, eps)
            given_eps, given_ports = eps, ports
            eps, ports = list(eps), list(ports)
            given_eps.append(Ep('bogus', 950, log))   # the caller's lists stay the caller's: growing them later attaches nothing
            given_ports.append(None)
        except Exception as x:      # noqa
            lines.append('X ' + type(x).__name__)
            hist['raise:ctor:' + type(x).__name__] += 1
            if not c['ports'] or len(c['ports']) == len(c['eps']):
                fails.add(f'Hub(env, <{len(eps)} endpoints>{", " + str(c["ports"]) if c["ports_arg"] else ""}) raised {type(x).__name__}',
                          'hub-ctor' + ('' if c['ports'] else ':no-ports'), c, lines[-3:])
            return lines
        allp = [(eps[j], ports[j] if ports else None) for j in range(len(eps))]
        for e, d, x in c['adds']:
            ep = mk_ep(e, d)
            hub.add_endpoint(ep, dev(x))
            allp.append((ep, dev(x)))
        hist['hub:' + ('noports' if not c['ports'] else 'ports')] += 1
        if len(set(e.hid for e, _ in allp)) < len(allp):
            hist['hub:shared-element-id'] += 1
        hist['hub:element-ids:' + idtype] += 1
        for ep, pt in allp:
            if pt is not None:
                lines.append(f'W {pt.dev} {getattr(pt.out, "dev", "?")}')
                if pt.out is not ep:
                    fails.add('Hub: a port device does not lead to its endpoint', 'hub-wiring', c, lines[-3:])
            if ep.out is not hub:
                fails.add('Hub: endpoint.out is not the hub', 'hub-wiring', c, lines[-3:])

        def chk(p, entries, exc):
            # "every attached endpoint except its sender": the sender is the endpoint whose id - the value the harness gave it, of whatever
            # type - equals the value the harness put into packet.src
            sender = ident(idtype, c['pkts'][p.packet_id][2])
            exp = collections.Counter((pt.dev if pt is not None else ep.dev) for ep, pt in allp if ep.hid != sender)
            got = collections.Counter(dv for dv, _ in entries)
            if exc or got != exp:
                fails.add(f'Hub: packet from {p.src!r} was repeated to {sorted(got.elements())}{" raising " + exc if exc else ""}, '
                          f'every endpoint but the sender is {sorted(exp.elements())} (element ids are {idtype} values)' + fnote, 'hub-rule' + ('' if c['ports'] else ':no-ports'),
                          c, lines[-8:])
        put_all(hub, chk)
    elif k in ('splitter', 'nsplitter'):
        try:
            if k == 'splitter':
                sp = Splitter()
                if c['out1'] is not None:
                    sp.out1 = dev(c['out1'])
                if c['out2'] is not None:
                    sp.out2 = dev(c['out2'])
                outs = [c['out1'], c['out2']]
            else:
                sp = NSplitter(c['ns'])
                for j, d in c['sets']:
                    sp.outs[j] = dev(d)
                outs = [None] * c['ns']
                for j, d in c['sets']:
                    outs[j] = d
        except Exception as x:      # noqa
            lines.append('X ' + type(x).__name__)
            hist['raise:ctor:' + type(x).__name__] += 1
            return lines
        hist[f'{k}:unset-outputs' if None in outs else f'{k}:all-set'] += 1

        def chk(p, entries, exc):
            exp = [d for d in outs if d is not None]
            got = [dv for dv, _ in entries]
            bad = None
            if not exc:
                lines.extend(heap_lines([o for _, o in entries]))
            if exc or got != exp:
                bad = f'outputs reached {got}{" raising " + exc if exc else ""}, set outputs are {exp}'
            else:
                objs = [o for _, o in entries]
                first_is_orig = outs[0] is not None
                for j, o in enumerate(objs):
                    if j == 0 and first_is_orig:
                        if o is not p:
                            bad = 'the first output did not get the original object'
                    elif o is p:
                        bad = f'output {got[j]} (not the first) got the original object instead of a copy'
                if not bad and len(set(id(o) for o in objs)) != len(objs):
                    bad = 'two outputs share one packet object'
                if not bad:
                    for o in objs:
                        if any(getattr(o, fld) != getattr(p, fld) for fld in HDR_FIELDS):
                            bad = 'a copy differs from the original in a header field'
                        if any(getattr(o, tab) != getattr(p, tab) for tab in TABLES):
                            bad = 'a copy differs from the original in its per-hop / priority table'
                if not bad:
                    # independent header mutation: change every header field of one object, the others keep theirs
                    for j, o in enumerate(objs):
                        before = [[getattr(q, fld) for fld in HDR_FIELDS] for q in objs]
                        for fld in HDR_FIELDS:
                            setattr(o, fld, ('mut', j, fld))
                        for i2, q in enumerate(objs):
                            if i2 != j and [getattr(q, fld) for fld in HDR_FIELDS] != before[i2]:
                                bad = f'changing header fields of the object at output {got[j]} changed the one at output {got[i2]}'
                        for fld, v in zip(HDR_FIELDS, before[j]):
                            setattr(o, fld, v)
            if bad:
                fails.add(f'{k}: {bad}', 'splitter-rule', c, lines[-8:])
                return
            # in-place writes into the per-hop / priority table of one object, the other objects keep theirs
            objs = [o for _, o in entries]
            for j, o in enumerate(objs):
                before = [[dict(getattr(q, tab)) for tab in TABLES] for q in objs]
                for tab in TABLES:
                    getattr(o, tab)[('mut', j)] = j
                for i2, q in enumerate(objs):
                    if i2 != j and [dict(getattr(q, tab)) for tab in TABLES] != before[i2]:
                        fails.add(f'{k}: writing into perhop_time / priorities of delivered object #{j} (device {got[j]}) changed the table '
                                  f'of delivered object #{i2} (device {got[i2]}): the copies share a dict', 'splitter-rule:tables', c, lines[-8:])
                        return
                for tab in TABLES:
                    del getattr(o, tab)[('mut', j)]
        put_all(sp, chk)
        if any(d is not None for d in outs):
            port_stamp_check(c, k, outs, fails)
    if throwers:
        hist['downstream-raise:cases-in-which-a-device-raised' if tstate['fired'] else 'downstream-raise:cases-without-a-raise'] += 1
    return lines


# ------------------------------------------------------------------------------------------------
# (a') dispatch HISTORIES: the table / outs / ends / default output edited between the packets of one object
# ------------------------------------------------------------------------------------------------
#
# Reading (DESIGN section 3, reconfiguration while running): "hands a packet to the flow's registered end device if there is one, otherwise
# to the output its forwarding table names, default for unknown flows" is judged against the contents the table, `outs`, `ends` and
# `default_out` have AT THE INSTANT OF THE put().  The forwarding table is installed by reference (the fat-tree application does
# `demux.fib = node['flow_to_port']`), so its owner re-routes a flow by `table[f] = other_port`; `outs[i]` / `default_out` are public
# attributes.  A demux has no memory: the n-th packet of a flow goes where a freshly built demux with the current contents would send it.
#
# A history = an initial configuration + steps, all applied to ONE real object (FIBDemux, FlowDemux, SimplePacketSwitch, FairPacketSwitch):
#   ['pkt', pid, flow]            put a packet (switches: then run the simulation until it is idle)
#   ['fib_put', f, port]          table[f] = port   in place, on the dict object that was installed (add or change an entry)
#   ['fib_del', f]                del table[f]      in place
#   ['fib_new', [[f, port]...]]   a NEW dict installed through the `fib` setter (later in-place edits go to this one)
#   ['out', i, dev]               outs[i] = another device (in place, on the list the object holds)
#   ['outs_new', [dev...]]        the attribute `outs` re-bound to a new list (demuxes only)
#   ['outs_append', dev] / ['outs_pop']   the list grows / shrinks in place (FlowDemux)
#   ['default', dev | None]       default_out re-pointed / removed
#   ['end_put', f, dev] / ['end_del', f]  an end device registered / unregistered in `ends`
# The rule oracle keeps its own copy of the contents (from the steps, never read back from the object) and restates the rule with them at
# every packet.  Replay: the Lean Route model takes one static configuration per case, so every packet of a history is replayed as a
# static case of its own holding the contents of that moment (switches as the demux they are specified to route like: FairPacketSwitch
# -> fibdemux, SimplePacketSwitch -> flowdemux, outputs named by the recording devices behind them).

HIST_EDITS = {'fibdemux': ['fib_put'] * 5 + ['fib_del', 'fib_del', 'fib_new', 'fib_new', 'out', 'out', 'out', 'outs_new', 'default', 'end_put', 'end_put', 'end_del'],
              'flowdemux': ['out'] * 4 + ['outs_append', 'outs_pop', 'outs_new', 'default', 'default'],
              'fair': ['fib_put'] * 5 + ['fib_del', 'fib_del', 'fib_new', 'fib_new', 'out', 'out', 'default', 'end_put', 'end_put', 'end_del'],
              'simple': ['out'] * 3 + ['default', 'default']}


def hist_state(c):
    """the contents at the start of history `c` (the oracle's own copy)"""
    dv = c['dev']
    if dv in ('fibdemux', 'flowdemux'):
        outs = None if c['outs'] is None else list(c['outs'])
    else:
        outs = list(range(c['nports']))                # the recording device behind port j is device j
    return {'outs': outs, 'default': c.get('default'), 'ends': [list(e) for e in c.get('ends') or []],
            'fib': None if c.get('fib') is None else [list(e) for e in c['fib']]}


def hist_apply(st, step):
    """the oracle's copy after an edit step"""
    op = step[0]
    if op == 'fib_put':
        st['fib'] = [e for e in st['fib'] if e[0] != step[1]] + [[step[1], step[2]]]
    elif op == 'fib_del':
        st['fib'] = [e for e in st['fib'] if e[0] != step[1]]
    elif op == 'fib_new':
        st['fib'] = [list(e) for e in step[1]]
    elif op == 'out':
        st['outs'][step[1]] = step[2]
    elif op == 'outs_new':
        st['outs'] = list(step[1])
    elif op == 'outs_append':
        st['outs'].append(step[1])
    elif op == 'outs_pop':
        st['outs'].pop()
    elif op == 'default':
        st['default'] = step[1]
    elif op == 'end_put':
        st['ends'] = [e for e in st['ends'] if e[0] != step[1]] + [[step[1], step[2]]]
    elif op == 'end_del':
        st['ends'] = [e for e in st['ends'] if e[0] != step[1]]


def hist_rule(dv, st, flow):
    """the devices the rule names for a packet of `flow` with the contents `st` (None where the statement is silent)"""
    if flow < 0:
        return None
    if dv in ('flowdemux', 'simple'):
        outs = st['outs']
        return [outs[flow]] if flow < len(outs) else ([st['default']] if st['default'] is not None else [])
    return demux_expect(st, flow, st['outs'], st['default'])


def gen_history(rng, i):
    dv = rng.choices(['fibdemux', 'flowdemux', 'fair', 'simple'], weights=[7, 3, 4, 2])[0]
    c = {'kind': 'hist', 'dev': dv}
    fresh = [400]                                       # ids of devices that appear during the history

    def newdev():
        fresh[0] += 1
        return fresh[0]
    if dv == 'fibdemux':
        n = rng.randint(1, 5)
        c['outs'] = [100 + j for j in range(n)]
        flows = rng.sample(range(0, 12), rng.randint(2, 6))
        c['fib'] = [[f, rng.randrange(n)] for f in flows if rng.random() < 0.8]
        c['ends'] = [[f, 300 + j] for j, f in enumerate(rng.sample(range(0, 12), rng.randint(0, 2)))] if rng.random() < 0.4 else []
        c['default'] = 200 if rng.random() < 0.6 else None
        c['install'] = rng.choice(['ctor', 'ctor', 'setter'])       # the table handed to the constructor, or installed through the setter afterwards
    elif dv == 'flowdemux':
        n = rng.randint(1, 6)
        c['outs'] = [100 + j for j in range(n)]
        c['default'] = 200 if rng.random() < 0.6 else None
        flows = list(range(n + 2))
    elif dv == 'fair':
        n = rng.randint(1, 4)
        c['nports'] = n
        c['server'] = rng.choice(SERVERS)
        flows = rng.sample(range(0, 10), rng.randint(2, 5))
        c['fib'] = [[f, rng.randrange(n)] for f in flows if rng.random() < 0.8]
        c['ends'] = [[f, 300 + j] for j, f in enumerate(rng.sample(range(0, 10), rng.randint(0, 2)))] if rng.random() < 0.3 else []
        c['default'] = None
    else:
        n = rng.randint(1, 5)
        c['nports'] = n
        c['default'] = None
        flows = list(range(n + 2))
    st = hist_state(c)
    focus = rng.sample(flows, min(len(flows), rng.randint(1, 3)))      # the flows whose packets straddle the edits
    steps, pid = [], 0

    def pkts(k):
        nonlocal pid
        for _ in range(k):
            f = rng.choice(focus) if rng.random() < 0.8 else rng.choice(flows + [12])
            steps.append(['pkt', pid, f])
            pid += 1
    pkts(rng.randint(1, 3))
    for _ in range(rng.randint(1, 5)):
        for _ in range(rng.choice([1, 1, 1, 2])):
            op = rng.choice(HIST_EDITS[dv])
            nouts = len(st['outs'] or [])
            f = rng.choice(focus) if rng.random() < 0.75 else rng.choice(flows)
            if op == 'fib_put':
                port = rng.randrange(nouts) if (nouts and rng.random() < 0.92) else nouts + rng.randint(0, 1)
                cur = dict(map(tuple, st['fib'])).get(f)
                if cur is not None and nouts > 1 and rng.random() < 0.8:
                    port = rng.choice([p for p in range(nouts) if p != cur])       # a re-route: another port than the one in force
                step = ['fib_put', f, port]
            elif op == 'fib_del':
                known = [e[0] for e in st['fib']]
                if not known:
                    continue
                step = ['fib_del', f if f in known else rng.choice(known)]
            elif op == 'fib_new':
                step = ['fib_new', [[g, rng.randrange(max(nouts, 1))] for g in flows if rng.random() < 0.7]]
            elif op == 'out':
                if not nouts:
                    continue
                used = [e[1] for e in st['fib'] or [] if e[0] in focus and 0 <= e[1] < nouts] if dv in ('fibdemux', 'fair') else [g for g in focus if g < nouts]
                idx = rng.choice(used) if (used and rng.random() < 0.8) else rng.randrange(nouts)
                other = [d for d in st['outs'] if d != st['outs'][idx]]
                step = ['out', idx, rng.choice(other) if (other and rng.random() < 0.3) else newdev()]
            elif op == 'outs_new':
                m = rng.randint(1, nouts + 1)
                step = ['outs_new', [rng.choice(st['outs']) if (st['outs'] and rng.random() < 0.5) else newdev() for _ in range(m)]]
            elif op == 'outs_append':
                step = ['outs_append', newdev()]
            elif op == 'outs_pop':
                if nouts <= 1:
                    continue
                step = ['outs_pop']
            elif op == 'default':
                step = ['default', None if (st['default'] is not None and rng.random() < 0.4) else newdev()]
            elif op == 'end_put':
                step = ['end_put', f, newdev()]
            else:
                known = [e[0] for e in st['ends']]
                if not known:
                    continue
                step = ['end_del', rng.choice(known)]
            steps.append(step)
            hist_apply(st, step)
        pkts(rng.randint(1, 3))
    c['steps'] = steps
    return c


def hist_static_text(dv, st, pid, flow, cid):
    """the static case of the route driver that holds the contents of this moment and this one packet"""
    demux = 'fibdemux' if dv in ('fibdemux', 'fair') else 'flowdemux'
    L = [f'CASE {cid} {demux}']
    L.append('OUTS N' if st['outs'] is None else ('OUTS ' + ' '.join(map(str, st['outs']))).rstrip())
    L.append('DEFAULT ' + N(st['default']))
    if demux == 'fibdemux':
        L.append(('ENDS ' + pairs(st['ends'])).rstrip())
        L.append('FIB N' if st['fib'] is None else ('FIB ' + pairs(st['fib'])).rstrip())
    L += [f'PKT {pid} {flow} 0', 'END']
    return '\n'.join(L)


def run_history(c, fails, hist):
    """drive history `c` on the real object; returns (implementation lines per packet, static replay text per packet)"""
    from onl.netdev.demux import FlowDemux, FIBDemux
    from onl.netdev import SimplePacketSwitch, FairPacketSwitch
    from onl.sim import Environment
    Rec, _ = _classes()
    dv = c['dev']
    log, devs = [], {}

    def dev(d):
        if d is None:
            return None
        if d not in devs:
            devs[d] = Rec(d, log)
        return devs[d]
    st = hist_state(c)
    env = None
    table = None if c.get('fib') is None else dict((f, p) for f, p in c['fib'])       # the dict object the OWNER keeps and edits
    if dv == 'fibdemux':
        outs = [dev(x) for x in c['outs']]
        ends = dict((f, dev(x)) for f, x in c['ends'])
        if c.get('install') == 'setter':
            obj = FIBDemux(outs=outs, ends=ends, default_out=dev(c['default']))
            obj.fib = table
        else:
            obj = FIBDemux(outs=outs, ends=ends, fib=table, default_out=dev(c['default']))
        demux = obj
    elif dv == 'flowdemux':
        obj = demux = FlowDemux([dev(x) for x in c['outs']], dev(c['default']))
    else:
        env = Environment()
        flows_all = sorted({s[2] for s in c['steps'] if s[0] == 'pkt'} | {e[0] for e in c.get('fib') or []}
                           | {e[0] for s in c['steps'] if s[0] == 'fib_new' for e in s[1]} | {s[1] for s in c['steps'] if s[0] == 'fib_put'}) or [0]
        with quiet():
            if dv == 'simple':
                obj = SimplePacketSwitch(env, c['nports'], 1e6, 64, element_id='sw')
            else:
                obj = FairPacketSwitch(env, c['nports'], 1e6, 64, {f: 1 + (f % 3) for f in flows_all}, c['server'], element_id='sw')
        for j in range(c['nports']):
            obj.ports[j].out = dev(j)
        demux = obj.demux
        if dv == 'fair':
            demux.fib = table                               # installed by reference, as the fat-tree application does
            for f, x in c['ends']:
                demux.ends[f] = dev(x)
    hist[f'history:{dv}'] += 1
    out, texts = [], []
    seen_flows, edited = {}, False
    for step in c['steps']:
        op = step[0]
        if op == 'pkt':
            _, pid, flow = step
            p = mk_packet(pid, flow, 0)
            del log[:]
            exc = None
            try:
                with quiet():
                    obj.put(p)
                    if env is not None:
                        drain(env)
            except Exception as x:      # noqa
                exc = type(x).__name__
            entries = list(log)
            lines = [f'P {pid}'] + fmt_deliveries(p, entries) + ([f'X {exc}'] if exc else [])
            out.append(lines)
            texts.append(hist_static_text(dv, st, pid, flow, '%s'))
            exp = hist_rule(dv, st, flow)
            if flow in seen_flows and seen_flows[flow] != exp:
                hist[f'history:{dv}:packet of a flow whose rule outcome changed since its previous packet'] += 1
            seen_flows[flow] = exp
            if exp is None:
                hist[f'history:{dv}:outside-statement'] += 1
                continue
            hist[f'history:{dv}:packets judged'] += 1
            got = [d for d, _ in entries]
            if exc or got != exp or any(o is not p for _, o in entries):
                done = [s for s in c['steps'][:c['steps'].index(step)] if s[0] != 'pkt']
                name = {'fibdemux': 'FIBDemux', 'flowdemux': 'FlowDemux', 'fair': f'FairPacketSwitch ({c.get("server")})', 'simple': 'SimplePacketSwitch'}[dv]
                fails.add(f'{name} with a history: packet {pid} of flow {flow} went to {got}{" raising " + exc if exc else ""}; with the contents in force at this put() '
                          f'(table {st["fib"]}, outs {st["outs"]}, ends {st["ends"]}, default {st["default"]}) the rule says {exp}.  Edits made between the packets so far: {done}',
                          f'history-rule:{dv}', c, sum(out[-4:], []))
        else:
            hist['history:edit:' + op] += 1
            edited = True
            if op == 'fib_put':
                table[step[1]] = step[2]
            elif op == 'fib_del':
                del table[step[1]]
            elif op == 'fib_new':
                table = dict((f, p) for f, p in step[1])
                demux.fib = table
            elif op == 'out':
                demux.outs[step[1]] = dev(step[2])
            elif op == 'outs_new':
                demux.outs = [dev(x) for x in step[1]]
            elif op == 'outs_append':
                demux.outs.append(dev(step[1]))
            elif op == 'outs_pop':
                demux.outs.pop()
            elif op == 'default':
                demux.default_out = dev(step[1])
            elif op == 'end_put':
                demux.ends[step[1]] = dev(step[2])
            elif op == 'end_del':
                del demux.ends[step[1]]
            hist_apply(st, step)
    return out, texts


def replay_histories(cases, fails, hist):
    """histories on the real objects + every packet of them through the static Route model; returns (disagreements, packets replayed)"""
    impl, text = {}, []
    for i, c in enumerate(cases):
        try:
            out, texts = run_history(c, fails, hist)
        except Exception as x:      # noqa
            import traceback
            fails.add(f'history on {c["dev"]}: driving the real object through its public API raised {type(x).__name__}: {x}',
                      'drive-exception:hist', c, traceback.format_exc().splitlines()[-6:])
            continue
        for j, (lines, t) in enumerate(zip(out, texts)):
            cid = f'h{i}.{j}'
            impl[cid] = (c, j, lines)
            text.append(t % cid)
    model = {}
    CH = 6000
    for s in range(0, len(text), CH):
        model.update(split_cases(run_driver('route', '\n'.join(text[s:s + CH]) + '\n')))
    dis = []
    for cid, (c, j, lines) in impl.items():
        b = model.get(cid)
        if lines != b:
            d = first_diff(lines, b)
            if len(dis) < 25:
                dis.append({'case': c, 'detail': f'history, packet number {j}: line {d[0]}: impl `{d[1]}` static model with the contents of that moment `{d[2]}`' if d else 'length',
                            'impl': lines, 'model': b or []})
    return dis, len(impl)


# ------------------------------------------------------------------------------------------------
# (b) fat tree
# ------------------------------------------------------------------------------------------------

def fmt_dict(d):
    return ','.join(f'{a}:{b}' for a, b in d.items()) if d else '-'


def fmt_list(l):
    return ','.join(map(str, l)) if l else '-'


def bfs_dist(adj, src):
    dist = {src: 0}
    q = collections.deque([src])
    while q:
        u = q.popleft()
        for v in adj[u]:
            if v not in dist:
                dist[v] = dist[u] + 1
                q.append(v)
    return dist


def table_walk(nodes, key, start, fuel):
    out = [start]
    cur = start
    for _ in range(fuel):
        nh = nodes[cur].get('flow_to_nexthop', {}).get(key) if cur in nodes else None
        if nh is None:
            break
        out.append(nh)
        cur = nh
    return out


_FT = {}


def fat_tree(k):
    from onl.topo import FatTree
    if k not in _FT:
        _FT[k] = FatTree(k)
    return _FT[k]


_FT2 = {}


def rival_fib(c, hist):
    """A second, independent FatTree of the SAME arity (another experiment of a parameter sweep: other seed, other flows)
    generates its flows and its forwarding tables - called between `generate_fib` of the tree under test and the reading /
    walking / wiring of its tables.  The tables of a FatTree are its own: "its generated forwarding tables lead hop by hop
    from the source to the destination along exactly that path" must still hold for the first tree.  Returns (tree, flows)."""
    from onl.topo import FatTree
    rv = c.get('rival')
    if not rv:
        return None
    k = c['k']
    if k not in _FT2:
        _FT2[k] = FatTree(k)
    ft2 = _FT2[k]
    random.seed(rv['rseed'])
    flows2 = ft2.generate_flows(rv['nflows'])
    ft2.generate_fib(flows2, tcp=bool(rv['tcp']))
    hist['fattree:second-tree-of-the-same-k-generated-its-fib-in-between'] += 1
    return ft2, flows2


def rival_check(c, rival, fails):
    """... and the second tree's own tables lead along its own flows' paths (they were generated last)"""
    if not rival:
        return
    ft2, flows2 = rival
    nodes = ft2.topo.nodes
    for fl in flows2.values():
        w = table_walk(nodes, fl.fid, fl.src, len(nodes) + 1)
        if w != list(fl.path):
            fails.add(f'second FatTree({c["k"]}) of the process, flow {fl.fid}: following flow_to_nexthop from {fl.src} visits {w[:12]}, its path is {fl.path}',
                      'fattree-walk', c, [str(fl.path)])
            return


def make_flows(c):
    """the flow dict of a fat-tree case: regenerated through the real generate_flows when the case came from it"""
    from onl.flow.flow import Flow
    ft = fat_tree(c['k'])
    if c.get('origin') == 'generate_flows':
        random.seed(c['rseed'])
        rk = c.get('rekey')
        if rk:
            # several batches from generate_flows, renumbered into disjoint id ranges (`fid` is a plain dataclass field) and collected in
            # ONE dict whose keys are not the flow ids: dict(enumerate(...)), names, or keys that are other flows' ids.  A flow's id is
            # `flow.fid` - that is what its packets carry and what the tables must be entered under.
            every = []
            for n, base in zip(rk['batches'], rk['bases']):
                for fl in ft.generate_flows(n).values():
                    fl.fid = base + fl.fid
                    every.append(fl)
            if rk['keys'] == 'enumerate':
                flows = dict(enumerate(every))
            elif rk['keys'] == 'names':
                flows = {f'flow-{fl.fid}': fl for fl in every}
            else:
                ids = [fl.fid for fl in every]
                flows = {ids[(j + 1) % len(ids)]: fl for j, fl in enumerate(every)}      # every key is ANOTHER flow's id
        else:
            flows = ft.generate_flows(c['nflows'])
        c['flows'] = [[fl.fid, list(fl.path)] for fl in flows.values()]
        return flows
    flows = {}
    for j, (fid, path) in enumerate(c['flows']):
        fl = Flow(fid, path[0] if path else None, path[-1] if path else None)
        fl.path = list(path)
        flows[j] = fl
    return flows


def run_fattree(c, fails, hist):
    import networkx as nx
    from onl.topo import FatTree
    lines = []
    k = c['k']
    try:
        ft = fat_tree(k) if (isinstance(k, int) and k >= 1 and k % 2 == 0) else FatTree(k)
    except Exception as x:      # noqa
        lines.append('CTOR X ' + type(x).__name__)
        hist['fattree:ctor:' + type(x).__name__] += 1
        return lines
    lines.append('CTOR ok')
    topo = ft.topo
    order = list(topo.nodes())
    adj = {n: list(nx.neighbors(topo, n)) for n in order}
    layer = collections.Counter(topo.nodes[n]['layer'] for n in order)
    lines.append(f'COUNT {layer["core"]} {layer["aggregation"]} {layer["edge"]} {layer["leaf"]} {len(order)}')
    if c['dump']:
        for n in order:
            a = topo.nodes[n]
            lines.append(f'N {n} {a["layer"]} {a["type"]} {a.get("pod", "-")} {fmt_list(adj[n])}')
        # ---- oracle: the standard k-ary fat tree ----
        h = k // 2
        bad = []
        if (layer['core'], layer['aggregation'], layer['edge'], layer['leaf']) != (h * h, k * k // 2, k * k // 2, k ** 3 // 4):
            bad.append(f'counts {dict(layer)} are not ((k/2)^2, k^2/2, k^2/2, k^3/4) for k={k}')
        if set(n for n in order if topo.nodes[n]['type'] == 'host') != set(ft.hosts) or \
                any((topo.nodes[n]['layer'] == 'leaf') != (topo.nodes[n]['type'] == 'host') for n in order):
            bad.append('hosts property / type attribute / leaf layer disagree')
        for n in order:
            a = topo.nodes[n]
            lay = collections.Counter(topo.nodes[m]['layer'] for m in adj[n])
            if len(set(adj[n])) != len(adj[n]) or any(n not in adj[m] for m in adj[n]) or n in adj[n]:
                bad.append(f'adjacency of node {n} is not a simple symmetric relation')
            if a['type'] == 'switch' and len(adj[n]) != k:
                bad.append(f'switch {n} ({a["layer"]}) has degree {len(adj[n])}, not k={k}')
            if a['layer'] == 'edge' and (lay['leaf'] != h or lay['aggregation'] != h
                                         or any(topo.nodes[m].get('pod') != a.get('pod') for m in adj[n])):
                bad.append(f'edge switch {n} has {lay["leaf"]} hosts / {lay["aggregation"]} aggregation neighbours (k/2={h} each, own pod)')
            if a['layer'] == 'aggregation' and (lay['edge'] != h or lay['core'] != h or any(
                    topo.nodes[m].get('pod') != a.get('pod') for m in adj[n] if topo.nodes[m]['layer'] == 'edge')):
                bad.append(f'aggregation switch {n} has {lay["edge"]} edge / {lay["core"]} core neighbours (k/2={h} each)')
            if a['layer'] == 'core' and (lay['aggregation'] != k or len(set(topo.nodes[m].get('pod') for m in adj[n])) != k):
                bad.append(f'core switch {n} does not reach one aggregation switch in each of the {k} pods')
            if a['layer'] == 'leaf' and (len(adj[n]) != 1 or lay['edge'] != 1):
                bad.append(f'host {n} is not attached to exactly one edge switch')
            if len(bad) > 5:
                break
        for b in bad[:3]:
            fails.add(f'FatTree({k}): {b}', 'fattree-structure', c, lines[:3])
    flows = make_flows(c)
    gen_exc = None
    try:
        ft.generate_fib(flows, tcp=bool(c['tcp']))
    except Exception as x:      # noqa
        gen_exc = type(x).__name__
    rival = rival_fib(c, hist) if (not gen_exc and c.get('origin') == 'generate_flows') else None
    if gen_exc:
        lines.append('GEN X ' + gen_exc)
        hist['fattree:gen:' + gen_exc] += 1
    else:
        lines.append('GEN ok')
        nodes = topo.nodes
        for n in order:
            a = nodes[n]
            if c['dump'] or a['flow_to_port'] or a['flow_to_nexthop']:
                lines.append(f'T {n} {fmt_dict(a["port_to_nexthop"])} {fmt_dict(a["nexthop_to_port"])} '
                             f'{fmt_dict(a["flow_to_port"])} {fmt_dict(a["flow_to_nexthop"])}')
        fuel = len(order) + 1
        for fl in flows.values():
            if fl.path:
                lines.append(f'V {fl.fid} {fl.path[0]} {fmt_list(table_walk(nodes, fl.fid, fl.path[0], fuel))}')
                if c['tcp']:
                    lines.append(f'V {fl.fid + 10000} {fl.path[-1]} {fmt_list(table_walk(nodes, fl.fid + 10000, fl.path[-1], fuel))}')
    # ---- oracle on generated flow sets (property domain: flows from generate_flows) ----
    if c.get('origin') == 'generate_flows':
        hosts = set(ft.hosts)
        dcache = {}
        fids = [fl.fid for fl in flows.values()]
        if len(set(fids)) != len(fids) or (not c.get('rekey') and any(f != fl.fid for f, fl in flows.items())):
            fails.add('generate_flows: flow ids are not the distinct keys 0..n-1', 'fattree-flows', c, lines[:3])
        if c.get('rekey'):
            hist['fattree:flow-dict-keys-differ-from-fid:' + c['rekey']['keys']] += 1
        if gen_exc:
            fails.add(f'generate_fib raised {gen_exc} on flows from generate_flows', 'fattree-fib', c, lines[:3])
        for fl in flows.values():
            p = fl.path
            if fl.src == fl.dst or fl.src not in hosts or fl.dst not in hosts:
                fails.add(f'flow {fl.fid}: {fl.src}->{fl.dst} is not a pair of distinct hosts', 'fattree-flows', c, [str(p)])
                continue
            if fl.src not in dcache:
                dcache[fl.src] = bfs_dist(adj, fl.src)
            ok_walk = p and p[0] == fl.src and p[-1] == fl.dst and all(b in adj[a] for a, b in zip(p, p[1:]))
            if not ok_walk or len(p) - 1 != dcache[fl.src][fl.dst]:
                fails.add(f'flow {fl.fid}: path {p} is not a shortest path from {fl.src} to {fl.dst} '
                          f'(BFS distance {dcache[fl.src].get(fl.dst)})', 'fattree-path', c, [str(p)])
                continue
            if gen_exc:
                continue
            nodes = topo.nodes
            w = table_walk(nodes, fl.fid, fl.src, len(order) + 1)
            if w != list(p):
                fails.add(f'flow {fl.fid}: following flow_to_nexthop from {fl.src} visits {w[:12]}{"..." if len(w) > 12 else ""}, its path is {p}', 'fattree-walk', c, [str(p)])
            for a, b in zip(p, p[1:]):
                port = nodes[a]['flow_to_port'].get(fl.fid)
                if port is None or nodes[a]['port_to_nexthop'].get(port) != b or list(adj[a]).index(b) != port:
                    fails.add(f'flow {fl.fid}: flow_to_port at node {a} is {port}, which does not lead to the next hop {b}',
                              'fattree-port', c, [str(p)])
                    break
            if c['tcp']:
                w = table_walk(nodes, fl.fid + 10000, fl.dst, len(order) + 1)
                if w != list(reversed(p)):
                    fails.add(f'flow {fl.fid}: the ACK class {fl.fid + 10000} walks {w[:12]}{"..." if len(w) > 12 else ""} from {fl.dst}, '
                              f'the reverse path is {list(reversed(p))}',
                              'fattree-ack-walk', c, [str(p)])
                for a, b in zip(p, p[1:]):
                    port = nodes[b]['flow_to_port'].get(fl.fid + 10000)
                    if port is None or nodes[b]['port_to_nexthop'].get(port) != a:
                        fails.add(f'flow {fl.fid}: ACK-class flow_to_port at node {b} is {port}, which does not lead back to {a}',
                                  'fattree-ack-port', c, [str(p)])
                        break
        rival_check(c, rival, fails)
    return lines


def gen_fattree_cases(rng, ctx):
    ks = [2, 4, 6, 8, 10, 12] if ctx.quick else [2, 4, 6, 8, 10, 12, 14, 16, 18, 20]
    nseeds = 5 if ctx.quick else 30
    cases = []
    for k in ks:
        for s in range(nseeds):
            rseed = rng.randrange(10 ** 9)
            nfl = rng.choice([1, 2, 5, 10, 20, 35, 50]) if s else 50
            for tcp in (0, 1):
                cases.append({'kind': 'fattree', 'k': k, 'tcp': tcp, 'dump': int(s == 0 and tcp == 0), 'origin': 'generate_flows',
                              'rseed': rseed, 'nflows': nfl, 'flows': []})
                if k <= 8 and rng.random() < 0.5:
                    # a second FatTree(k) (other seed, other flow set) generates its FIB between this tree's generate_fib and the walks
                    cases[-1]['rival'] = {'rseed': rng.randrange(10 ** 9), 'nflows': rng.choice([1, 3, 10, 25]), 'tcp': rng.randint(0, 1)}
            if k >= 4 and s < 3:
                # the same tree, flow dicts whose keys are not the flows' ids (two renumbered batches in one dict)
                n1, n2 = rng.choice([1, 3, 8, 20]), rng.choice([1, 2, 5, 12])
                b1 = rng.choice([0, 0, 7, 100])
                for tcp in (0, 1):
                    cases.append({'kind': 'fattree', 'k': k, 'tcp': tcp, 'dump': 0, 'origin': 'generate_flows', 'rseed': rng.randrange(10 ** 9),
                                  'nflows': n1 + n2, 'flows': [],
                                  'rekey': {'batches': [n1, n2], 'bases': [b1, b1 + n1 + rng.choice([0, 5, 1000])],
                                            'keys': rng.choice(['enumerate', 'enumerate', 'names', 'other-ids'])}})
    # constructor argument check
    for k in [0, -2, 1, 3, 7, rng.choice([9, 11, 13])]:
        cases.append({'kind': 'fattree', 'k': k, 'tcp': 0, 'dump': 0, 'origin': 'handmade', 'flows': []})
    # hand-made (malformed) flow sets: non-adjacent hops, repeated nodes, shared flow ids, empty and one-node paths
    for j in range(40 if ctx.quick else 400):
        k = rng.choice([2, 4, 4, 6])
        ft = fat_tree(k)
        import networkx as nx
        nn = ft.topo.number_of_nodes()
        flows = []
        for q in range(rng.randint(1, 6)):
            fid = rng.randint(0, 4) if rng.random() < 0.5 else rng.randint(0, 9999)
            path = [rng.randrange(nn)]
            for _ in range(rng.randint(0, 8)):
                nb = list(nx.neighbors(ft.topo, path[-1])) if path[-1] < nn else []
                r = rng.random()
                path.append(rng.choice(nb) if (nb and r < 0.93) else rng.randrange(nn + 2))
            if rng.random() < 0.05:
                path = []
            flows.append([fid, path])
        cases.append({'kind': 'fattree', 'k': k, 'tcp': rng.randint(0, 1), 'dump': 0, 'origin': 'handmade', 'flows': flows})
    return cases


# ------------------------------------------------------------------------------------------------
# (c) end-to-end fat-tree simulation
# ------------------------------------------------------------------------------------------------

def run_sim(c, fails, hist):
    """wiring of tests/apps/fattree.py; returns a summary line list (no model counterpart)"""
    from functools import partial
    from onl.sim import Environment
    from onl.packet import DistPacketGenerator, PacketSink
    from onl.netdev import FairPacketSwitch
    k, nfl, tcp, server, ncls = c['k'], c['nflows'], c['tcp'], c['server'], c['nclasses']
    ft = fat_tree(k)
    random.seed(c['rseed'])
    flows = ft.generate_flows(nfl)
    c['flows'] = [[fl.fid, list(fl.path)] for fl in flows.values()]
    env = Environment()
    gens, sinks = {}, {}
    for fid, fl in flows.items():
        gens[fid] = DistPacketGenerator(env, f'Flow_{fid}', lambda: 0.0008, lambda: 1024, finish=c['finish'], flow_id=fid)
        sinks[fid] = PacketSink(env)
        if tcp:
            gens[fid + 10000] = DistPacketGenerator(env, f'Ack_{fid}', lambda: 0.0011, lambda: 64, finish=c['finish'], flow_id=fid + 10000)
            sinks[fid + 10000] = PacketSink(env)
    ft.generate_fib(flows, tcp=bool(tcp))
    rival = rival_fib(c, hist)          # another FatTree(k) of the same process computes its tables before this one is wired and simulated
    weights = {cl: 1 + cl % 2 for cl in range(ncls)}
    if server == 'SP':
        # SP keeps its sub-queues and priorities per flow id (flow2class is only used as a label): configure every flow id
        weights = {key: 1 + key % 3 for key in gens}

    def cls(flow_id, n_id, fib):
        return (flow_id + n_id + fib[flow_id]) % ncls

    topo = ft.topo
    with quiet():
        for n in topo.nodes():
            node = topo.nodes[n]
            node['device'] = FairPacketSwitch(env, k, 1e9, 1000, weights, server, element_id=f'{n}',
                                              flow2class=partial(cls, n_id=n, fib=node['flow_to_port']))
            node['device'].demux.fib = node['flow_to_port']
        for n in topo.nodes():
            node = topo.nodes[n]
            for port, nh in node['port_to_nexthop'].items():
                node['device'].ports[port].out = topo.nodes[nh]['device']
        for fid, fl in flows.items():
            gens[fid].out = topo.nodes[fl.src]['device']
            topo.nodes[fl.dst]['device'].demux.ends[fid] = sinks[fid]
            if tcp:
                gens[fid + 10000].out = topo.nodes[fl.dst]['device']
                topo.nodes[fl.src]['device'].demux.ends[fid + 10000] = sinks[fid + 10000]
        exc = None
        try:
            drain(env, c['finish'] + 5.0, 3000000)
        except Exception as x:      # noqa
            exc = type(x).__name__ + ': ' + str(x)[:100]
    summary = []
    rlines = []
    sent = recv = 0
    shared = collections.Counter()
    for fid, fl in flows.items():
        for a, b in zip(fl.path, fl.path[1:]):
            shared[(a, b, cls(fid, a, topo.nodes[a]['flow_to_port']))] += 1
    hist['sim:links-with-flows-sharing-a-class'] += sum(1 for v in shared.values() if v >= 2)
    if exc:
        fails.add(f'fat-tree simulation raised {exc}', 'sim-exception', c, [])
        return ['SIM X ' + exc]
    # the journey of every packet, read from the per-hop stamps the egress ports leave in it (element id "<node>_<port>")
    for key, sk in sinks.items():
        fl = flows[key % 10000]
        start, end = (fl.src, fl.dst) if key < 10000 else (fl.dst, fl.src)
        want = list(fl.path) if key < 10000 else list(reversed(fl.path))
        journeys = [[int(str(e).split('_')[0]) for e in hops] + [end] for hops in sk.perhop_times.get(key, [])]
        if journeys:
            rlines.append(f'R {key} {start} {fmt_list(journeys[0])} deliver {key}')
            odd = [j for j in journeys if j != want]
            if odd:
                fails.add(f'flow class {key}: a packet travelled {odd[0]}, the path is {want}', 'sim-journey', c, rlines[-2:])
        else:
            rlines.append(f'R {key} {start} - lost')
    for key, sk in sinks.items():
        got = dict(sk.packets_received)
        n_sent = gens[key].packets_send
        sent += n_sent
        recv += got.get(key, 0)
        summary.append(f'{key}:{n_sent}/{got.get(key, 0)}')
        foreign = {f: v for f, v in got.items() if f != key and v}
        if foreign:
            fails.add(f'sink of flow class {key} received packets of other flows: {foreign}', 'sim-foreign-packet', c, summary[-3:])
        elif got.get(key, 0) != n_sent:
            fails.add(f'flow class {key}: {n_sent} packets sent, {got.get(key, 0)} arrived at its sink', 'sim-lost-packet', c, summary[-3:])
    hist['sim:packets-sent'] += sent
    hist['sim:packets-arrived-at-own-sink'] += recv
    for n in topo.nodes():
        topo.nodes[n].pop('device', None)
    rival_check(c, rival, fails)
    c['sim_summary'] = ' '.join(summary)
    return rlines


def gen_sims(rng, ctx):
    out = []
    n = 4 if ctx.quick else 10
    for j in range(n):
        k = [2, 4, 4, 6][j % 4] if ctx.quick else rng.choice([2, 4, 4, 6, 8])
        out.append({'kind': 'sim', 'k': k, 'nflows': rng.choice([3, 8, 15]) if k > 2 else 2, 'tcp': j % 2, 'server': SERVERS[(j + 2) % 4],
                    'nclasses': rng.choice([1, 2, 3, 5]), 'rseed': rng.randrange(10 ** 9), 'finish': 0.006, 'flows': [],
                    'origin': 'generate_flows', 'dump': 0})
        if j % 2 == 0 or rng.random() < 0.5:
            out[-1]['rival'] = {'rseed': rng.randrange(10 ** 9), 'nflows': rng.choice([2, 6, 12]) if k > 2 else 2, 'tcp': rng.randint(0, 1)}
    return out


# ------------------------------------------------------------------------------------------------
# driver
# ------------------------------------------------------------------------------------------------

def first_diff(a, b):
    for i in range(max(len(a), len(b or []))):
        x = a[i] if i < len(a) else '<end>'
        y = b[i] if b and i < len(b) else '<end>'
        if x != y:
            return i, x, y
    return None


def run_impl(c, fails, hist):
    try:
        if c['kind'] == 'fattree':
            return run_fattree(c, fails, hist)
        if c['kind'] == 'sim':
            lines = run_fattree(c, fails, hist)
            return lines + run_sim(c, fails, hist)
        return run_dispatch(c, fails, hist)
    except Exception as x:      # noqa  - the real objects could not even be wired / read as the public API promises
        import traceback
        tb = traceback.format_exc().splitlines()
        fails.add(f'{c["kind"]}: driving the real objects through their public API raised {type(x).__name__}: {x}',
                  'drive-exception:' + c['kind'], c, tb[-6:])
        return ['DRIVE-X ' + type(x).__name__]


def nontrivial(c, lines):
    k = c['kind']
    if k == 'fattree':
        return sum(1 for l in lines if l.startswith('V ')) >= 2
    if k == 'sim':
        return True
    nd = sum(1 for l in lines if l.startswith('D '))
    return nd >= (2 if k in ('hub', 'splitter', 'nsplitter') else 1)


def run(ctx):
    rng = random.Random(f'{PROP}-{ctx.seed}')
    if ctx.replay:
        j = json.load(open(ctx.replay))
        cases = [j['case']] if j.get('case') else []
        for d in j.get('broken_correspondence', []) or []:
            if d.get('case'):
                cases.append(d['case'])
    else:
        n = 6000 if ctx.quick else 80000
        cases = [gen_dispatch(rng, i) for i in range(n)] + gen_fattree_cases(rng, ctx) + gen_sims(rng, ctx)
        # oracle-only batch (a stream of its own: the cases above are what they were): downstream devices that raise
        rrng = random.Random(f'{PROP}-raise-{ctx.seed}')
        cases += [gen_raise_case(rrng, i) for i in range(500 if ctx.quick else 6000)]
    # dispatch histories (a stream of their own): one object, its table / outs / ends / default output edited between the packets
    if ctx.replay:
        hcases = [c for c in cases if c.get('kind') == 'hist']
        cases = [c for c in cases if c.get('kind') != 'hist']
    else:
        hrng = random.Random(f'{PROP}-hist-{ctx.seed}')
        hcases = [gen_history(hrng, i) for i in range(1500 if ctx.quick else 20000)]
    fails = Failures()
    hist = collections.Counter()
    hdis, hpk = replay_histories(hcases, fails, hist)
    impl = {}
    for i, c in enumerate(cases):
        impl[str(i)] = run_impl(c, fails, hist)
        hist['kind:' + c['kind']] += 1
    model = {}
    todo = [(str(i), c) for i, c in enumerate(cases) if not c.get('raisers')]      # cases with failing devices are judged by the oracle only
    CH = 3000
    for s in range(0, len(todo), CH):
        text = '\n'.join(case_text(c, cid) for cid, c in todo[s:s + CH]) + '\n'
        model.update(split_cases(run_driver('route', text)))
    disagreements = []
    distinct = set()
    nontriv = 0
    samples = []
    lines_cmp = 0
    for cid, c in todo:
        a, b = impl[cid], model.get(cid)
        lines_cmp += len(a)
        key = json.dumps({x: y for x, y in c.items() if x != 'malformed'}, sort_keys=True)
        nt = nontrivial(c, a)
        if nt and key not in distinct:
            nontriv += 1
            if len(samples) < 2 and c['kind'] in ('fibdemux', 'hub') and len(a) > 4:
                samples.append({'case': c, 'implementation_trace': a[:20]})
        distinct.add(key)
        if a != b:
            d = first_diff(a, b)
            disagreements.append({'case': c, 'detail': f'line {d[0]}: impl `{d[1]}` model `{d[2]}`' if d else 'length',
                                  'impl': a[:200], 'model': (b or [])[:200]})
    # one failing input per signature is enough for the report; keep the smallest case of each
    best = {}
    for f in fails:
        s = f['signature']
        if s not in best or len(json.dumps(f['case'], default=str)) < len(json.dumps(best[s]['case'], default=str)):
            best[s] = f
    cov = {
        'evaluations': len(cases),
        'distinct_nontrivial': nontriv,
        'rule': 'seeded random configurations; non-trivial = distinct case in which a packet is actually handed to an output '
                '(two or more deliveries for hubs/splitters), a fat-tree case with at least two table walks, or an end-to-end simulation',
        'samples': samples,
        'traces_validated_against_impl': len(todo) - len(disagreements),
        'oracle_only_cases': {'downstream_devices_that_raise': len(cases) - len(todo),
                              'kinds': dict(collections.Counter(c['kind'] for c in cases if c.get('raisers'))),
                              'exceptions': dict(collections.Counter(e for c in cases for _, _, e in (c.get('raisers') or []))),
                              'judged_by': 'the rule oracle alone (handed to exactly the output the rule names; hand-overs logged before the raise); '
                                           'whether the exception reaches the caller is only counted (operation_histogram, downstream-raise:*)'},
        'observation_lines_compared': lines_cmp,
        'dispatch_histories': {'histories': len(hcases), 'packets_each_replayed_as_a_static_case_with_the_contents_of_its_moment': hpk,
                               'disagreements': len(hdis),
                               'rule': 'one FIBDemux / FlowDemux / SimplePacketSwitch / FairPacketSwitch object whose table (in place / through the setter), outs[i], '
                                       'default_out and ends are edited between packets; every packet judged by the rule oracle with the contents at the instant of its put() '
                                       '(DESIGN section 3) and replayed through the static Route model with those contents; counted apart from `evaluations`',
                               'sample': hcases[0] if hcases else None},
        'operation_histogram': dict(sorted(hist.items())),
        'fat_tree_k': sorted(set(c['k'] for c in cases if c['kind'] == 'fattree' and c.get('origin') == 'generate_flows')),
        'oracle_failures_total': len(fails),
        'translated': _PREP.get('translated', []),
        'generated_diff_vs_pinned': _PREP.get('diff_vs_pinned', []),
        'hand_modelled': ['SimplePacketSwitch.__init__', 'FairPacketSwitch.__init__', 'Hub.__init__', 'Hub.add_endpoint', 'Hub.put',
                          'NSplitter.__init__', 'NSplitter.put', 'FatTree.__init__', 'FatTree.generate_fib'],
    }
    return {'coverage': cov, 'disagreements': disagreements + hdis, 'oracle_failures': list(best.values())}
