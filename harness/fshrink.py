"""Greedy shrinking of FifoServer workloads: a case holds lists of source scripts
`[(gap, [(flow, size), ...]), ...]` under some keys; drop sources, script entries and packets while the
oracle failure with the same signature persists."""
import copy


def shrink(case, keys, still_fails, budget=400):
    """still_fails(case) -> bool.  Returns a smaller case on which still_fails holds (or `case`)."""
    best = copy.deepcopy(case)
    n = [0]

    def attempt(c):
        n[0] += 1
        if n[0] > budget:
            return False
        try:
            return still_fails(c)
        except Exception:
            return False

    changed = True
    while changed and n[0] <= budget:
        changed = False
        for key in keys:
            srcs = best.get(key) or []
            # drop whole sources
            i = 0
            while i < len(srcs):
                c = copy.deepcopy(best)
                del c[key][i]
                if (c[key] or key != keys[0]) and attempt(c):
                    best, srcs, changed = c, c[key], True
                else:
                    i += 1
            # drop script entries, folding the gap into the next entry
            for si in range(len(srcs)):
                j = len(srcs[si]) - 1
                while j >= 0:
                    c = copy.deepcopy(best)
                    gap = c[key][si][j][0]
                    del c[key][si][j]
                    if j < len(c[key][si]):
                        c[key][si][j] = (c[key][si][j][0] + gap, c[key][si][j][1])
                    if c[key][si] and attempt(c):
                        best, srcs, changed = c, c[key], True
                    j -= 1
            # drop packets of a burst
            for si in range(len(srcs)):
                for j in range(len(srcs[si])):
                    k = len(srcs[si][j][1]) - 1
                    while k >= 0 and len(best[key][si][j][1]) > 1:
                        c = copy.deepcopy(best)
                        del c[key][si][j][1][k]
                        if attempt(c):
                            best, srcs, changed = c, c[key], True
                        k -= 1
    return best
