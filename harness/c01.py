"""C01 - events take effect in time order, urgent first, then in trigger order."""
from harness import kprops, koracle

ASSUMPTIONS = [
    'delays are finite non-NaN numbers; Environment.schedule/Event.trigger are not called directly by user code',
    'time is exact rational in the theorems; the executable model runs at IEEE double and is compared bit for bit',
    'heapq.heappop returns a minimum of the queued tuples (library)',
]

SPEC = [(5, 'time'), (2, 'intr'), (1, 'outcome'), (1, 'cond'), (2, 'plan:time')]


def run(ctx):
    return kprops.run_kernel(ctx, 'C01', SPEC, 2000, 60000, oracles=[kprops.oracle_time_monotone, koracle.oracle_c01])
