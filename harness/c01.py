"""C01 - events take effect in time order, urgent first, then in trigger order."""
import json
from harness import kprops, koracle, klong, kbridge
from harness.kbridge import TRUSTED_EXTRA
EXTRA_MODULES = kbridge.MODULES['C01']      # this property's bridge modules only (py2lean/SCOPE.md)
prepare = kbridge.prepare_for('C01')    # regenerates only the generated files this property owns

ASSUMPTIONS = [
    'delays are finite non-NaN numbers; Environment.schedule/Event.trigger are not called directly by user code',
    'time is exact rational in the theorems; the executable model runs at IEEE double and is compared bit for bit',
    'heapq.heappop returns a minimum of the queued tuples (library)',
    'long-run probes (more than 2**20 scheduled occurrences before the coincidences) are judged by the direct oracle only; the model is not run on them',
    'integer-clock probes (initial_time beyond 2**53, integer delays and stops) are judged by the direct oracle only; the model runs at IEEE double',
]

SPEC = [(5, 'time'), (2, 'intr'), (1, 'victim'), (1, 'outcome'), (1, 'cond'), (2, 'plan:time'), (1, 'ack')]


def run(ctx):
    if ctx.replay:
        j = json.load(open(ctx.replay))
        if isinstance(j.get('case'), dict) and j['case'].get('probe') == 'long-run':
            fails, cov = klong.run_probe(j['case'])
            return {'coverage': {'evaluations': 1, 'distinct_nontrivial': 1, 'rule': 'replayed long-run probe', 'samples': [j['case']],
                                 'long_run_probes': [cov]}, 'disagreements': [], 'oracle_failures': fails}
        if isinstance(j.get('case'), dict) and j['case'].get('probe') == 'int-clock':
            fails, cov = klong.run_intclock(j['case'])
            return {'coverage': {'evaluations': 1, 'distinct_nontrivial': 1, 'rule': 'replayed integer-clock probe', 'samples': [j['case']],
                                 'integer_clock_probes': cov}, 'disagreements': [], 'oracle_failures': fails}
    res = kprops.run_kernel(ctx, 'C01', SPEC, 2000, 60000, oracles=[kprops.oracle_time_monotone, koracle.oracle_c01])
    res['coverage'].update(kbridge.coverage('C01'))
    if not ctx.replay:
        # oracle-only cases, counted separately: coincidences of old / recent ordinary and urgent occurrences late in a long run
        fails, cov = klong.probes(ctx)
        res['oracle_failures'] += fails
        res['coverage']['long_run_probes'] = cov
        # oracle-only cases, counted separately: integer clocks beyond 2**53 (integer delays and stops, exact as Python ints)
        fails, cov = klong.intclock_probes(ctx)
        res['oracle_failures'] += fails
        res['coverage']['integer_clock_probes'] = cov
    return res
