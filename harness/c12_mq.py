"""C12, multi-queue half - SP, RR, WRR and DRR are work-conserving, non-preemptive, rate-exact and per-flow FIFO.
`run_family(ctx)` has the return shape of a check's `run(ctx)`; harness/c12.py combines it with the WFQ/VirtualClock half."""
import random
from harness.mq import gen_group, evaluate, cases_from_replay
from harness.mqoracle import oracle_c12

ASSUMPTIONS = [
    'workloads over the configured flows; positive priorities/weights; sizes positive integers; rate > 0; `out` attached',
    '"eventually transmitted" is checked as: nothing is held once the simulation has run out of events (theorem: nothing held whenever the clock may advance and no transmission is in progress)',
    'theorems are over exact rationals; the replay compares IEEE doubles bit for bit',
    'the scheduler processes on the real kernel refine the MultiQueueServer LTS: checked by replay (labels from Process.target and the sender process), not proved',
    'Monitor: `dist` is a scripted callable; a sample taken between the creation of the sender process and its first step (impossible on the kernel: URGENT Initialize) is not constrained',
]
TRUSTED_EXTRA = ['the kernel guarantees (G1-G3) that make `tick` admissible only at quiescence are theorems of model K (C01), assumed for the device LTS']
KINDS = ['sp', 'rr', 'wrr', 'drr']


def gen(rng, n):
    return [gen_group(rng, f'mq{i}', KINDS[i % 4], backlog=rng.random() < 0.4, share=0.1) for i in range(n)]


def run_family(ctx):
    rng = random.Random(f'C12-mq-{ctx.seed}')
    if ctx.replay:
        cases = [c for c in cases_from_replay(ctx.replay) if c.get('kind') in KINDS]
    else:
        cases = gen(rng, 1850 if ctx.quick else 40000)
    return evaluate(
        cases, [oracle_c12],
        nontrivial=lambda c, r, st, co: co[0] + co[1] > 0, again_n=20,
        rule='seeded random configurations of SP/RR/WRR/DRR (2-6 flows, identity and many-to-one flow2class maps, Monitors with both '
             'settings) x workloads (1-3 sources, same-instant bursts, idle gaps); non-trivial = distinct case with at least one '
             'arrival at the very instant a transmission ends')
